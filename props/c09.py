"""C09 — tree keeps parent/child links consistent under every operation history."""
from vlib.runner import Batch

ID = "C09"
LEAN_PROPS = ["FcpptProofs.Props.C09"]
HARNESS = {"src": "harness/c09.cpp"}
TIE = ("hand-written pointer-level model (FcpptModel/Model/C09.lean: address, parent_ link, child list per object) + differential "
       "correspondence against the real fcppt::container::tree::object, instantiated with int and with a move-only value type, under "
       "ASan/UBSan/LSan; every mutating line compares values, structure, every parent() link and the identity (address) of every object "
       "before/after the operation with the model's ids")
RULE = ("systematic batches: every ordered tree shape with <= 5 nodes (3 value patterns, as a root and hung below another node) under "
        "every observer on every node and every ordered pair of nodes; every mutator on every node / every child position / every "
        "ordered pair of nodes of two small trees (aliasing pairs included: same node, parent/child, siblings), each followed by all "
        "observers on all nodes; two-step sequences (save-mutate-restore, detach-reattach, swap twice, move out and back); then "
        "histories of tree operations over a forest of <= 4 heap roots, operands chosen among all current nodes (n-th node in pre-order); "
        "after every mutating line both sides print every node's value, child structure and whether parent() is exactly the owner "
        "(the harness additionally walks every parent chain); observers pre_order/to_root/depth/level/child_position/map/==/!= are "
        "interleaved (also front/back, begin/end/rbegin/rend/size/empty, operator<<, sort(Predicate), object(T&&, child_list&&), value "
        "arguments that alias the container), the object returned by pop/release is dumped before it is moved, and every mutating line "
        "carries the identity vector (which objects are the same as before). quick: histories up to 25 lines, thorough: up to 40 lines. "
        "An evaluation is one operation line; it is non-trivial if it is not skipped (skip:*), distinct = distinct (line, model result) pairs.")
ASSUMPTIONS = [
    "the behaviour of the non-copying members does not depend on the value type: the second instantiation (a move-only value type whose moved-from state keeps its number) is compared with the same model",
    "std::list<object> holds its elements by value with stable addresses: moving/swapping/sorting a list keeps element identity, copying constructs new elements",
    "std::list::sort is a stable sort (modelled by List.mergeSort)",
    "an object's address is a fresh natural number; T = int, a moved-from int keeps its value",
    "misuse creating self-ownership is excluded: moving a node into its own sub-tree, move-assigning from an ancestor, swapping ancestor and descendant",
]
TRUSTED = ["harness/c09.cpp + harness/c09_body.cpp and the line protocol (vh.hpp, Proto.lean)",
           "g++ 12 + ASan/UBSan/LSan as witness for dangling links, double frees and leaks of the real template"]

# (name, weight, arity description)
MUTATORS = [
    ("new", 6), ("del", 2), ("set", 3),
    ("pushb", 9), ("pushf", 6), ("ins", 6),
    ("pushbt", 4), ("pushft", 3), ("inst", 4),
    ("popb", 3), ("popf", 3), ("rel", 4),
    ("erase", 2), ("eraser", 2), ("clear", 1), ("sort", 3),
    ("swap", 7), ("cpa", 6), ("mva", 6), ("cpc", 3), ("mvc", 3),
    ("sortp", 3), ("mkl", 2), ("pushbv", 2), ("pushfv", 1), ("insv", 2), ("setv", 2), ("pushbmv", 1), ("pushfmv", 1), ("setmv", 1),
]
OBSERVERS = [("pre", 3), ("toroot", 3), ("depth", 2), ("level", 2), ("cpos", 1), ("cposk", 2), ("map", 2), ("eq", 3),
             ("front", 1), ("back", 1), ("kids", 2), ("out", 2), ("obsall", 2)]


def pick(rng, table):
    tot = sum(w for _, w in table)
    k = rng.below(tot)
    for n, w in table:
        if k < w:
            return n
        k -= w
    return table[-1][0]


def node(rng):
    # small numbers favour roots and shallow nodes, large ones spread over the whole forest
    return str(rng.below(4) if rng.chance(1, 3) else rng.below(1000))


def val(rng):
    return str(rng.below(6) if rng.chance(5, 6) else rng.range(-50, 50))


def line(rng, name):
    if name == "new":
        return f"new {val(rng)}"
    if name == "del":
        return f"del {rng.below(8)}"
    if name == "set":
        return f"set {node(rng)} {val(rng)}"
    if name in ("pushb", "pushf"):
        return f"{name} {node(rng)} {val(rng)}"
    if name == "ins":
        return f"ins {node(rng)} {rng.below(12)} {val(rng)}"
    if name in ("pushbt", "pushft"):
        return f"{name} {node(rng)} {node(rng)}"
    if name == "inst":
        return f"inst {node(rng)} {rng.below(12)} {node(rng)}"
    if name in ("popb", "popf"):
        return f"{name} {node(rng)} {rng.below(2)}"
    if name == "rel":
        return f"rel {node(rng)} {rng.below(12)} {rng.below(2)}"
    if name == "erase":
        return f"erase {node(rng)} {rng.below(12)}"
    if name == "eraser":
        return f"eraser {node(rng)} {rng.below(12)} {rng.below(12)}"
    if name in ("clear", "sort", "cpc", "mvc", "pre", "toroot", "depth", "level", "map", "front", "back", "kids", "out"):
        return f"{name} {node(rng)}"
    if name == "obsall":
        return "obsall"
    if name == "sortp":
        return f"sortp {node(rng)} {rng.below(4)}"
    if name == "mkl":
        return f"mkl {node(rng)} {val(rng)}"
    if name == "insv":
        return f"insv {node(rng)} {rng.below(12)} {node(rng)}"
    if name in ("swap", "cpa", "mva", "cpos", "eq", "pushbv", "pushfv", "setv", "pushbmv", "pushfmv", "setmv"):
        a = node(rng)
        b = a if rng.chance(1, 25) else node(rng)
        return f"{name} {a} {b}"
    if name == "cposk":
        return f"cposk {node(rng)} {rng.below(12)}"
    raise ValueError(name)


def history(rng, maxlen, style):
    """One history (without the leading reset)."""
    n = rng.range(max(4, maxlen // 2), maxlen)
    ops = []
    # a seed phase so that there are inner nodes to operate on
    warm = rng.range(4, 12)
    ops.append(f"new {val(rng)}")
    for _ in range(warm):
        ops.append(line(rng, rng.choice(["pushb", "pushf", "ins", "pushb", "ins", "pushb", "new", "cpc"])))
    while len(ops) < n:
        if style == "assign":
            table = [("swap", 5), ("cpa", 5), ("mva", 5), ("cpc", 2), ("mvc", 2), ("pushb", 3), ("pushbt", 2), ("inst", 2),
                     ("rel", 2), ("del", 1), ("toroot", 2), ("level", 1), ("pre", 1), ("mkl", 1), ("setv", 1), ("pushbv", 1),
                     ("obsall", 1)]
            ops.append(line(rng, pick(rng, table)))
        elif style == "grow":
            table = [("pushb", 8), ("pushf", 4), ("ins", 6), ("pushbt", 3), ("inst", 3), ("cpa", 3), ("mva", 3), ("swap", 4), ("sort", 2),
                     ("rel", 1), ("popb", 1), ("set", 1), ("cpc", 1), ("pre", 3), ("toroot", 3), ("depth", 2), ("level", 2),
                     ("cposk", 2), ("cpos", 1), ("map", 2), ("eq", 2), ("eraser", 1), ("sortp", 2), ("insv", 1), ("kids", 1),
                     ("front", 1), ("back", 1), ("out", 2), ("obsall", 1)]
            ops.append(line(rng, pick(rng, table)))
        elif rng.chance(1, 4):
            ops.append(line(rng, pick(rng, OBSERVERS)))
        else:
            ops.append(line(rng, pick(rng, MUTATORS)))
    ops = ops[:maxlen - 1]
    ops.append("obsall")          # every history ends with every observer on every node
    return ops


def batches(rng, tier):
    thorough = tier == "thorough"
    maxlen = 40 if thorough else 25
    yield from shape_pair_batches(tier)
    yield from shape_permuted_batches(tier)
    yield from shape_observer_batches(tier)
    yield from shape_op_batches(tier)
    yield from two_step_batches(tier)
    for style, cnt_q, cnt_t in (("mixed", 4000, 40000), ("assign", 2000, 20000), ("grow", 1500, 15000)):
        r = rng.fork("hist-" + style)
        cnt = cnt_t if thorough else cnt_q
        ops = []
        for _ in range(cnt):
            ops.append("reset")
            ops += history(r, maxlen, style)
        yield Batch(f"histories-{style}", ops, kind="history",
                    note=f"{cnt} histories of up to {maxlen} lines, style {style}")
    # the same operation language on the instantiation with a move-only value type (copying operations answer skip:copy)
    r = rng.fork("hist-moveonly")
    cnt = 15000 if thorough else 1500
    ops = []
    for k in range(cnt):
        ops.append("reset")
        ops += ["M " + l for l in history(r, maxlen, "assign" if k % 3 == 0 else "mixed")]
    yield Batch("histories-moveonly", ops, kind="history",
                note=f"{cnt} histories of up to {maxlen} lines on object<move-only value type>")


def shapes(n):
    """all ordered rooted trees with n nodes, as nested lists of children"""
    if n == 1:
        return [[]]
    out = []
    # forests with n-1 nodes: first child has k nodes, the rest is a forest of n-1-k nodes (= a tree of n-k nodes minus its root)
    for k in range(1, n):
        for first in shapes(k):
            for rest in shapes(n - k):
                out.append([first] + rest)
    return out


def build_lines(root, shape, values):
    """history lines that build `shape` as forest root number `root`; values are consumed in pre-order"""
    it = iter(values)
    lines = [f"new {next(it)}"]

    def rec(path, kids):
        for j, k in enumerate(kids):
            lines.append(f"pushb {path} {next(it)}")
            rec(f"{path}.{j}", k)
    rec(f"p{root}", shape)
    return lines


def shape_pair_batches(tier):
    """Systematic: every pair of tree shapes (<= 5 nodes quick, <= 6 thorough) holding the SAME values in pre-order (and one
    variant with a single differing value), compared with == / != in both directions, plus the observers on both. A comparison
    that looks only at the flattened sequence, at the sizes, or only at the first level is wrong on some pair."""
    maxn = 6 if tier == "thorough" else 5
    sh = [(n, t) for n in range(1, maxn + 1) for t in shapes(n)]
    ops = []
    for na, a in sh:
        for nb, b in sh:
            for variant in (0, 1):
                if variant == 1 and (na != nb or na == 1):
                    continue
                va = list(range(1, na + 1))
                vb = list(range(1, nb + 1))
                if variant == 1:
                    vb[-1] += 7
                ops.append("reset")
                ops += build_lines(0, a, va)
                ops += build_lines(1, b, vb)
                ops += ["eq p0 p1", "eq p1 p0", "pre p0", "pre p1", "depth p0", "depth p1"]
                if a and b:
                    ops += ["eq p0.0 p1.0", "eq p0 p1.0", f"eq p0.{len(a) - 1} p1.{len(b) - 1}"]
                # the same comparison after a copy and after moving a grandchild one level up
                ops += ["cpc p0", "eq p0 p2", "eq p2 p1"]
    yield Batch("shape-pairs", ops, kind="history", exhaustive=True,
                note=f"all pairs of ordered tree shapes with <= {maxn} nodes and identical pre-order values (+ one-value variants): "
                     "== / != both ways, on sub-trees and on a copy")


def valued(shape, it):
    """(value, [children]) with the values taken in pre-order"""
    v = next(it)
    return (v, [valued(k, it) for k in shape])


def build_valued(root, t):
    lines = [f"new {t[0]}"]

    def rec(path, kids):
        for j, k in enumerate(kids):
            lines.append(f"pushb {path} {k[0]}")
            rec(f"{path}.{j}", k[1])
    rec(f"p{root}", t[1])
    return lines


def permute_at(t, path, perm):
    """the tree with the children of the node at `path` (list of child indices) rearranged by `perm`"""
    if not path:
        return (t[0], [t[1][i] for i in perm])
    kids = list(t[1])
    kids[path[0]] = permute_at(kids[path[0]], path[1:], perm)
    return (t[0], kids)


def shape_permuted_batches(tier):
    """Same multiset of children, different order: every shape (<= 5 nodes quick, <= 6 thorough) against the same tree with the
    children of ONE node reversed / rotated (the sub-trees travel with their values). == must be false unless the rearranged
    children are equal trees; a comparison that treats the child list as a multiset, or that looks at the sorted values, is wrong."""
    maxn = 6 if tier == "thorough" else 5
    ops = []

    def inner(t, path):
        out = [(path, t)]
        for j, k in enumerate(t[1]):
            out += inner(k, path + [j])
        return out
    for n in range(3, maxn + 1):
        for sh in shapes(n):
            for vals in (list(range(1, n + 1)), [7] * n):
                t = valued(sh, iter(vals))
                for path, sub in inner(t, []):
                    k = len(sub[1])
                    if k < 2:
                        continue
                    perms = [list(reversed(range(k)))]
                    if k > 2:
                        perms.append(list(range(1, k)) + [0])
                    for perm in perms:
                        u = permute_at(t, path, perm)
                        ops.append("reset")
                        ops += build_valued(0, t) + build_valued(1, u)
                        ops += ["eq p0 p1", "eq p1 p0", "out p0", "out p1", "pre p0", "pre p1", "sort p0", "sort p1", "eq p0 p1"]
    yield Batch("shape-permuted", ops, kind="history", exhaustive=True,
                note=f"all shapes with <= {maxn} nodes against themselves with the children of one node reversed / rotated (distinct and "
                     "all-equal values): == / != both ways, operator<<, pre_order, and == again after sorting both roots")


def build_under(prefix, shape, values):
    """lines that build the children of `shape` below the existing node `prefix`, whose value is set to values[0]"""
    it = iter(values)
    lines = [f"set {prefix} {next(it)}"]

    def rec(path, kids):
        for j, k in enumerate(kids):
            lines.append(f"pushb {path} {next(it)}")
            rec(f"{path}.{j}", k)
    rec(prefix, shape)
    return lines


def node_paths(prefix, shape):
    """[(path, shape of the sub-tree)] in pre-order"""
    out = [(prefix, shape)]
    for j, k in enumerate(shape):
        out += node_paths(f"{prefix}.{j}", k)
    return out


def value_patterns(n):
    """distinct values in pre-order; all equal (only addresses / structure distinguish nodes); unsorted with ties modulo 3"""
    base = [3, -1, 4, 1, -5, 9, 2, -6, 5, 0, 7, -2]
    return [list(range(1, n + 1)), [7] * n, [base[i % len(base)] for i in range(n)]]


def shape_observer_batches(tier):
    """Every observer on EVERY node and every ordered pair of nodes of every tree shape (<= 5 nodes; <= 6 thorough), for three
    value patterns, with the shape once as a root and once hung below the middle child of another tree (so to_root / level /
    child_position leave the shape)."""
    maxn = 6 if tier == "thorough" else 5
    ops = []
    for n in range(1, maxn + 1):
        for t in shapes(n):
            for vals in value_patterns(n):
                for ctx in (0, 1):
                    ops.append("reset")
                    if ctx == 0:
                        ops += build_lines(0, t, vals)
                        top = "p0"
                    else:
                        ops += ["new 100", "pushb p0 101", "pushb p0 0", "pushb p0 102", "pushb p0.2 103"]
                        ops += build_under("p0.1", t, vals)
                        top = "p0.1"
                    nodes = [("p0", None)] + node_paths(top, t) if ctx else node_paths(top, t)
                    for pth, _ in nodes:
                        for o in ("pre", "toroot", "depth", "level", "map", "front", "back", "kids", "out"):
                            ops.append(f"{o} {pth}")
                    for pa, _ in nodes:
                        for pb, _ in nodes:
                            ops.append(f"cpos {pa} {pb}")
                            ops.append(f"eq {pa} {pb}")
                    ops.append("obsall")
    yield Batch("shape-observers", ops, kind="history", exhaustive=True,
                note=f"all ordered tree shapes with <= {maxn} nodes x 3 value patterns (distinct, all equal, ties) x 2 contexts (root, "
                     "inner sub-tree): pre_order, to_root, depth, level, map, front, back, begin/end/rbegin/rend/size/empty, operator<< on "
                     "every node; child_position and == / != on every ordered pair of nodes")


COPY_CMDS = ("cpc", "cpa", "mkl", "pushbv", "pushfv", "insv", "setv")
OTHER = [[[]], []]          # the second tree of the pair batches: 10(11(12) 13)
OTHER_VALS = [10, 11, 12, 13]


def unary_cases(pth, sub):
    """every unary mutator applicable at a node with child shape list `sub`, at every position"""
    k = len(sub)
    out = ["clear {a}", "sort {a}", "sortp {a} 1", "sortp {a} 2", "sortp {a} 3", "popf {a} 0", "popf {a} 1", "popb {a} 0", "popb {a} 1",
           "cpc {a}", "mvc {a}", "mkl {a} 50", "set {a} 51", "set {a} 52", "set {a} 53", "pushb {a} 54", "pushb {a} 55",
           "pushf {a} 56", "pushf {a} 57"]
    for i in range(k):
        out += [f"rel {{a}} {i} 0", f"rel {{a}} {i} 1", f"erase {{a}} {i}"]
    for i in range(k + 1):
        out += [f"ins {{a}} {i} 58", f"ins {{a}} {i} 59"]
        for j in range(i, k + 1):
            out.append(f"eraser {{a}} {i} {j}")
    return [o.format(a=pth) for o in out]


def binary_cases(pa, ka, pb):
    out = [f"swap {pa} {pb}", f"cpa {pa} {pb}", f"mva {pa} {pb}", f"pushbt {pa} {pb}", f"pushft {pa} {pb}",
           f"setv {pa} {pb}", f"pushbv {pa} {pb}", f"pushfv {pa} {pb}", f"setmv {pa} {pb}", f"pushbmv {pa} {pb}",
           f"pushfmv {pa} {pb}"]
    for i in range(ka + 1):
        out += [f"inst {pa} {i} {pb}", f"insv {pa} {i} {pb}"]
    return out


def shape_op_batches(tier):
    """Every mutator on every node of every shape (<= 5 nodes quick, <= 6 thorough), at every child position, and every binary
    operation on every ORDERED PAIR of nodes of the shape and of a second fixed tree (this contains every aliasing pattern:
    a == b, b child / descendant / sibling / parent of a, different trees), each followed by every observer on every node."""
    maxn = 6 if tier == "thorough" else 5
    ops = []
    for n in range(1, maxn + 1):
        for t in shapes(n):
            vals = value_patterns(n)[2]
            setup = build_lines(0, t, vals) + build_lines(1, OTHER, OTHER_VALS)
            na = node_paths("p0", t)
            nb = node_paths("p1", OTHER)
            for pth, sub in na:
                for case in unary_cases(pth, sub):
                    ops += ["reset"] + setup + [case, "obsall"]
            # sorting children that are all equivalent (equal values, different sub-trees / identities): a stable sort moves nothing
            eqsetup = build_lines(0, t, value_patterns(n)[1])
            for pth, sub in na:
                if len(sub) >= 2:
                    for case in (f"sort {pth}", f"sortp {pth} 0", f"sortp {pth} 1", f"sortp {pth} 2", f"sortp {pth} 3"):
                        ops += ["reset"] + eqsetup + [case, "obsall"]
            for pa, sa in na + nb:
                for pb, sb in na + nb:
                    if n > 1 and pa.startswith("p1") and pb.startswith("p1"):
                        continue          # independent of the shape: done once, with the one-node shape
                    for case in binary_cases(pa, len(sa), pb):
                        ops += ["reset"] + setup + [case, "obsall"]
    # the move-only instantiation: the same cases (the copying ones are skipped there) for the shapes with one node less
    mo = []
    for n in range(1, maxn):
        for t in shapes(n):
            vals = value_patterns(n)[2]
            setup = ["M " + l for l in build_lines(0, t, vals) + build_lines(1, OTHER, OTHER_VALS)]
            na = node_paths("p0", t)
            nb = node_paths("p1", OTHER)
            for pth, sub in na:
                for case in unary_cases(pth, sub):
                    if case.split()[0] not in COPY_CMDS:
                        mo += ["reset"] + setup + ["M " + case, "M obsall"]
            for pa, sa in na + nb:
                for pb, sb in na + nb:
                    if n > 1 and pa.startswith("p1") and pb.startswith("p1"):
                        continue
                    for case in binary_cases(pa, len(sa), pb):
                        if case.split()[0] not in COPY_CMDS:
                            mo += ["reset"] + setup + ["M " + case, "M obsall"]
    yield Batch("shape-ops-moveonly", mo, kind="history", exhaustive=True,
                note=f"the non-copying cases of shape-ops for all shapes with <= {maxn - 1} nodes on object<move-only value type>")
    yield Batch("shape-ops", ops, kind="history", exhaustive=True,
                note=f"all shapes with <= {maxn} nodes: every unary mutator on every node and child position; swap / copy-assign / "
                     "move-assign / push(tree) / insert(tree) / value-by-reference forms on every ordered pair of nodes (incl. same node, "
                     "ancestor/descendant, siblings, other tree); all observers on all nodes after each")


def two_step_batches(tier):
    """Two- and three-step sequences whose net effect is known: save - mutate - restore, detach - re-attach, swap twice,
    move out - move back, copy - compare - modify copy - compare (independence)."""
    maxn = 5 if tier == "thorough" else 4
    ops = []
    muts = ["clear {a}", "sort {a}", "sortp {a} 1", "popf {a} 0", "popb {a} 0", "pushb {a} 60", "pushf {a} 61", "set {a} 62",
            "ins {a} 1 63", "erase {a} 0", "eraser {a} 0 2", "mva {a} p1", "cpa {a} p1.0", "swap {a} p1.0", "pushbt {a} p1.0",
            "inst {a} 0 p1"]
    for n in range(1, maxn + 1):
        for t in shapes(n):
            vals = value_patterns(n)[2]
            setup = build_lines(0, t, vals) + build_lines(1, OTHER, OTHER_VALS)
            na = node_paths("p0", t)
            for pth, sub in na:
                k = len(sub)
                # save (copy becomes root 2), mutate, compare, restore by copy assignment, compare, and the copy must be untouched
                for m in muts:
                    ops += ["reset"] + setup + [f"cpc {pth}", m.format(a=pth), f"eq {pth} p2", "pre p2", f"cpa {pth} p2",
                                                 f"eq {pth} p2", "obsall"]
                # modify the copy: the original must be untouched
                for m in muts:
                    ops += ["reset"] + setup + [f"cpc {pth}", m.format(a="p2"), f"eq {pth} p2", "obsall"]
                # move out and back
                ops += ["reset"] + setup + [f"mvc {pth}", "obsall", f"mva {pth} p2", "obsall"]
                ops += ["reset"] + setup + [f"mvc {pth}", f"swap {pth} p2", "obsall"]
                ops += ["reset"] + setup + [f"mkl {pth} 64", f"eq {pth} p2", f"mva {pth} p2", "obsall"]
                # detach the i-th child and put it back at the same place / at every other place
                for i in range(k):
                    for j in range(k):
                        ops += ["reset"] + setup + [f"rel {pth} {i} 1", "obsall", f"inst {pth} {j} p2", "obsall"]
                if k:
                    ops += ["reset"] + setup + [f"popb {pth} 1", f"pushbt {pth} p2", "obsall"]
                    ops += ["reset"] + setup + [f"popf {pth} 1", f"pushft {pth} p2", "obsall"]
                    ops += ["reset"] + setup + [f"popf {pth} 1", f"pushbt {pth} p2", "obsall"]      # rotation
                # swap twice with every other non-related node, self-assignment chains
                for pb, _ in na + node_paths("p1", OTHER):
                    ops += ["reset"] + setup + [f"swap {pth} {pb}", f"swap {pth} {pb}", "obsall"]
                    ops += ["reset"] + setup + [f"swap {pth} {pb}", f"swap {pb} {pth}", "obsall"]
                    if pb.startswith(pth + "."):
                        # the second operand lies below the first: it is gone after the first assignment
                        ops += ["reset"] + setup + [f"cpa {pth} {pb}", "obsall"]
                        ops += ["reset"] + setup + [f"mva {pth} {pb}", "obsall"]
                    else:
                        ops += ["reset"] + setup + [f"cpa {pth} {pb}", f"eq {pth} {pb}", f"cpa {pb} {pth}", "obsall"]
                        ops += ["reset"] + setup + [f"mva {pth} {pb}", f"mva {pb} {pth}", "obsall"]
                # sorting twice is sorting once; sorting by a predicate then by the default order
                for kk in (0, 1, 2, 3):
                    ops += ["reset"] + setup + [f"sortp {pth} {kk}", f"sortp {pth} {kk}", "sort " + pth, f"sortp {pth} 2", "obsall"]
    yield Batch("two-step", ops, kind="history", exhaustive=True,
                note=f"all shapes with <= {maxn} nodes, every node: save-mutate-restore, modify-the-copy, move out and back, "
                     "detach and re-attach at every position, swap twice, assignment there and back, repeated sorts")


def nontrivial(op, result):
    return not result.startswith("skip:") and result != "bad-op" and op != "reset"


MANIFEST = {
    "level_text": ("Machine-checked proof (Lean 4) over an executable pointer-level model of fcppt::container::tree::object (address, "
                   "parent_ link and by-value child list per object, every member function with the same writes to parent_ as the "
                   "code): the link invariant (every child's parent_ is the address of the object that lists it, roots have none, "
                   "addresses are unique and no link names a dead object) is proved preserved by every operation on every node for "
                   "all histories; a valid, non-misuse operation is proved never to fault (progress); every operation is proved to refine "
                   "the corresponding operation on plain rose trees; pre_order (explicit stack), to_root/level (pointer chasing), depth, "
                   "child_position, map and == are proved equal to the recursive reference computations, the traversals also as "
                   "sequences of objects; sort()/sort(Predicate) is proved to be the unique stable ordered permutation of the same child "
                   "objects; front/back/iterators/size/empty and operator<< are modelled (the printed characters are proved to determine "
                   "the tree); copies are proved deep (fresh addresses, equal abstraction). The model is tied to the code by a differential "
                   "correspondence (systematic batches over all tree shapes <= 5 nodes x all nodes / ordered pairs of nodes x all "
                   "operations, two-step sequences, seeded histories; int and a move-only value type) under ASan/UBSan/LSan."),
    "level_note": ("Trusted: Lean kernel + propext/Classical.choice/Quot.sound; fidelity of the hand-written model outside the exercised "
                   "histories; harness and line protocol; std::list modelled as a by-value List with stable element identity. "
                   "Self-ownership misuse (move into own sub-tree, move-assign from an ancestor, swap of ancestor and descendant) is "
                   "excluded by hypothesis and answered skip:misuse. Addresses in the model are never reused. No sorry/axiom/native_decide."),
    "technique": "Lean 4 proof over hand-written executable model + differential correspondence on systematic batches and histories (ASan/UBSan harness)",
    "design_ref": "DESIGN.md §5 C09, Appendix A.4",
}
