"""C11 — intrusive list / signal membership equals the set of live connections."""
from vlib.runner import Batch

ID = "C11"
LEAN_PROPS = ["FcpptProofs.Props.C11"]
HARNESS = {"src": "harness/c11.cpp"}
TIE = ("hand-written pointer-store model (FcpptModel/Model/C11.lean, one definition per special member of intrusive::base / "
       "intrusive::list, pointer write by pointer write) + differential correspondence on operation histories; every line "
       "compares forward walk, backward walk, empty() and the raw prev_/next_ of every live node")
RULE = ("history batches: `reset` + up to 30 (quick) / 50 (thorough) operations over <= 3 live lists / signals and <= 8 live "
        "elements / connections; after every operation both sides print the full observable state. An op is non-trivial if "
        "its dump shows at least one linked element / invoked callback; distinct = distinct (op, resulting state) pairs. "
        "small-scope batches: every valid sequence of <= 3 operations (thorough: <= 4 for six of them) after each of nine start "
        "scenarios, fresh ids canonical (exhaustive within that scope). Operation kinds generated: L E d u M A LM LA LD "
        "(lists), SN PN SC PC SX SM SA SD call (signals); the weights are in the batch notes.")
ASSUMPTIONS = [
    "the caller respects object lifetimes (constructors on fresh storage, members on live objects) - generator and driver enforce it",
    "callbacks, combiners and unregister functions are pure apart from the log/counter the harness keeps; the theorems hold for every choice",
    "a moved-from fcppt::function (std::function) is empty (libstdc++): calling a moved-from signal that has connections prints nocomb",
]
TRUSTED = ["harness/c11.cpp (incl. the read-only friend access to prev_/next_/head_) and the line protocol (vh.hpp, Proto.lean)",
           "g++ 12 + ASan/UBSan as witness for stale links actually followed by the real code"]

MAX_LISTS_LIVE = 3
LIST_IDS = 5
MAX_ELEMS_LIVE = 8
ELEM_IDS = 12


# ------------------------------------------------------------------ abstract state of the generator (mirrors Spec/C11.lean)
class Rings:
    def __init__(self):
        self.rings = []          # lists of names, head first when present

    def nodes(self):
        return [n for r in self.rings for n in r]

    def ring_of(self, n):
        for r in self.rings:
            if n in r:
                return r
        return None

    def live(self, n):
        return self.ring_of(n) is not None

    def erase(self, n):
        for r in self.rings:
            if n in r:
                r.remove(n)
        self.rings = [r for r in self.rings if r]

    def replace(self, y, w):
        for r in self.rings:
            for i, x in enumerate(r):
                if x == y:
                    r[i] = w

    def alone(self, n):
        r = self.ring_of(n)
        return r is None or len(r) <= 1

    def lists(self):
        return sorted(int(n[1:]) for n in self.nodes() if n[0] == "h")

    def elems(self):
        return sorted(int(n[1:]) for n in self.nodes() if n[0] == "e")

    def copy(self):
        c = Rings()
        c.rings = [list(r) for r in self.rings]
        return c

    # ---- operations, same text as the protocol
    def apply(self, op):
        t = op.split()
        o = t[0]
        a = [int(x) for x in t[1:]]
        if o in ("L", "SN", "PN"):
            self.rings.insert(0, [f"h{a[0]}"])
        elif o in ("E", "SC", "PC"):
            e, k = a[0], a[1]
            for r in self.rings:
                if r[0] == f"h{k}":
                    r.append(f"e{e}")
        elif o in ("d", "SX"):
            self.erase(f"e{a[0]}")
        elif o == "u":
            self.erase(f"e{a[0]}")
            self.rings.insert(0, [f"e{a[0]}"])
        elif o == "M":
            if self.alone(f"e{a[1]}"):          # unlinked source -> unlinked new element
                self.rings.insert(0, [f"e{a[0]}"])
            else:
                self.replace(f"e{a[1]}", f"e{a[0]}")
                self.rings.insert(0, [f"e{a[1]}"])
        elif o == "A":
            if a[0] != a[1]:
                self.erase(f"e{a[0]}")
                if self.alone(f"e{a[1]}"):      # source unlinked once the target has left
                    self.rings.insert(0, [f"e{a[0]}"])
                else:
                    self.replace(f"e{a[1]}", f"e{a[0]}")
                    self.rings.insert(0, [f"e{a[1]}"])
        elif o in ("LM", "SM"):
            if self.alone(f"h{a[1]}"):
                self.rings.insert(0, [f"h{a[0]}"])
            else:
                self.replace(f"h{a[1]}", f"h{a[0]}")
                self.rings.insert(0, [f"h{a[1]}"])
        elif o in ("LA", "SA"):
            if a[0] != a[1]:
                if self.alone(f"h{a[1]}"):
                    self.erase(f"h{a[0]}")
                    self.rings.insert(0, [f"h{a[0]}"])
                else:
                    self.erase(f"h{a[0]}")
                    self.replace(f"h{a[1]}", f"h{a[0]}")
                    self.rings.insert(0, [f"h{a[1]}"])
        elif o in ("LD", "SD"):
            self.erase(f"h{a[0]}")


def valid_list_ops(st, list_ids=LIST_IDS, elem_ids=ELEM_IDS, max_lists=MAX_LISTS_LIVE, max_elems=MAX_ELEMS_LIVE, canonical=False):
    """all valid operations in state st, grouped by kind. canonical: fresh ids are the smallest free id."""
    ls, es = st.lists(), st.elems()
    free_l = [k for k in range(list_ids) if k not in ls]
    free_e = [e for e in range(elem_ids) if e not in es]
    if canonical:
        free_l, free_e = free_l[:1], free_e[:1]
    ops = {}
    if len(ls) < max_lists:
        ops["L"] = [f"L {k}" for k in free_l]
        ops["LM"] = [f"LM {k2} {k}" for k2 in free_l for k in ls]
    if len(es) < max_elems:
        ops["E"] = [f"E {e} {k}" for e in free_e for k in ls]
        ops["M"] = [f"M {e2} {e}" for e2 in free_e for e in es]       # unlinked / moved-from sources included
    ops["d"] = [f"d {e}" for e in es]
    ops["u"] = [f"u {e}" for e in es]
    ops["A"] = [f"A {a} {b}" for a in es for b in es]
    ops["LA"] = [f"LA {k} {k2}" for k in ls for k2 in ls]
    ops["LD"] = [f"LD {k}" for k in ls]
    return {k: v for k, v in ops.items() if v}


LIST_WEIGHTS = {"L": 3, "E": 10, "d": 5, "u": 3, "M": 5, "A": 6, "LM": 3, "LA": 5, "LD": 2}


def gen_list_history(rng, length):
    st = Rings()
    ops = []
    # start: one or two lists
    while len(ops) < length:
        cand = valid_list_ops(st)
        if not cand:
            break
        kinds = sorted(cand)
        w = [LIST_WEIGHTS[k] for k in kinds]
        if not st.lists():
            kinds, w = ["L"], [1]
        x = rng.below(sum(w))
        for k, wk in zip(kinds, w):
            if x < wk:
                break
            x -= wk
        op = rng.choice(cand[k])
        # self move-assignment is legal and rare
        if k in ("A", "LA"):
            t = op.split()
            if t[1] == t[2] and not rng.chance(1, 4):
                continue
        ops.append(op)
        st.apply(op)
    return ops


SIG_WEIGHTS = {"N": 3, "C": 10, "X": 6, "SM": 3, "SA": 5, "SD": 2, "call": 4}


def gen_sig_history(rng, length):
    st = Rings()
    fam = {}        # signal id -> "S" | "P"
    ops = []
    nextf = [1]
    while len(ops) < length:
        ls, es = st.lists(), st.elems()
        free_l = [k for k in range(LIST_IDS) if k not in ls]
        free_e = [e for e in range(ELEM_IDS) if e not in es]
        cand = {}
        if len(ls) < MAX_LISTS_LIVE:
            cand["N"] = [f"{f}N {k} {rng.below(8)}" for k in free_l for f in "SP"]
            cand["SM"] = [f"SM {k2} {k}" for k2 in free_l for k in ls]
        if len(es) < MAX_ELEMS_LIVE and ls:
            cand["C"] = [(f"SC {e} {k} {nextf[0]} {rng.below(6)}" if fam[k] == "S" else f"PC {e} {k} {nextf[0]}") for e in free_e for k in ls]
        if es:
            cand["X"] = [f"SX {e}" for e in es]
        if ls:
            cand["SA"] = [f"SA {k} {k2}" for k in ls for k2 in ls if fam[k] == fam[k2]]
            cand["SD"] = [f"SD {k}" for k in ls]
            cand["call"] = [f"call {k} {rng.below(50)} {rng.below(50)}" for k in ls]
        if not ls:
            cand = {"N": cand["N"]}
        kinds = sorted(cand)
        w = [SIG_WEIGHTS[k] for k in kinds]
        x = rng.below(sum(w))
        for k, wk in zip(kinds, w):
            if x < wk:
                break
            x -= wk
        op = rng.choice(cand[k])
        t = op.split()
        if k == "SA" and t[1] == t[2] and not rng.chance(1, 4):
            continue
        if k == "N":
            fam[int(t[1])] = t[0][0]
        if k == "SM":
            fam[int(t[1])] = fam[int(t[2])]
        if k == "C":
            nextf[0] = nextf[0] % 97 + 1
        ops.append(op)
        if k != "call":
            st.apply(op)
    return ops


# ------------------------------------------------------------------ exhaustive small scope
def scenarios():
    """start states reached by fixed prefixes: empty/non-empty lists, an orphan ring, unlinked elements"""
    return [
        ["L 0"],
        ["L 0", "E 0 0"],
        ["L 0", "E 0 0", "E 1 0"],
        ["L 0", "L 1", "E 0 0", "E 1 1"],
        ["L 0", "L 1", "E 0 0", "E 1 0", "E 2 1"],
        ["L 0", "E 0 0", "E 1 0", "LD 0"],                 # orphan ring of two, no list
        ["L 0", "L 1", "E 0 0", "E 1 0", "LA 0 1"],        # orphan ring + two empty lists
        ["L 0", "L 1", "E 0 0", "E 1 1", "E 2 1", "u 0"],  # an unlinked element
        ["L 0", "E 0 0", "E 1 0", "E 2 0", "LM 1 0"],      # moved-from list
    ]


def enum_small(depth, max_lists=3, max_elems=4, only=None):
    out = []
    for idx, pre in enumerate(scenarios()):
        if only is not None and idx not in only:
            continue
        st0 = Rings()
        for o in pre:
            st0.apply(o)

        def rec(st, seq, d):
            if seq:
                out.append(pre + seq)
            if d == 0:
                return
            cand = valid_list_ops(st, list_ids=4, elem_ids=6, max_lists=max_lists, max_elems=max_elems, canonical=True)
            for k in sorted(cand):
                for op in cand[k]:
                    st2 = st.copy()
                    st2.apply(op)
                    rec(st2, seq + [op], d - 1)

        rec(st0, [], depth)
    return out


DEEP_SCENARIOS = [0, 1, 2, 3, 5, 6]     # depth 4 in the thorough tier (the others would be > 4M lines each)


def maximal_only(hists):
    """drop histories that are a proper prefix of another one (their lines are checked there too)"""
    s = set(tuple(h) for h in hists)
    pref = set()
    for h in s:
        for i in range(1, len(h)):
            pref.add(h[:i])
    return [list(h) for h in sorted(s) if h not in pref]


def flat(hists):
    ops = []
    for h in hists:
        ops.append("reset")
        ops += h
    return ops


def batches(rng, tier):
    thorough = tier == "thorough"
    depth = 3
    small = maximal_only(enum_small(depth))
    yield Batch("lists-small-scope", flat(small), kind="history", exhaustive=True,
                note=f"every valid sequence of <= {depth} operations (canonical fresh ids) after each of {len(scenarios())} start scenarios; {len(small)} maximal histories")
    if thorough:
        for idx in DEEP_SCENARIOS:
            deep = maximal_only(enum_small(4, only=[idx]))
            yield Batch(f"lists-small-scope-depth4-s{idx}", flat(deep), kind="history", exhaustive=True,
                        note=f"every valid sequence of <= 4 operations after start scenario {idx} ({' ; '.join(scenarios()[idx])}); {len(deep)} maximal histories")
    r = rng.fork("lists")
    n, ln = (15000, 50) if thorough else (2000, 30)
    hs = [gen_list_history(r, r.range(ln // 2, ln)) for _ in range(n)]
    yield Batch("lists-random", flat(hs), kind="history", note=f"{n} random histories of length {ln // 2}..{ln}; kinds weighted {LIST_WEIGHTS}")
    r = rng.fork("signals")
    n, ln = (10000, 50) if thorough else (1500, 30)
    hs = [gen_sig_history(r, r.range(ln // 2, ln)) for _ in range(n)]
    yield Batch("signals-random", flat(hs), kind="history", note=f"{n} random histories of length {ln // 2}..{ln}; kinds weighted {SIG_WEIGHTS}; both signal::base and unregister::base")


def equivalent(op, impl, model):
    """the driver appends the verdict of the spec judge; it must not be BAD and the rest must be identical"""
    core, sep, verdict = model.partition(" #spec=")
    return core == impl and verdict != "BAD"


def nontrivial(op, model_line):
    if op == "reset":
        return False
    return ("=e" in model_line) or any(ch.isdigit() for seg in model_line.split(" S")[1:] for ch in seg.split(":")[0].split("=")[-1])


MANIFEST = {
    "level_text": ("Machine-checked proof (Lean 4) over an executable pointer-store model that mirrors every special member of "
                   "intrusive::base and intrusive::list pointer write by pointer write: for every history of valid operations the "
                   "store is the pointer image of a partition of the live nodes into rings (representation relation), hence every "
                   "live node's links are live and mutually inverse, no operation touches a dead node, and forward/backward "
                   "iteration of a list yields exactly the abstract member list; signal call = callbacks of the live connections "
                   "in connection order, left fold of the combiner, unregister exactly once. Tied to the code by a differential "
                   "correspondence on operation histories (ASan/UBSan harness, raw prev_/next_ compared after every step)."),
    "level_note": ("Trusted: Lean kernel + propext/Classical.choice/Quot.sound; fidelity of the hand-written model outside the "
                   "exercised histories; harness and line protocol. No sorry/axiom/native_decide."),
    "technique": "Lean 4 proof (representation relation over a pointer store) + differential correspondence on histories (ASan/UBSan harness)",
    "design_ref": "DESIGN.md §5 C11, Appendix A.4",
}
