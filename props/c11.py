"""C11 — intrusive list / signal membership equals the set of live connections."""
from vlib.runner import Batch

ID = "C11"
LEAN_PROPS = ["FcpptProofs.Props.C11"]
HARNESS = {"src": "harness/c11.cpp"}
TIE = ("hand-written pointer-store model (FcpptModel/Model/C11.lean, one definition per special member of intrusive::base / "
       "intrusive::list and per member of intrusive::iterator, pointer write by pointer write; both operator()s of signal::object as "
       "loops with effectful callbacks; owners of auto_connections) + differential correspondence on operation histories; every line "
       "compares forward / backward walk (iterator and const_iterator, ++it, it++, --it, it--, operator->, the iterator's members called "
       "directly), empty() and the raw prev_/next_ of every live node, the position of every iterator object; for signals what every "
       "signal invokes, its result, the backward walk of connections(), the unregister counters and what each unregister function saw")
RULE = ("history batches: `reset` + up to 30 (quick) / 50 (thorough) operations over <= 3 live lists / signals and <= 8 live "
        "elements / connections; after every operation both sides print the full observable state. An op is non-trivial if "
        "its dump shows at least one linked element / invoked callback; distinct = distinct (op, resulting state) pairs. "
        "small-scope batches (exhaustive within their scope, fresh ids canonical): every valid sequence of <= 3 list operations after each "
        "of nine start scenarios (thorough: <= 4 for six of them); iterators at every kind of position, every sequence of <= 2 list operations, "
        "then every iterator operation on every surviving iterator and every comparable pair (incl. self-swap); every valid sequence of <= 3 "
        "signal / owner operations after each of nine signal scenarios over the four instantiations int(int)|void(int) x signal::base|"
        "unregister::base (thorough: <= 4 for six of them); every single and every pair of callback effects during a call; the deliberate "
        "self-disconnect histories. Operation kinds: L E d u M A LM LA LD, IB IE CB CE IP CP IN CN IC IX I+ I- Ip Im I= IS I* (lists), "
        "SN PN VN WN SC PC VC WC SX SM SA SD call vcall HA HW KP KO KE KC KA AN AR AK AC rcall rvcall (signals); weights in the batch notes.")
ASSUMPTIONS = [
    "the caller respects object lifetimes (constructors on fresh storage, members on live objects, no use of an iterator whose node was destroyed) - generator and driver enforce it",
    "callbacks, combiners and unregister functions are pure apart from the log/counter the harness keeps and the effects set by AR/AK/AC; the theorems hold for every choice",
    "no callback lets go of the connection it is running from (Spec.loopSafe): the library reads the destroyed hook in ++it - exercised on purpose by the batch signals-self-disconnect, where the model's fault:oob must meet AddressSanitizer's heap-use-after-free in iterator::increment",
    "a moved-from fcppt::function (std::function) is empty (libstdc++): calling a moved-from signal that has connections prints nocomb",
    "std::vector destroys its elements front to back on clear() / destruction / move assignment, a moved-from vector is empty, self-move-assignment of std::optional<unique_ptr> is a no-op (libstdc++)",
]
TRUSTED = ["harness/c11.cpp (incl. the read-only friend access to prev_/next_/head_) and the line protocol (vh.hpp, Proto.lean)",
           "g++ 12 + ASan/UBSan as witness for stale links actually followed by the real code"]

MAX_LISTS_LIVE = 3
LIST_IDS = 5
MAX_ELEMS_LIVE = 8
ELEM_IDS = 12


# ------------------------------------------------------------------ abstract state of the generator (mirrors Spec/C11.lean)
class Rings:
    def __init__(self):
        self.rings = []          # lists of names, head first when present

    def nodes(self):
        return [n for r in self.rings for n in r]

    def ring_of(self, n):
        for r in self.rings:
            if n in r:
                return r
        return None

    def live(self, n):
        return self.ring_of(n) is not None

    def erase(self, n):
        for r in self.rings:
            if n in r:
                r.remove(n)
        self.rings = [r for r in self.rings if r]

    def replace(self, y, w):
        for r in self.rings:
            for i, x in enumerate(r):
                if x == y:
                    r[i] = w

    def alone(self, n):
        r = self.ring_of(n)
        return r is None or len(r) <= 1

    def lists(self):
        return sorted(int(n[1:]) for n in self.nodes() if n[0] == "h")

    def elems(self):
        return sorted(int(n[1:]) for n in self.nodes() if n[0] == "e")

    def copy(self):
        c = Rings()
        c.rings = [list(r) for r in self.rings]
        return c

    def next(self, n):
        r = self.ring_of(n)
        return r[(r.index(n) + 1) % len(r)]

    def prev(self, n):
        r = self.ring_of(n)
        return r[(r.index(n) - 1) % len(r)]

    # ---- operations, same text as the protocol
    def apply(self, op):
        t = op.split()
        o = t[0]
        a = [int(x) for x in t[1:]]
        if o in ("L", "SN", "PN", "VN", "WN"):
            self.rings.insert(0, [f"h{a[0]}"])
        elif o in ("E", "SC", "PC", "VC", "WC"):
            e, k = a[0], a[1]
            for r in self.rings:
                if r[0] == f"h{k}":
                    r.append(f"e{e}")
        elif o == "d":
            self.erase(f"e{a[0]}")
        elif o == "u":
            self.erase(f"e{a[0]}")
            self.rings.insert(0, [f"e{a[0]}"])
        elif o == "M":
            if self.alone(f"e{a[1]}"):          # unlinked source -> unlinked new element
                self.rings.insert(0, [f"e{a[0]}"])
            else:
                self.replace(f"e{a[1]}", f"e{a[0]}")
                self.rings.insert(0, [f"e{a[1]}"])
        elif o == "A":
            if a[0] != a[1]:
                self.erase(f"e{a[0]}")
                if self.alone(f"e{a[1]}"):      # source unlinked once the target has left
                    self.rings.insert(0, [f"e{a[0]}"])
                else:
                    self.replace(f"e{a[1]}", f"e{a[0]}")
                    self.rings.insert(0, [f"e{a[1]}"])
        elif o in ("LM", "SM"):
            if self.alone(f"h{a[1]}"):
                self.rings.insert(0, [f"h{a[0]}"])
            else:
                self.replace(f"h{a[1]}", f"h{a[0]}")
                self.rings.insert(0, [f"h{a[1]}"])
        elif o in ("LA", "SA"):
            if a[0] != a[1]:
                if self.alone(f"h{a[1]}"):
                    self.erase(f"h{a[0]}")
                    self.rings.insert(0, [f"h{a[0]}"])
                else:
                    self.erase(f"h{a[0]}")
                    self.replace(f"h{a[1]}", f"h{a[0]}")
                    self.rings.insert(0, [f"h{a[1]}"])
        elif o in ("LD", "SD"):
            self.erase(f"h{a[0]}")
        elif o in ("LS", "SS"):           # std::swap: temporary list / signal 7
            for step in (f"LM 7 {a[0]}", f"LA {a[0]} {a[1]}", f"LA {a[1]} 7", "LD 7"):
                self.apply(step)
        elif o == "ES":                   # temporary element 15
            for step in (f"M 15 {a[0]}", f"A {a[0]} {a[1]}", f"A {a[1]} 15", "d 15"):
                self.apply(step)


def valid_list_ops(st, list_ids=LIST_IDS, elem_ids=ELEM_IDS, max_lists=MAX_LISTS_LIVE, max_elems=MAX_ELEMS_LIVE, canonical=False, swaps=True):
    """all valid operations in state st, grouped by kind. canonical: fresh ids are the smallest free id."""
    ls, es = st.lists(), st.elems()
    free_l = [k for k in range(list_ids) if k not in ls]
    free_e = [e for e in range(elem_ids) if e not in es]
    if canonical:
        free_l, free_e = free_l[:1], free_e[:1]
    ops = {}
    if len(ls) < max_lists:
        ops["L"] = [f"L {k}" for k in free_l]
        ops["LM"] = [f"LM {k2} {k}" for k2 in free_l for k in ls]
    if len(es) < max_elems:
        ops["E"] = [f"E {e} {k}" for e in free_e for k in ls]
        ops["M"] = [f"M {e2} {e}" for e2 in free_e for e in es]       # unlinked / moved-from sources included
    ops["d"] = [f"d {e}" for e in es]
    ops["u"] = [f"u {e}" for e in es]
    ops["A"] = [f"A {a} {b}" for a in es for b in es]
    ops["LA"] = [f"LA {k} {k2}" for k in ls for k2 in ls]
    ops["LD"] = [f"LD {k}" for k in ls]
    if swaps:
        ops["LS"] = [f"LS {k} {k2}" for k in ls for k2 in ls if k <= k2]
        ops["ES"] = [f"ES {a} {b}" for a in es for b in es if a <= b]
    return {k: v for k, v in ops.items() if v}


LIST_WEIGHTS = {"L": 3, "E": 10, "d": 5, "u": 3, "M": 5, "A": 6, "LM": 3, "LA": 5, "LD": 2, "LS": 2, "ES": 3}


def gen_list_history(rng, length):
    st = Rings()
    ops = []
    # start: one or two lists
    while len(ops) < length:
        cand = valid_list_ops(st)
        if not cand:
            break
        kinds = sorted(cand)
        w = [LIST_WEIGHTS[k] for k in kinds]
        if not st.lists():
            kinds, w = ["L"], [1]
        x = rng.below(sum(w))
        for k, wk in zip(kinds, w):
            if x < wk:
                break
            x -= wk
        op = rng.choice(cand[k])
        # self move-assignment is legal and rare
        if k in ("A", "LA", "LS", "ES"):
            t = op.split()
            if t[1] == t[2] and not rng.chance(1, 4):
                continue
        ops.append(op)
        st.apply(op)
    return ops


SIG_WEIGHTS = {"N": 3, "C": 12, "X": 5, "SM": 3, "SA": 5, "SD": 2, "SS": 2, "call": 4,
               "HA": 3, "HW": 2, "KP": 4, "KO": 2, "KE": 3, "KC": 2, "KA": 2, "ACT": 5, "rcall": 6}
FAMS = "SPVW"            # S int/unregister, P int/plain, V void/unregister, W void/plain
N_CONTS = 3


class SigState:
    """generator-side mirror of the driver's signal state: rings + families + owners of connections"""

    def __init__(self):
        self.st = Rings()
        self.fam = {}                               # signal id -> "S" | "P" | "V" | "W"
        self.own = {}                               # owner (holder h = h, container c = 16 + c) -> [connection ids]
        self.nextf = 1
        self.cb = {}                                # connection id -> callback id
        self.acts = {}                              # callback id -> ("R", owner) | ("C", h, s, f2, u)
        self.comb = {}                              # signal id -> combiner present (False: moved-from)

    def copy(self):
        c = SigState()
        c.st = self.st.copy()
        c.fam = dict(self.fam)
        c.own = {k: list(v) for k, v in self.own.items() if v}
        c.nextf = self.nextf
        c.cb = dict(self.cb)
        c.acts = dict(self.acts)
        c.comb = dict(self.comb)
        return c

    def sim_rcall(self, k, apply=False):
        """mirror of the call loop with effectful callbacks. Returns False if the call would be undefined behaviour (a callback
        lets go of its own connection), would call a moved-from combiner or would not end within 40 steps"""
        g = self if apply else self.copy()
        h = f"h{k}"
        cur = g.st.next(h)
        if cur != h and g.fam[k] in "SP" and not g.comb.get(k, False):
            return False
        steps = 0
        while cur != h:
            steps += 1
            if steps > 40:
                return False
            x = int(cur[1:])
            a = g.acts.get(g.cb[x])
            if a and a[0] == "R":
                if x in g.o(a[1]):
                    return False
                g.kill(g.o(a[1]))
                g.own[a[1]] = []
            elif a and a[0] == "C":
                _, hh, s2, f2, u = a
                if not g.o(hh) and hh not in g.conns() and s2 in g.fam:
                    g.st.apply(f"E {hh} {s2}")
                    g.own[hh] = [hh]
                    g.cb[hh] = f2
            cur = g.st.next(cur)
        return True

    def o(self, k):
        return self.own.get(k, [])

    def conns(self):
        return sorted(x for v in self.own.values() for x in v)

    def connect_op(self, x, k, u=None):
        f = self.nextf
        fm = self.fam[k]
        if fm in "SV":
            return f"{fm}C {x} {k} {f} {x % 7 if u is None else u}"
        return f"{fm}C {x} {k} {f}"

    def kill(self, xs):
        for x in xs:
            self.st.erase(f"e{x}")

    def apply(self, op):
        t = op.split()
        o = t[0]
        a = [int(x) for x in t[1:]]
        if o in ("call", "vcall"):
            return
        if o in ("rcall", "rvcall"):
            assert self.sim_rcall(a[0], apply=True), op
        elif o == "AN":
            self.acts.pop(a[0], None)
        elif o == "AR":
            self.acts[a[0]] = ("R", a[1])
        elif o == "AK":
            self.acts[a[0]] = ("R", 16 + a[1])
        elif o == "AC":
            self.acts[a[0]] = ("C", a[1], a[2], a[3], a[4])
        elif o[1] == "N" and o[0] in FAMS:
            self.fam[a[0]] = o[0]
            self.comb[a[0]] = True
            self.st.apply(op)
        elif o[1] == "C" and o[0] in FAMS:
            self.st.apply(op)
            self.own[a[0]] = self.o(a[0]) + [a[0]]
            self.cb[a[0]] = a[2]
            self.nextf = self.nextf % 97 + 1
        elif o == "SM":
            self.fam[a[0]] = self.fam[a[1]]
            self.comb[a[0]] = self.comb[a[1]]
            self.comb[a[1]] = False
            self.st.apply(op)
        elif o == "SS":
            self.st.apply(op)
            self.comb[a[0]], self.comb[a[1]] = self.comb[a[1]], self.comb[a[0]]
        elif o in ("SA", "SD"):
            self.st.apply(op)
            if o == "SA" and a[0] != a[1]:
                self.comb[a[0]] = self.comb[a[1]]
                self.comb[a[1]] = False
            if o == "SD":
                del self.fam[a[0]]
                del self.comb[a[0]]
        elif o == "SX":
            self.kill(self.o(a[0]))
            self.own[a[0]] = []
        elif o == "HA":
            if a[0] != a[1]:
                self.kill(self.o(a[0]))
                self.own[a[0]] = self.o(a[1])
                self.own[a[1]] = []
        elif o == "HW":
            self.own[a[0]], self.own[a[1]] = self.o(a[1]), self.o(a[0])
        elif o == "KP":
            self.own[16 + a[0]] = self.o(16 + a[0]) + self.o(a[1])
            self.own[a[1]] = []
        elif o == "KO":
            c = self.o(16 + a[0])
            self.own[a[1]] = [c[-1]]
            self.own[16 + a[0]] = c[:-1]
        elif o == "KE":
            c = self.o(16 + a[0])
            self.kill([c[a[1]]])
            self.own[16 + a[0]] = c[:a[1]] + c[a[1] + 1:]
        elif o == "KC":
            self.kill(self.o(16 + a[0]))
            self.own[16 + a[0]] = []
        elif o == "KA":
            self.kill(self.o(16 + a[0]))
            self.own[16 + a[0]] = self.o(16 + a[1])
            self.own[16 + a[1]] = []
        else:
            raise ValueError(op)

    def valid_ops(self, sig_ids=LIST_IDS, conn_ids=ELEM_IDS, max_sigs=MAX_LISTS_LIVE, max_conns=MAX_ELEMS_LIVE,
                  n_conts=N_CONTS, canonical=False, fams=FAMS, rng=None, swaps=True):
        """all valid operation lines in this state, grouped by kind"""
        ls = self.st.lists()
        used = self.conns()
        free_l = [k for k in range(sig_ids) if k not in ls]
        free_h = [h for h in range(conn_ids) if not self.o(h) and h not in used]   # holder free and id unused
        empty_h = [h for h in range(conn_ids) if not self.o(h)]
        full_h = [h for h in range(conn_ids) if self.o(h)]
        if canonical:
            free_l, free_h, empty_h = free_l[:1], free_h[:1], empty_h[:1]
        cand = {}
        rb = (lambda n: rng.below(n)) if rng else (lambda n: 0)
        if len(ls) < max_sigs:
            cand["N"] = [(f"{f}N {k} {(rb(8) if rng else k + 1)}" if f in "SP" else f"{f}N {k}") for k in free_l for f in fams]
            cand["SM"] = [f"SM {k2} {k}" for k2 in free_l for k in ls]
        if len(used) < max_conns and ls:
            cand["C"] = [self.connect_op(h, k, rb(6) if rng else None) for h in free_h for k in ls]
        cand["X"] = [f"SX {h}" for h in full_h]
        cand["SA"] = [f"SA {k} {k2}" for k in ls for k2 in ls if self.fam[k] == self.fam[k2]]
        cand["SD"] = [f"SD {k}" for k in ls]
        if swaps:
            cand["SS"] = [f"SS {k} {k2}" for k in ls for k2 in ls if k <= k2 and self.fam[k] == self.fam[k2]]
        cand["call"] = [(f"call {k} {rb(50)} {rb(50)}" if self.fam[k] in "SP" else f"vcall {k} {rb(50)}") for k in ls]
        cand["HA"] = [f"HA {a} {b}" for b in full_h for a in (full_h + empty_h)]          # a == b: self-move-assignment
        cand["HW"] = [f"HW {a} {b}" for a in full_h for b in (full_h + empty_h)]          # a == b: self-swap
        cand["KP"] = [f"KP {c} {h}" for c in range(n_conts) for h in full_h]
        cand["KO"] = [f"KO {c} {h}" for c in range(n_conts) if self.o(16 + c) for h in empty_h]
        cand["KE"] = [f"KE {c} {i}" for c in range(n_conts) for i in range(len(self.o(16 + c)))]
        cand["KC"] = [f"KC {c}" for c in range(n_conts) if self.o(16 + c)]
        cand["KA"] = [f"KA {c} {c2}" for c in range(n_conts) for c2 in range(n_conts) if c != c2 and (self.o(16 + c) or self.o(16 + c2))]
        if rng and used:
            fs = sorted(set(self.cb[x] for x in used))
            f = rng.choice(fs)
            k = rng.below(4)
            if k == 0:
                cand["ACT"] = [f"AR {f} {rng.below(conn_ids)}"]
            elif k == 1:
                cand["ACT"] = [f"AK {f} {rng.below(n_conts)}"]
            elif k == 2:
                cand["ACT"] = [f"AC {f} {rng.below(conn_ids)} {rng.choice(ls) if ls and rng.chance(3, 4) else rng.below(sig_ids)} {60 + rng.below(37)} {rng.below(6)}"]
            else:
                cand["ACT"] = [f"AN {f}"]
            rc = [(f"rcall {k} {rng.below(50)} {rng.below(50)}" if self.fam[k] in "SP" else f"rvcall {k} {rng.below(50)}")
                  for k in ls if self.sim_rcall(k)]
            if rc:
                cand["rcall"] = rc
        return {k: v for k, v in cand.items() if v}


def gen_sig_history(rng, length):
    g = SigState()
    ops = []
    while len(ops) < length:
        cand = g.valid_ops(rng=rng)
        if not g.st.lists():
            cand = {"N": cand["N"]}
        kinds = sorted(cand)
        w = [SIG_WEIGHTS[k] for k in kinds]
        x = rng.below(sum(w))
        for k, wk in zip(kinds, w):
            if x < wk:
                break
            x -= wk
        op = rng.choice(cand[k])
        t = op.split()
        if k == "SA" and t[1] == t[2] and not rng.chance(1, 4):
            continue
        ops.append(op)
        g.apply(op)
    return ops


def sig_scenarios():
    """start states for the exhaustive signal batch"""
    return [
        ["SN 0 1"],
        ["SN 0 1", "SC 0 0 1 0", "SC 1 0 2 1"],
        ["SN 0 1", "SC 0 0 1 0", "SC 1 0 2 1", "SN 1 2", "SC 2 1 3 2"],
        ["PN 0 1", "PC 0 0 1", "PC 1 0 2", "PN 1 2"],
        ["VN 0", "VC 0 0 1 0", "VC 1 0 2 1", "VN 1", "VC 2 1 3 2"],
        ["WN 0", "WC 0 0 1", "WC 1 0 2"],
        ["SN 0 1", "SC 0 0 1 0", "SC 1 0 2 1", "SC 2 0 3 2", "KP 0 0", "KP 0 2"],       # container [c0, c2], holder 1
        ["SN 0 1", "SC 0 0 1 0", "SC 1 0 2 1", "SM 1 0", "SC 2 0 3 2"],                  # moved-from signal with a new connection
        ["VN 0", "VC 0 0 1 0", "VC 1 0 2 1", "VC 2 0 3 2", "KP 0 2", "KP 0 1", "KP 1 0"],  # container order != connection order
    ]


def enum_sig_swap_small():
    """std::swap of every pair of signals of one kind (a signal with itself included) after <= 1 operation from each scenario, then one more operation"""
    out = []
    for pre in sig_scenarios():
        g0 = SigState()
        for o in pre:
            g0.apply(o)
        fams = "".join(sorted(set(g0.fam.values())))
        kw = dict(sig_ids=3, conn_ids=5, max_sigs=3, max_conns=4, n_conts=2, canonical=True, fams=fams)

        def ops_of(g, swaps):
            c = g.valid_ops(swaps=swaps, **kw)
            return [op for k in sorted(c) if k != "call" for op in c[k]]

        for f in [[]] + [[op] for op in ops_of(g0, False)]:
            g1 = g0.copy()
            for o in f:
                g1.apply(o)
            for sw in g1.valid_ops(**kw).get("SS", []):
                g2 = g1.copy()
                g2.apply(sw)
                for o2 in ops_of(g2, False):
                    out.append(pre + f + [sw, o2])
    return out


def enum_sig_small(depth, only=None, swaps=False):
    out = []
    for idx, pre in enumerate(sig_scenarios()):
        if only is not None and idx not in only:
            continue
        g0 = SigState()
        for o in pre:
            g0.apply(o)
        fams = "".join(sorted(set(g0.fam.values())))

        def rec(g, seq, d):
            if seq:
                out.append(pre + seq)
            if d == 0:
                return
            cand = g.valid_ops(sig_ids=3, conn_ids=5, max_sigs=3, max_conns=4, n_conts=2, canonical=True, fams=fams, swaps=swaps)
            for k in sorted(cand):
                if k == "call":
                    continue            # the dump of every line calls every signal
                for op in cand[k]:
                    g2 = g.copy()
                    g2.apply(op)
                    rec(g2, seq + [op], d - 1)

        rec(g0, [], depth)
    return out


def enum_self_disconnect():
    """the one thing a callback may not do: let go of the connection it is running from.  The library reads the destroyed hook in
    `++it` (AddressSanitizer: heap-use-after-free in iterator::increment), the model faults at the same read (`fault:oob`).  One
    history per instantiation and per kind of owner; the call is the last line of its history (the harness process dies there)."""
    out = []
    for fm in FAMS:
        u = fm in "SV"
        new = f"{fm}N 0 1" if fm in "SP" else f"{fm}N 0"
        c0 = f"{fm}C 0 0 1 0" if u else f"{fm}C 0 0 1"
        c1 = f"{fm}C 1 0 2 1" if u else f"{fm}C 1 0 2"
        call = "rcall 0 1 2" if fm in "SP" else "rvcall 0 2"
        out.append([new, c0, c1, "AR 1 0", call])                 # first connection, held by a holder
        out.append([new, c0, c1, "KP 0 1", "AK 2 0", call])       # last connection, held by a container
    return out


def enum_reentrant():
    """a signal with three connections (two held by holders, one by a container) and a second signal of the same kind with one;
    every pair of (callback, effect) x (callback, effect) where an effect is: let go of any owner, connect into a free or a taken
    holder to either signal; then the call twice.  Calls that would be undefined behaviour (a callback letting go of its own
    connection) are left out."""
    out = []
    for fm in FAMS:
        u = fm in "SV"

        def conn(x, k, f):
            return f"{fm}C {x} {k} {f} {x}" if u else f"{fm}C {x} {k} {f}"

        def new(k):
            return f"{fm}N {k} {k + 1}" if fm in "SP" else f"{fm}N {k}"

        pre = [new(0), conn(0, 0, 1), conn(1, 0, 2), conn(2, 0, 3), new(1), conn(3, 1, 4), "KP 0 1"]
        effects = [f"AR {{f}} {h}" for h in (0, 2, 3, 5)] + ["AK {f} 0", "AK {f} 1"] + \
                  [f"AC {{f}} {h} {k} {f2} 7" for h, f2 in ((4, 5), (0, 6)) for k in (0, 1, 2)]
        call = "rcall 0 1 2" if fm in "SP" else "rvcall 0 2"
        singles = [[e.format(f=f)] for f in (1, 2, 3, 5) for e in effects]
        pairs = [a + b for a in singles for b in singles if a[0].split()[1] < b[0].split()[1]]
        for acts in [[]] + singles + pairs:
            h = pre + acts
            g = SigState()
            for o in h:
                g.apply(o)
            if not g.sim_rcall(0):
                continue
            g.apply(call)
            h = h + [call]
            if g.sim_rcall(0):
                h = h + [call]
            out.append(h)
    return out


# ------------------------------------------------------------------ iterator objects
class ItState:
    """rings + iterator slots (slot -> node name | "null")"""

    def __init__(self, st):
        self.st = st
        self.slots = {}

    def apply(self, op):
        t = op.split()
        o = t[0]
        if o in ("IB", "CB"):
            self.slots[int(t[1])] = self.st.next(f"h{t[2]}")
        elif o in ("IE", "CE"):
            self.slots[int(t[1])] = f"h{t[2]}"
        elif o in ("IP", "CP"):
            self.slots[int(t[1])] = f"e{t[2]}"
        elif o in ("IN", "CN"):
            self.slots[int(t[1])] = "null"
        elif o == "IC":
            self.slots[int(t[1])] = self.slots[int(t[2])]
        elif o == "IX":
            del self.slots[int(t[1])]
        elif o in ("I+", "Ip"):
            self.slots[int(t[1])] = self.st.next(self.slots[int(t[1])])
        elif o in ("I-", "Im"):
            self.slots[int(t[1])] = self.st.prev(self.slots[int(t[1])])
        elif o == "IS":
            i, j = int(t[1]), int(t[2])
            self.slots[i], self.slots[j] = self.slots[j], self.slots[i]
        elif o in ("I=", "I*"):
            pass
        else:
            self.st.apply(op)
            if o == "d":
                self.slots = {i: n for i, n in self.slots.items() if n != f"e{t[1]}"}
            if o == "LD":
                self.slots = {i: n for i, n in self.slots.items() if n != f"h{t[1]}"}


def iter_setup(st):
    """iterators at every kind of position of the start state: begin/end of the first and last list (const and not),
    the first and the last element by pointer, a default-constructed one"""
    ls, es = st.lists(), st.elems()
    ops = []
    if ls:
        ops += [f"IB 0 {ls[0]}", f"IE 1 {ls[0]}", f"CB 2 {ls[-1]}", f"CE 3 {ls[-1]}"]
    if es:
        ops += [f"IP 4 {es[0]}", f"CP 5 {es[-1]}"]
    ops.append("IN 6")
    return ops


CONST_SLOTS = (2, 3, 5)


def iter_probes(g):
    """every iterator operation on every surviving slot (through the scratch slot 7), every comparable pair"""
    ops = []
    for i in sorted(g.slots):
        n = g.slots[i]
        if n == "null":
            continue
        for o in ("I+", "I-", "Ip", "Im"):
            ops += [f"IC 7 {i}", f"{o} 7", f"{o} 7"]
        if n[0] == "e":
            ops.append(f"I* {i}")
    ss = sorted(g.slots)
    for i in ss:
        for j in ss:
            if (i in CONST_SLOTS) == (j in CONST_SLOTS) and i <= j:
                ops.append(f"I= {i} {j}")
    # swap every comparable pair (and every slot with itself), and back
    for i in ss:
        for j in ss:
            if (i in CONST_SLOTS) == (j in CONST_SLOTS) and i <= j:
                ops += [f"IS {i} {j}", f"IS {j} {i}"]
    if 7 in g.slots or any(n != "null" for n in g.slots.values()):
        ops.append("IX 7")
    return ops


def enum_iter_small(depth):
    """scenario; iterators at every position; every valid sequence of <= depth list operations; all probes"""
    out = []
    for pre in scenarios():
        st0 = Rings()
        for o in pre:
            st0.apply(o)
        setup = iter_setup(st0)

        def rec(st, seq, d):
            g = ItState(st0.copy())
            for o in setup + seq:
                g.apply(o)
            out.append(pre + setup + seq + iter_probes(g))
            if d == 0:
                return
            cand = valid_list_ops(st, list_ids=4, elem_ids=6, max_lists=3, max_elems=4, canonical=True)
            for k in sorted(cand):
                for op in cand[k]:
                    st2 = st.copy()
                    st2.apply(op)
                    rec(st2, seq + [op], d - 1)

        rec(st0, [], depth)
    return out


ITER_KINDS = ["IB", "IE", "CB", "CE", "IP", "CP", "IN", "CN", "IC", "IX", "I+", "I-", "Ip", "Im", "I=", "I*", "IS"]


def gen_iter_history(rng, length):
    """random list history with iterator operations interleaved (iterators kept across mutations)"""
    g = ItState(Rings())
    const = {}
    ops = []
    while len(ops) < length:
        st = g.st
        if not st.lists() or not rng.chance(3, 5):
            cand = valid_list_ops(st)
            kinds = sorted(cand)
            w = [LIST_WEIGHTS[k] for k in kinds]
            if not st.lists():
                kinds, w = ["L"], [1]
            x = rng.below(sum(w))
            for k, wk in zip(kinds, w):
                if x < wk:
                    break
                x -= wk
            op = rng.choice(cand[k])
        else:
            k = rng.choice(ITER_KINDS)
            i = rng.below(8)
            live = sorted(g.slots)
            pos = [j for j in live if g.slots[j] != "null"]
            if k in ("IB", "IE", "CB", "CE"):
                op = f"{k} {i} {rng.choice(st.lists())}"
            elif k in ("IP", "CP"):
                if not st.elems():
                    continue
                op = f"{k} {i} {rng.choice(st.elems())}"
            elif k in ("IN", "CN"):
                if not rng.chance(1, 4):
                    continue
                op = f"{k} {i}"
            elif k == "IC":
                if not live:
                    continue
                op = f"IC {i} {rng.choice(live)}"
            elif k == "IX":
                if not live or not rng.chance(1, 3):
                    continue
                op = f"IX {rng.choice(live)}"
            elif k in ("I+", "I-", "Ip", "Im"):
                if not pos:
                    continue
                op = f"{k} {rng.choice(pos)}"
            elif k in ("I=", "IS"):
                pairs = [(a, b) for a in live for b in live if const[a] == const[b]]
                if not pairs:
                    continue
                a, b = rng.choice(pairs)
                op = f"{k} {a} {b}"
            else:
                de = [j for j in pos if g.slots[j][0] == "e"]
                if not de:
                    continue
                op = f"I* {rng.choice(de)}"
            t = op.split()
            if t[0] in ("IB", "IE", "IP", "IN"):
                const[int(t[1])] = False
            elif t[0] in ("CB", "CE", "CP", "CN"):
                const[int(t[1])] = True
            elif t[0] == "IC":
                const[int(t[1])] = const[int(t[2])]
        ops.append(op)
        g.apply(op)
    return ops


# ------------------------------------------------------------------ exhaustive small scope
def scenarios():
    """start states reached by fixed prefixes: empty/non-empty lists, an orphan ring, unlinked elements"""
    return [
        ["L 0"],
        ["L 0", "E 0 0"],
        ["L 0", "E 0 0", "E 1 0"],
        ["L 0", "L 1", "E 0 0", "E 1 1"],
        ["L 0", "L 1", "E 0 0", "E 1 0", "E 2 1"],
        ["L 0", "E 0 0", "E 1 0", "LD 0"],                 # orphan ring of two, no list
        ["L 0", "L 1", "E 0 0", "E 1 0", "LA 0 1"],        # orphan ring + two empty lists
        ["L 0", "L 1", "E 0 0", "E 1 1", "E 2 1", "u 0"],  # an unlinked element
        ["L 0", "E 0 0", "E 1 0", "E 2 0", "LM 1 0"],      # moved-from list
    ]


def enum_small(depth, max_lists=3, max_elems=4, only=None, swaps=False):
    out = []
    for idx, pre in enumerate(scenarios()):
        if only is not None and idx not in only:
            continue
        st0 = Rings()
        for o in pre:
            st0.apply(o)

        def rec(st, seq, d):
            if seq:
                out.append(pre + seq)
            if d == 0:
                return
            cand = valid_list_ops(st, list_ids=4, elem_ids=6, max_lists=max_lists, max_elems=max_elems, canonical=True, swaps=swaps)
            for k in sorted(cand):
                for op in cand[k]:
                    st2 = st.copy()
                    st2.apply(op)
                    rec(st2, seq + [op], d - 1)

        rec(st0, [], depth)
    return out


def enum_swap_small():
    """std::swap of every pair of lists and of every pair of elements (a list / an element with itself included) in every state
    reached by <= 1 operation from each start scenario, followed by every single operation"""
    out = []
    kw = dict(list_ids=4, elem_ids=6, max_lists=3, max_elems=4, canonical=True)
    for pre in scenarios():
        st0 = Rings()
        for o in pre:
            st0.apply(o)
        firsts = [[]] + [[op] for k, v in sorted(valid_list_ops(st0, swaps=False, **kw).items()) for op in v]
        for f in firsts:
            st1 = st0.copy()
            for o in f:
                st1.apply(o)
            c = valid_list_ops(st1, **kw)
            for sw in c.get("LS", []) + c.get("ES", []):
                st2 = st1.copy()
                st2.apply(sw)
                nxt = [op for k, v in sorted(valid_list_ops(st2, swaps=False, **kw).items()) for op in v]
                for o2 in nxt:
                    out.append(pre + f + [sw, o2])
    return out


SIG_DEEP = [0, 1, 3, 5, 6, 8]
DEEP_SCENARIOS = [0, 1, 2, 3, 5, 6]     # depth 4 in the thorough tier (the others would be > 4M lines each)


def maximal_only(hists):
    """drop histories that are a proper prefix of another one (their lines are checked there too)"""
    s = set(tuple(h) for h in hists)
    pref = set()
    for h in s:
        for i in range(1, len(h)):
            pref.add(h[:i])
    return [list(h) for h in sorted(s) if h not in pref]


def flat(hists):
    ops = []
    for h in hists:
        ops.append("reset")
        ops += h
    return ops


def batches(rng, tier):
    thorough = tier == "thorough"
    depth = 3
    small = maximal_only(enum_small(depth, swaps=thorough))
    yield Batch("lists-small-scope", flat(small), kind="history", exhaustive=True,
                note=f"every valid sequence of <= {depth} operations (canonical fresh ids) after each of {len(scenarios())} start scenarios; {len(small)} maximal histories")
    sw = enum_swap_small()
    yield Batch("lists-swap-small-scope", flat(sw), kind="history", exhaustive=True,
                note=f"std::swap of every pair of lists / of elements (self-swap included) in every state <= 1 operation away from a start scenario, "
                     f"followed by every single operation; {len(sw)} histories")
    if thorough:
        for idx in DEEP_SCENARIOS:
            deep = maximal_only(enum_small(4, only=[idx]))
            yield Batch(f"lists-small-scope-depth4-s{idx}", flat(deep), kind="history", exhaustive=True,
                        note=f"every valid sequence of <= 4 operations after start scenario {idx} ({' ; '.join(scenarios()[idx])}); {len(deep)} maximal histories")
    r = rng.fork("lists")
    n, ln = (15000, 50) if thorough else (2000, 30)
    hs = [gen_list_history(r, r.range(ln // 2, ln)) for _ in range(n)]
    yield Batch("lists-random", flat(hs), kind="history", note=f"{n} random histories of length {ln // 2}..{ln}; kinds weighted {LIST_WEIGHTS}")
    idepth = 2
    its = enum_iter_small(idepth)
    yield Batch("iterators-small-scope", flat(its), kind="history", exhaustive=True,
                note=f"after each of {len(scenarios())} start scenarios: iterators at every kind of position (begin/end, const/non-const, by element "
                     f"pointer, default), then every valid sequence of <= {idepth} list operations, then ++ -- it++ it-- * -> == != on every surviving "
                     f"iterator; {len(its)} histories")
    r = rng.fork("iterators")
    n, ln = (6000, 60) if thorough else (800, 40)
    hs = [gen_iter_history(r, r.range(ln // 2, ln)) for _ in range(n)]
    yield Batch("iterators-random", flat(hs), kind="history",
                note=f"{n} random list histories of length {ln // 2}..{ln} with iterator operations interleaved (iterators kept across mutations)")
    sdepth = 3
    ssmall = maximal_only(enum_sig_small(sdepth, swaps=thorough))
    yield Batch("signals-small-scope", flat(ssmall), kind="history", exhaustive=True,
                note=f"every valid sequence of <= {sdepth} signal / owner operations (canonical fresh ids) after each of {len(sig_scenarios())} start scenarios "
                     f"(all four instantiations); {len(ssmall)} maximal histories")
    ssw = enum_sig_swap_small()
    yield Batch("signals-swap-small-scope", flat(ssw), kind="history", exhaustive=True,
                note=f"std::swap of every pair of signals of one kind (self-swap included) in every state <= 1 operation away from a signal scenario, "
                     f"followed by every single operation; {len(ssw)} histories")
    if thorough:
        for idx in SIG_DEEP:
            deep = maximal_only(enum_sig_small(4, only=[idx]))
            yield Batch(f"signals-small-scope-depth4-s{idx}", flat(deep), kind="history", exhaustive=True,
                        note=f"every valid sequence of <= 4 operations after signal scenario {idx}; {len(deep)} maximal histories")
    re = enum_reentrant()
    yield Batch("signals-reentrant", flat(re), kind="history", exhaustive=True,
                note=f"calls whose callbacks let go of connections / connect new ones while the signal is being called: every single effect and every "
                     f"pair of effects on a signal with three connections, all four instantiations; {len(re)} histories")
    sd = enum_self_disconnect()
    yield Batch("signals-self-disconnect", flat(sd), kind="history", exhaustive=True,
                note=f"a callback that lets go of its own connection (undefined behaviour of the caller): the harness dies with heap-use-after-free in "
                     f"iterator::increment exactly where the model faults; {len(sd)} histories, each ends in a deliberate sanitizer death")
    r = rng.fork("signals")
    n, ln = (10000, 50) if thorough else (1500, 30)
    hs = [gen_sig_history(r, r.range(ln // 2, ln)) for _ in range(n)]
    yield Batch("signals-random", flat(hs), kind="history",
                note=f"{n} random histories of length {ln // 2}..{ln}; kinds weighted {SIG_WEIGHTS}; int(int) and void(int) signals over signal::base and "
                     f"unregister::base; connections held by optional_auto_connection and auto_connection_container")


def equivalent(op, impl, model):
    """the driver appends the verdict of the spec judge; it must not be BAD and the rest must be identical"""
    core, sep, verdict = model.partition(" #spec=")
    if model == "fault:oob" and op.split()[0] in ("rcall", "rvcall"):
        # a callback let go of its own connection: the real loop reads the destroyed hook in ++it
        return impl.startswith("CRASH(") and "heap-use-after-free" in impl and "iterator" in impl and "increment" in impl
    return core == impl and verdict != "BAD"


def nontrivial(op, model_line):
    if op == "reset":
        return False
    return ("=e" in model_line) or any(ch.isdigit() for seg in model_line.split(" S")[1:] for ch in seg.split(":")[0].split("=")[-1])


MANIFEST = {
    "level_text": ("Machine-checked proof (Lean 4) over an executable pointer-store model that mirrors every special member of "
                   "intrusive::base and intrusive::list pointer write by pointer write: for every history of valid operations the "
                   "store is the pointer image of a partition of the live nodes into rings (representation relation), hence every "
                   "live node's links are live and mutually inverse, no operation touches a dead node, and forward/backward "
                   "iteration of a list yields exactly the abstract member list, and each operation changes the member lists of all "
                   "lists as the prose says (11 equations); iterator objects: ++/-- mutually inverse on every live node, begin()+i = i-th member, "
                   "== is equality of positions, an iterator kept across a history stays usable while its node lives; signal call (int and "
                   "void specialisation) = callbacks of the live connections in connection order, left fold of the combiner, unregister "
                   "exactly once; a connection is alive iff exactly one owner slot (optional_auto_connection / container) holds it, over "
                   "all owner histories; a call whose callbacks let go of connections or connect new ones never touches a destroyed "
                   "connection unless a callback lets go of its own. Tied to the code by a differential "
                   "correspondence on operation histories (ASan/UBSan harness, raw prev_/next_ compared after every step)."),
    "level_note": ("Trusted: Lean kernel + propext/Classical.choice/Quot.sound; fidelity of the hand-written model outside the "
                   "exercised histories; harness and line protocol. No sorry/axiom/native_decide."),
    "technique": "Lean 4 proof (representation relation over a pointer store) + differential correspondence on histories (ASan/UBSan harness)",
    "design_ref": "DESIGN.md §5 C11, Appendix A.4",
}
