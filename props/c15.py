"""C15 — textual and binary encodings round-trip losslessly."""
from vlib.runner import Batch

ID = "C15"
LEAN_PROPS = ["FcpptProofs.Props.C15"]
HARNESS = {"src": "harness/c15.cpp", "repo_srcs": [
    "libs/core/src/endianness/reverse_mem.cpp", "libs/core/src/insert_extract_locale.cpp",
]}
TIE = "hand-written model (FcpptModel/Model/C15/*.lean) + differential correspondence against the real templates and .cpp files"
RULE = ""
ASSUMPTIONS = []
TRUSTED = ["harness/c15.cpp and the digest/line protocol (vh.hpp, Proto.lean)", "g++ 12 + ASan/UBSan as witness for memory safety of the instantiations"]

INT_TYPES = {"u8": (8, False), "i8": (8, True), "u16": (16, False), "i16": (16, True),
             "u32": (32, False), "i32": (32, True), "u64": (64, False), "i64": (64, True)}
FLT_TYPES = {"f32": 32, "f64": 64}


def trange(ty):
    if ty in FLT_TYPES:
        return 0, (1 << FLT_TYPES[ty]) - 1
    b, s = INT_TYPES[ty]
    return (-(1 << (b - 1)), (1 << (b - 1)) - 1) if s else (0, (1 << b) - 1)


def lattice(ty):
    lo, hi = trange(ty)
    bits = FLT_TYPES.get(ty) or INT_TYPES[ty][0]
    vals = {lo, hi, 0, 1, -1, 2, -2, lo + 1, hi - 1}
    for k in range(bits + 1):
        for d in (-1, 0, 1):
            vals.add((1 << k) + d)
            vals.add(-(1 << k) + d)
    # byte patterns that make a swapped/unswapped or dropped byte visible
    pat = 0
    for i in range(bits // 8):
        pat = (pat << 8) | (i + 1)
    vals.update([pat, pat ^ ((1 << bits) - 1), 0x80, 0xFF, 0xFF00, 0x8000, 0x00FF00FF, 0x0123456789ABCDEF & ((1 << bits) - 1)])
    if ty in FLT_TYPES:
        if bits == 32:
            vals.update([0x7F800000, 0xFF800000, 0x7FC00000, 0x7FA00000, 0x7F800001, 0xFFC00001, 0x80000000, 0x3F800000, 0x00000001, 0x007FFFFF, 0x00800000, 0x7F7FFFFF])
        else:
            vals.update([0x7FF0000000000000, 0xFFF0000000000000, 0x7FF8000000000000, 0x7FF4000000000000, 0x7FF0000000000001, 0xFFF8000000000001,
                         0x8000000000000000, 0x3FF0000000000000, 1, 0x000FFFFFFFFFFFFF, 0x0010000000000000, 0x7FEFFFFFFFFFFFFF])
    return sorted(v for v in vals if lo <= v <= hi)


def rand_val(r, ty):
    lo, hi = trange(ty)
    k = r.below(4)
    if k == 0:
        return r.range(lo, hi)
    if k == 1:  # few significant bits
        b = r.range(1, (FLT_TYPES.get(ty) or INT_TYPES[ty][0]))
        v = r.below(1 << b)
        if lo < 0 and r.chance(1, 2):
            v = -v
        return min(max(v, lo), hi)
    if k == 2:
        return r.choice(lattice(ty))
    v = r.range(lo, hi)
    return min(max(v ^ (0xFF << (8 * r.below(8))), lo), hi) if v >= 0 else v


def hexs(bs):
    return "".join("%02x" % b for b in bs) if bs else "-"


def hx(text):
    """text: str or bytes -> hex token"""
    if isinstance(text, str):
        text = text.encode("latin-1")
    return text.hex() if text else "-"


def all_strings(alpha, maxlen):
    out = [""]
    layer = [""]
    for _ in range(maxlen):
        layer = [w + c for w in layer for c in alpha]
        out += layer
    return out


NUM_DESTS = ["u16", "i16", "u32", "i32", "u64", "i64"]
CHAR_DESTS = ["c8", "u8", "i8"]
ENUMS = {1: ["test1", "test2", "test3"], 2: ["foo", "bar", "baz", "fo", "foobar"], 3: ["a", "b", "a"], 4: ["only"]}
VEC_TYPES = ["i32", "i64", "u16", "u32"]


def num_texts(r, ty, count):
    """texts around the accept/reject boundaries of num_get for destination ty"""
    lo, hi = trange(ty)
    bits = INT_TYPES[ty][0]
    out = []
    interesting = [lo, hi, lo - 1, hi + 1, -hi, -hi - 1, -hi - 2, 0, 1, -1, 10 * hi, hi // 10, hi // 10 + 1, (1 << bits) - 1, 1 << bits,
                   -(1 << bits), -(1 << bits) + 1, (1 << 63) - 1, 1 << 63, (1 << 63) + 1, -(1 << 63), -(1 << 63) - 1, (1 << 64) - 1, 1 << 64,
                   -(1 << 64) + 1, -(1 << 64), 10 ** 19, 10 ** 20 - 1, 10 ** 25]
    for v in interesting:
        out.append(str(v))
        if v >= 0:
            out.append("+" + str(v))
    for _ in range(count):
        v = r.choice(interesting) + r.range(-3, 3) if r.chance(1, 2) else rand_val(r, ty)
        body = str(abs(v))
        if r.chance(1, 4):
            body = "0" * r.range(1, 25) + body
        sign = "-" if v < 0 else r.choice(["", "", "+"])
        pre = r.choice(["", "", "", " ", "\t\n ", "\v\f\r", "  "])
        post = r.choice(["", "", "", "", " ", "x", ".", ",", "\n", "e1", "\x00", "-", "+"])
        if r.chance(1, 10):
            sign = r.choice(["--", "+-", "-+", "- ", "+ "])
        out.append(pre + sign + body + post)
    return out


def nontrivial(op, result):
    return result != "bad-op" and op != "native"


def weight(op):
    t = op.split()
    if t[0] == "bins" or t[0] == "rtds":
        return int(t[4])
    return 1


def refine(op):
    t = op.split()
    if t[0] == "bins":
        lo, n = int(t[3]), int(t[4])
        return [f"bin {t[1]} {t[2]} {v}" for v in range(lo, lo + n)]
    if t[0] == "rtds":
        lo, n = int(t[3]), int(t[4])
        return [f"rtd {t[1]} {t[2]} {v}" for v in range(lo, lo + n)]
    return None


def batches(rng, tier):
    thorough = tier == "thorough"
    yield Batch("native", ["native"], exhaustive=True, note="the machine's byte order is the one the model is run with")
    # all 8- and 16-bit integers, both byte orders: write, read back, read again, swap, swap twice, convert, convert twice
    ops = []
    for ty in ("u8", "i8", "u16", "i16"):
        lo, hi = trange(ty)
        step = 256 if ty in ("u8", "i8") else 2048
        for e in "LB":
            for a in range(lo, hi + 1, step):
                ops.append(f"bins {ty} {e} {a} {step}")
    yield Batch("bin-8-16-exhaustive", ops, exhaustive=True, note="every 8/16-bit integer x both std::endian values")
    # lattice + random 32/64-bit integers and float bit patterns
    r = rng.fork("bin")
    ops = []
    for ty in ("u32", "i32", "u64", "i64", "f32", "f64"):
        for e in "LB":
            for v in lattice(ty):
                ops.append(f"bin {ty} {e} {v}")
            for _ in range(1500 if thorough else 250):
                ops.append(f"bin {ty} {e} {rand_val(r, ty)}")
    yield Batch("bin-32-64-lattice-random", ops, note="boundary lattice (2^k, 2^k +- 1, min/max, byte patterns, inf/nan/denormal bit patterns) + seeded random values")
    # several values through one stream; reads from arbitrary byte strings (short input, leftovers)
    r = rng.fork("seq")
    ops = []
    for _ in range(1200 if thorough else 200):
        ty = r.choice(list(INT_TYPES) + list(FLT_TYPES))
        n = r.range(0, 6)
        ops.append(f"seq {ty} {r.choice('LB')} " + (",".join(str(rand_val(r, ty)) for _ in range(n)) if n else "-"))
    for ty in list(INT_TYPES) + list(FLT_TYPES):
        size = (FLT_TYPES.get(ty) or INT_TYPES[ty][0]) // 8
        for e in "LB":
            for n in range(0, 2 * size + 2):
                ops.append(f"rd {ty} {e} " + hexs([r.below(256) for _ in range(n)]))
                ops.append(f"rd {ty} {e} " + hexs([0xFF] * n))
    yield Batch("bin-streams", ops, note="sequences of values through one stream; io::read on every input length 0..2*sizeof+1 (short input must give no value)")
    ops = []
    for n in range(0, 20):
        ops.append("revmem " + hexs(list(range(1, n + 1))))
        ops.append("revmem " + hexs([r.below(256) for _ in range(n)]))
    for n in (31, 32, 33, 64, 127):
        ops.append("revmem " + hexs([r.below(256) for _ in range(n)]))
    yield Batch("reverse-mem", ops, note="reverse_mem on exact-size heap buffers of every length 0..19 and some longer ones")

    # ---------------------------------------------------------------- decimal text
    ops = []
    for ty in CHAR_DESTS:
        lo = -128 if ty != "u8" else 0
        ops.append(f"rtds N {ty} {lo} 256")
    for ty in ("u16", "i16"):
        lo, hi = trange(ty)
        for w in "NW":
            for a in range(lo, hi + 1, 2048):
                ops.append(f"rtds {w} {ty} {a} 2048")
    yield Batch("text-8-16-exhaustive", ops, exhaustive=True,
                note="output_to_std_(w)string then extract_from_string for every 8-bit (character types) and 16-bit integer")
    r = rng.fork("text")
    ops = []
    for ty in ("u32", "i32", "u64", "i64"):
        for w in "NW":
            for v in lattice(ty):
                ops.append(f"rtd {w} {ty} {v}")
            for _ in range(1500 if thorough else 250):
                ops.append(f"rtd {w} {ty} {rand_val(r, ty)}")
    yield Batch("text-32-64-lattice-random", ops, note="decimal round trip on the boundary lattice and seeded random 32/64-bit integers, narrow and wide strings")
    # all short texts over a small alphabet: what extract_from_string accepts and rejects
    ops = []
    small = all_strings(" -+019x", 4 if thorough else 3)
    for ty in NUM_DESTS:
        for t_ in small:
            ops.append(f"efs N {ty} {hx(t_)}")
    for ty in CHAR_DESTS:
        for t_ in all_strings(" a\n\x80", 3):
            ops.append(f"efs N {ty} {hx(t_)}")
    yield Batch("extract-short-texts", ops, exhaustive=True,
                note="extract_from_string on every text over {space,-,+,0,1,9,x} up to length 3 (thorough: 4) for every numeric destination, and over {space,a,newline,0x80} for the character types")
    ops = []
    for ty in NUM_DESTS:
        for t_ in num_texts(r, ty, 1200 if thorough else 200):
            ops.append(f"efs {r.choice('NW')} {ty} {hx(t_)}")
    yield Batch("extract-malformed", ops, note="overflow boundaries of every destination type (max, max+1, -max-1, 2^64 ...), leading zeros, signs, whitespace before / garbage behind")
    # ---------------------------------------------------------------- enums
    ops = []
    for k, names in ENUMS.items():
        for e in range(len(names)):
            ops.append(f"enum {k} {e}")
        cands = set()
        for n in names:
            cands.update([n, n[:-1], n + "x", n.upper(), " " + n, n + " ", n[1:], n + n])
        cands.update(["", "x", "\x00"])
        for c in sorted(cands):
            ops.append(f"efrom {k} {hx(c)}")
    yield Batch("enum-all-enumerators", ops, exhaustive=True, note="to_string/from_string/stream output/input for every enumerator of the four test enums (one with a duplicated name); from_string on near misses")
    ops = []
    for _ in range(1500 if thorough else 300):
        k = r.choice(list(ENUMS))
        names = ENUMS[k]
        parts = []
        for _ in range(r.range(0, 6)):
            w = r.choice(names)
            if r.chance(1, 6):
                w = r.choice([w[:-1], w + "x", w.upper(), "", "\x00" + w, w + "\x00", "zz"])
            parts.append(r.choice(["", " ", "\n", "\t ", "  "]) + w)
        text = r.choice([" ", "\n", "\t"]).join(parts) + r.choice(["", "", " ", "\n"])
        ops.append(f"ein {k} {hx(text)}")
    yield Batch("enum-stream-input", ops, note="repeated stream input of enumerator names separated by whitespace, with unknown words, NULs and near misses")
    # ---------------------------------------------------------------- vectors / dims
    ops = []
    for ty in VEC_TYPES:
        lo, hi = trange(ty)
        alpha = sorted({lo, -1 if lo < 0 else 1, 0, 7, 10, hi})
        for n in range(1, 5):
            vs_all = [[]]
            for _ in range(n):
                vs_all = [v + [a] for v in vs_all for a in alpha]
            for vs in vs_all:
                ops.append(f"vec {ty} {n} " + ",".join(map(str, vs)))
    yield Batch("vector-small-exhaustive", ops, exhaustive=True, note="output then input of every vector/dim of length 1..4 over {min,-1|1,0,7,10,max} for int, long, unsigned short, unsigned")
    ops = []
    short = all_strings("(),1- ", 5 if thorough else 4)
    for n in (1, 2):
        for t_ in short:
            ops.append(f"vin i32 {n} {hx(t_)}")
    yield Batch("vector-input-short-texts", ops, exhaustive=True, note="stream >> vector<int,1|2> on every text over {( ) , 1 - space} up to length 4 (thorough: 5)")
    ops = []
    for _ in range(3000 if thorough else 500):
        ty = r.choice(VEC_TYPES)
        n = r.range(1, 4)
        vs = [rand_val(r, ty) for _ in range(n)]
        text = "(" + ",".join(map(str, vs)) + ")"
        k = r.below(8)
        if k == 0 and len(text) > 1:
            i = r.below(len(text)); text = text[:i] + text[i + 1:]
        elif k == 1:
            i = r.below(len(text) + 1); text = text[:i] + r.choice([" ", "\n", ",", "(", ")", "x", "-", "+", "0"]) + text[i:]
        elif k == 2:
            text = text.replace(",", r.choice([" , ", ", ", " ,", ";", ",,", " "]))
        elif k == 3:
            text = text + r.choice([" ", "x", ")", "(1)", ",1"])
        elif k == 4:
            text = r.choice([" ", "\n\t", "x"]) + text
        elif k == 5:
            lo, hi = trange(ty)
            text = "(" + ",".join(str(r.choice([lo - 1, hi + 1, hi, lo, 10 ** 30])) for _ in range(n)) + ")"
        elif k == 6:
            text = text[:r.below(len(text) + 1)]
        ops.append(f"vin {ty} {r.choice([n, n, n, r.range(1, 4)])} {hx(text)}")
    yield Batch("vector-input-malformed", ops, note="mutated vector texts: missing/extra characters, whitespace, out-of-range elements, truncated text, wrong dimension")


MANIFEST = {
    "level_text": "",
    "level_note": "",
    "technique": "Lean 4 proof over hand-written executable model + differential correspondence (ASan/UBSan harness)",
    "design_ref": "DESIGN.md §5 C15",
}
