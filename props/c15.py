"""C15 — textual and binary encodings round-trip losslessly."""
from vlib.runner import Batch

ID = "C15"
LEAN_PROPS = ["FcpptProofs.Props.C15"]
HARNESS = {"src": "harness/c15.cpp", "repo_srcs": [
    "libs/core/src/endianness/reverse_mem.cpp",
]}
TIE = "hand-written model (FcpptModel/Model/C15/*.lean) + differential correspondence against the real templates and .cpp files"
RULE = ""
ASSUMPTIONS = []
TRUSTED = ["harness/c15.cpp and the digest/line protocol (vh.hpp, Proto.lean)", "g++ 12 + ASan/UBSan as witness for memory safety of the instantiations"]

INT_TYPES = {"u8": (8, False), "i8": (8, True), "u16": (16, False), "i16": (16, True),
             "u32": (32, False), "i32": (32, True), "u64": (64, False), "i64": (64, True)}
FLT_TYPES = {"f32": 32, "f64": 64}


def trange(ty):
    if ty in FLT_TYPES:
        return 0, (1 << FLT_TYPES[ty]) - 1
    b, s = INT_TYPES[ty]
    return (-(1 << (b - 1)), (1 << (b - 1)) - 1) if s else (0, (1 << b) - 1)


def lattice(ty):
    lo, hi = trange(ty)
    bits = FLT_TYPES.get(ty) or INT_TYPES[ty][0]
    vals = {lo, hi, 0, 1, -1, 2, -2, lo + 1, hi - 1}
    for k in range(bits + 1):
        for d in (-1, 0, 1):
            vals.add((1 << k) + d)
            vals.add(-(1 << k) + d)
    # byte patterns that make a swapped/unswapped or dropped byte visible
    pat = 0
    for i in range(bits // 8):
        pat = (pat << 8) | (i + 1)
    vals.update([pat, pat ^ ((1 << bits) - 1), 0x80, 0xFF, 0xFF00, 0x8000, 0x00FF00FF, 0x0123456789ABCDEF & ((1 << bits) - 1)])
    if ty in FLT_TYPES:
        if bits == 32:
            vals.update([0x7F800000, 0xFF800000, 0x7FC00000, 0x7FA00000, 0x7F800001, 0xFFC00001, 0x80000000, 0x3F800000, 0x00000001, 0x007FFFFF, 0x00800000, 0x7F7FFFFF])
        else:
            vals.update([0x7FF0000000000000, 0xFFF0000000000000, 0x7FF8000000000000, 0x7FF4000000000000, 0x7FF0000000000001, 0xFFF8000000000001,
                         0x8000000000000000, 0x3FF0000000000000, 1, 0x000FFFFFFFFFFFFF, 0x0010000000000000, 0x7FEFFFFFFFFFFFFF])
    return sorted(v for v in vals if lo <= v <= hi)


def rand_val(r, ty):
    lo, hi = trange(ty)
    k = r.below(4)
    if k == 0:
        return r.range(lo, hi)
    if k == 1:  # few significant bits
        b = r.range(1, (FLT_TYPES.get(ty) or INT_TYPES[ty][0]))
        v = r.below(1 << b)
        if lo < 0 and r.chance(1, 2):
            v = -v
        return min(max(v, lo), hi)
    if k == 2:
        return r.choice(lattice(ty))
    v = r.range(lo, hi)
    return min(max(v ^ (0xFF << (8 * r.below(8))), lo), hi) if v >= 0 else v


def hexs(bs):
    return "".join("%02x" % b for b in bs) if bs else "-"


def nontrivial(op, result):
    return result != "bad-op" and op != "native"


def weight(op):
    t = op.split()
    if t[0] == "bins":
        return int(t[4])
    return 1


def refine(op):
    t = op.split()
    if t[0] == "bins":
        lo, n = int(t[3]), int(t[4])
        return [f"bin {t[1]} {t[2]} {v}" for v in range(lo, lo + n)]
    return None


def batches(rng, tier):
    thorough = tier == "thorough"
    yield Batch("native", ["native"], exhaustive=True, note="the machine's byte order is the one the model is run with")
    # all 8- and 16-bit integers, both byte orders: write, read back, read again, swap, swap twice, convert, convert twice
    ops = []
    for ty in ("u8", "i8", "u16", "i16"):
        lo, hi = trange(ty)
        step = 256 if ty in ("u8", "i8") else 2048
        for e in "LB":
            for a in range(lo, hi + 1, step):
                ops.append(f"bins {ty} {e} {a} {step}")
    yield Batch("bin-8-16-exhaustive", ops, exhaustive=True, note="every 8/16-bit integer x both std::endian values")
    # lattice + random 32/64-bit integers and float bit patterns
    r = rng.fork("bin")
    ops = []
    for ty in ("u32", "i32", "u64", "i64", "f32", "f64"):
        for e in "LB":
            for v in lattice(ty):
                ops.append(f"bin {ty} {e} {v}")
            for _ in range(1500 if thorough else 250):
                ops.append(f"bin {ty} {e} {rand_val(r, ty)}")
    yield Batch("bin-32-64-lattice-random", ops, note="boundary lattice (2^k, 2^k +- 1, min/max, byte patterns, inf/nan/denormal bit patterns) + seeded random values")
    # several values through one stream; reads from arbitrary byte strings (short input, leftovers)
    r = rng.fork("seq")
    ops = []
    for _ in range(1200 if thorough else 200):
        ty = r.choice(list(INT_TYPES) + list(FLT_TYPES))
        n = r.range(0, 6)
        ops.append(f"seq {ty} {r.choice('LB')} " + (",".join(str(rand_val(r, ty)) for _ in range(n)) if n else "-"))
    for ty in list(INT_TYPES) + list(FLT_TYPES):
        size = (FLT_TYPES.get(ty) or INT_TYPES[ty][0]) // 8
        for e in "LB":
            for n in range(0, 2 * size + 2):
                ops.append(f"rd {ty} {e} " + hexs([r.below(256) for _ in range(n)]))
                ops.append(f"rd {ty} {e} " + hexs([0xFF] * n))
    yield Batch("bin-streams", ops, note="sequences of values through one stream; io::read on every input length 0..2*sizeof+1 (short input must give no value)")
    ops = []
    for n in range(0, 20):
        ops.append("revmem " + hexs(list(range(1, n + 1))))
        ops.append("revmem " + hexs([r.below(256) for _ in range(n)]))
    for n in (31, 32, 33, 64, 127):
        ops.append("revmem " + hexs([r.below(256) for _ in range(n)]))
    yield Batch("reverse-mem", ops, note="reverse_mem on exact-size heap buffers of every length 0..19 and some longer ones")


MANIFEST = {
    "level_text": "",
    "level_note": "",
    "technique": "Lean 4 proof over hand-written executable model + differential correspondence (ASan/UBSan harness)",
    "design_ref": "DESIGN.md §5 C15",
}
