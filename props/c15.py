"""C15 — textual and binary encodings round-trip losslessly."""
import sys

from vlib.runner import Batch

ID = "C15"
LEAN_PROPS = ["FcpptProofs.Props.C15"]
HARNESS = {"src": "harness/c15.cpp", "repo_srcs": [
    "libs/core/src/endianness/reverse_mem.cpp", "libs/core/src/insert_extract_locale.cpp",
    "libs/core/src/narrow_locale.cpp", "libs/core/src/widen_locale.cpp", "libs/core/src/from_std_wstring_locale.cpp",
    "libs/core/src/to_std_wstring_locale.cpp", "libs/core/src/from_std_string_locale.cpp", "libs/core/src/to_std_string_locale.cpp",
    "libs/core/src/narrow.cpp", "libs/core/src/widen.cpp", "libs/core/src/string_conv_locale.cpp", "libs/core/src/from_std_wstring.cpp",
    "libs/core/src/to_std_wstring.cpp", "libs/core/src/from_std_string.cpp", "libs/core/src/to_std_string.cpp",
    "libs/core/src/io/read_chars.cpp", "libs/core/src/io/write_chars.cpp",
]}
TIE = "hand-written model (FcpptModel/Model/C15/*.lean) + differential correspondence against the real templates and .cpp files"
RULE = ("One op = one call sequence of the real code with one canonical result line; digest ops (bins / rtds / nws) enumerate a range on "
        "both sides and count range-size evaluations. Exhaustive: every 8- and 16-bit integer x both std::endian values (write, read back, "
        "read once more, swap, swap twice, convert, convert twice); every 8/16-bit value through output_to_std_(w)string + "
        "extract_from_string; every text over {space,-,+,0,1,9,x} up to length 4 (thorough 5) for every numeric destination type; every "
        "enumerator of the four test enums; every vector/dim of length 1..4 over {min,-1|1,0,7,10,max}; every text over {( ) , 1 - space} "
        "up to length 5 (thorough 6) as vector input; every code point U+0000..U+10FFFF singly (narrow, widen back). Sampled from the seed: "
        "boundary lattice + random 32/64-bit integers and float/double bit patterns; value sequences through one stream; io::read on every "
        "input length 0..2*sizeof+1; numerals around every overflow boundary; enum word streams; mutated vector texts; random scalar strings "
        "up to length 40 plus, for every length 1..40, strings whose encoded size is n, 2n, 3n, 4n and n+1..n+3 (all buffer growth paths); "
        "single calls of the real codecvt facet for every window size incl. primed states (contract of the abstract converter); ill-formed "
        "byte / wide strings (truncated, overlong, surrogates, > U+10FFFF, stray bytes, embedded NULs) where additionally the result must be "
        "the complete conversion or a failure by the plugin's own strict UTF-8 coder (extra_checks). Added by the extension round: "
        "bool / char / char8_t / char16_t exhaustively and wchar_t / char32_t / long long / unsigned long long on the lattice; every script of "
        "up to 3 (thorough 4) steps {io::write, io::read, write_chars, read_chars, peek, clear} on ONE std::stringstream with the state bits "
        "after every step, plus seeded scripts with mixed types and byte orders; every text over {space,-,+,0,1,2,x} up to 4 into bool, every "
        "text over {space,a,b,newline} up to 5 into std::(w)string; a grouping numpunct and a ctype with one more white-space character "
        "(the locale argument must be imbued); every sequence of up to 2 (thorough 3) steps {io::get, peek, extract<char|string|bool|int|"
        "unsigned short>, expect, clear, enum input, vector input} on every text over small alphabets; an enum with empty / blank / NUL / "
        "prefix names, every short text as enum input with the target variable printed, wide streams, enum array and matrix output, several "
        "vectors read from one stream; the impl::codecvt loop run over scripted facets installed in a locale (every input over "
        "{01,02,03,0f,ee,fd} up to length 4 (thorough 5) x 16 flag sets x 4 max_lengths x 3 chunk sizes x both directions: noconv, error, "
        "partial with nothing written, ok with input left over, max_length 0, state carried between calls, to_next left null). float / double "
        "decimal text is judged by an exact-rational oracle of the plugin (extra_checks), outside the Lean model. An op is non-trivial unless "
        "it is `native`, `literals` or answered bad-op.")
ASSUMPTIONS = [
    "object representation of an n-byte integer = its n base-256 digits (two's complement), least significant first on this machine "
    "(native is a parameter of the model; the harness reports std::endian::native); float/double only as the same-width bit pattern",
    "ostream::write appends exactly the given bytes; istream::read of n bytes fails (no value) iff fewer than n are available",
    "libstdc++ 12 num_put (dec, no showpos, classic locale: optional '-', digits, no grouping) and num_get::_M_extract_int (optional sign, "
    "leading zeros, accumulation with the __max/10 overflow test, '-' on unsigned types negates modulo 2^bits, short/int via long + range "
    "check) as modelled in Model/C15/Text.lean: validated by correspondence, not proved",
    "basic_istream sentry (skipws), peek, operator>>(char&), operator>>(string&) as modelled; whitespace of the classic locale = {9..13, 32}",
    "std::codecvt<wchar_t,char,mbstate_t> of C.utf8 (libstdc++ do_in/do_out over glibc mbsnrtowcs/wcsnrtombs: NUL-separated chunks, 31-bit "
    "UTF-8 with 1..6 bytes, surrogates and overlong forms rejected, incomplete tail kept in the mbstate_t, max_length 6) as modelled per "
    "character in Model/C15/Codecvt.lean (utf8In/utf8Out): validated by direct facet calls on every run, not proved; the loop theorems hold "
    "for ANY converter meeting the stated Contract",
    "wchar_t is a 32-bit code point; C.utf8 is the only UTF-8 locale of the sandbox; FCPPT_NARROW_STRING is defined (fcppt::string = std::string)",
    "enumerator = its index; names table = to_string_impl<Enum>::get",
    "std::stringstream: ostream::write only writes to a good() stream and leaves a stream that is not good and not bad untouched (libstdc++ 12 "
    "sentry: `else if (bad()) setstate(failbit)`), istream::read sets eofbit|failbit on a short read and consumes what was there, peek sets "
    "eofbit only, both directions share the state bits (Model/C15/Stream.lean): validated by the exhaustive stream scripts, not proved",
    "istream::get(), num_get::do_get(bool&) without boolalpha (reads a long; 0/1 are the values, anything else stores true + failbit), "
    "num_put with numpunct grouping \"\\3\" (a separator in front of every complete group of three digits; reading such a text back through the "
    "same locale is modelled as: the canonical separators are skipped), ctype<char> tables only affect the sentry's white-space skipping, "
    "ctype<wchar_t>::narrow(c, 0) is c below 128 and 0 otherwise: validated, not proved",
    "the scripted facets (c15::toy_facet in harness/c15.cpp) compute exactly Model/C15/Toy.lean's toyStep (same definition written twice; "
    "mbstate_t.__count / __value.__wch hold the state); they reach the loop through the public narrow_locale / widen_locale with a std::locale",
]
TRUSTED = ["harness/c15.cpp and the digest/line protocol (vh.hpp, Proto.lean)", "g++ 12 + ASan/UBSan as witness for memory safety of the instantiations"]

# long double witnesses as the unsigned number of the 80 value bits (sign, 15-bit exponent, 64-bit mantissa with explicit integer bit):
# pi, -0.0, LDBL_MAX, the smallest denormal, another denormal, 1.0, -1.5, LDBL_MIN
F80_WITNESSES = [(0x4000 << 64) | 0xC90FDAA22168C235, 0x8000 << 64, (0x7FFE << 64) | 0xFFFFFFFFFFFFFFFF, 1, 0x000123456789ABCD,
                 (0x3FFF << 64) | (1 << 63), (0xBFFF << 64) | (3 << 62), (1 << 64) | (1 << 63)]

INT_TYPES = {"u8": (8, False), "i8": (8, True), "u16": (16, False), "i16": (16, True),
             "u32": (32, False), "i32": (32, True), "u64": (64, False), "i64": (64, True)}
FLT_TYPES = {"f32": 32, "f64": 64}


def trange(ty):
    if ty in FLT_TYPES:
        return 0, (1 << FLT_TYPES[ty]) - 1
    b, s = INT_TYPES[ty]
    return (-(1 << (b - 1)), (1 << (b - 1)) - 1) if s else (0, (1 << b) - 1)


def lattice(ty):
    lo, hi = trange(ty)
    bits = FLT_TYPES.get(ty) or INT_TYPES[ty][0]
    vals = {lo, hi, 0, 1, -1, 2, -2, lo + 1, hi - 1}
    for k in range(bits + 1):
        for d in (-1, 0, 1):
            vals.add((1 << k) + d)
            vals.add(-(1 << k) + d)
    # byte patterns that make a swapped/unswapped or dropped byte visible
    pat = 0
    for i in range(bits // 8):
        pat = (pat << 8) | (i + 1)
    vals.update([pat, pat ^ ((1 << bits) - 1), 0x80, 0xFF, 0xFF00, 0x8000, 0x00FF00FF, 0x0123456789ABCDEF & ((1 << bits) - 1)])
    if ty in FLT_TYPES:
        if bits == 32:
            vals.update([0x7F800000, 0xFF800000, 0x7FC00000, 0x7FA00000, 0x7F800001, 0xFFC00001, 0x80000000, 0x3F800000, 0x00000001, 0x007FFFFF, 0x00800000, 0x7F7FFFFF])
        else:
            vals.update([0x7FF0000000000000, 0xFFF0000000000000, 0x7FF8000000000000, 0x7FF4000000000000, 0x7FF0000000000001, 0xFFF8000000000001,
                         0x8000000000000000, 0x3FF0000000000000, 1, 0x000FFFFFFFFFFFFF, 0x0010000000000000, 0x7FEFFFFFFFFFFFFF])
    return sorted(v for v in vals if lo <= v <= hi)


def rand_val(r, ty):
    lo, hi = trange(ty)
    k = r.below(4)
    if k == 0:
        return r.range(lo, hi)
    if k == 1:  # few significant bits
        b = r.range(1, (FLT_TYPES.get(ty) or INT_TYPES[ty][0]))
        v = r.below(1 << b)
        if lo < 0 and r.chance(1, 2):
            v = -v
        return min(max(v, lo), hi)
    if k == 2:
        return r.choice(lattice(ty))
    v = r.range(lo, hi)
    return min(max(v ^ (0xFF << (8 * r.below(8))), lo), hi) if v >= 0 else v


def hexs(bs):
    return "".join("%02x" % b for b in bs) if bs else "-"


def hx(text):
    """text: str or bytes -> hex token"""
    if isinstance(text, str):
        text = text.encode("latin-1")
    return text.hex() if text else "-"


def all_strings(alpha, maxlen):
    out = [""]
    layer = [""]
    for _ in range(maxlen):
        layer = [w + c for w in layer for c in alpha]
        out += layer
    return out


NUM_DESTS = ["u16", "i16", "u32", "i32", "u64", "i64"]
CHAR_DESTS = ["c8", "u8", "i8"]
ENUMS = {1: ["test1", "test2", "test3"], 2: ["foo", "bar", "baz", "fo", "foobar"], 3: ["a", "b", "a"], 4: ["only"],
         5: ["", "a b", "x\x00y", " z", "x", "a"]}
VEC_TYPES = ["i32", "i64", "u16", "u32"]


def num_texts(r, ty, count):
    """texts around the accept/reject boundaries of num_get for destination ty"""
    lo, hi = trange(ty)
    bits = INT_TYPES[ty][0]
    out = []
    interesting = [lo, hi, lo - 1, hi + 1, -hi, -hi - 1, -hi - 2, 0, 1, -1, 10 * hi, hi // 10, hi // 10 + 1, (1 << bits) - 1, 1 << bits,
                   -(1 << bits), -(1 << bits) + 1, (1 << 63) - 1, 1 << 63, (1 << 63) + 1, -(1 << 63), -(1 << 63) - 1, (1 << 64) - 1, 1 << 64,
                   -(1 << 64) + 1, -(1 << 64), 10 ** 19, 10 ** 20 - 1, 10 ** 25]
    for v in interesting:
        out.append(str(v))
        if v >= 0:
            out.append("+" + str(v))
    for _ in range(count):
        v = r.choice(interesting) + r.range(-3, 3) if r.chance(1, 2) else rand_val(r, ty)
        body = str(abs(v))
        if r.chance(1, 4):
            body = "0" * r.range(1, 25) + body
        sign = "-" if v < 0 else r.choice(["", "", "+"])
        pre = r.choice(["", "", "", " ", "\t\n ", "\v\f\r", "  "])
        post = r.choice(["", "", "", "", " ", "x", ".", ",", "\n", "e1", "\x00", "-", "+"])
        if r.chance(1, 10):
            sign = r.choice(["--", "+-", "-+", "- ", "+ "])
        out.append(pre + sign + body + post)
    return out


# ---------------------------------------------------------------- UTF-8 (glibc's 31-bit flavour): an oracle of our own
def enc31(c):
    """bytes of one code point the way glibc's UTF-8 converter writes them, None if it refuses"""
    if c > 0x7FFFFFFF or 0xD800 <= c <= 0xDFFF:
        return None
    if c < 0x80:
        return [c]
    for n, lim, lead in ((2, 0x800, 0xC0), (3, 0x10000, 0xE0), (4, 0x200000, 0xF0), (5, 0x4000000, 0xF8), (6, 0x80000000, 0xFC)):
        if c < lim:
            return [lead + (c >> (6 * (n - 1)))] + [0x80 + ((c >> (6 * k)) & 0x3F) for k in range(n - 2, -1, -1)]


def dec31(bs):
    """strict decoding of a whole byte string: list of code points, or None if it is not a sequence of well-formed
    characters (overlong, surrogate, stray/missing continuation bytes, truncated)"""
    out, i = [], 0
    while i < len(bs):
        b = bs[i]
        if b < 0x80:
            out.append(b); i += 1; continue
        n = 2 if 0xC2 <= b < 0xE0 else 3 if 0xE0 <= b < 0xF0 else 4 if 0xF0 <= b < 0xF8 else 5 if 0xF8 <= b < 0xFC else 6 if 0xFC <= b < 0xFE else 0
        if n == 0 or i + n > len(bs):
            return None
        c = b & (0xFF >> (n + 1))
        for k in range(1, n):
            if bs[i + k] & 0xC0 != 0x80:
                return None
            c = (c << 6) | (bs[i + k] & 0x3F)
        if enc31(c) is None or len(enc31(c)) != n:
            return None
        out.append(c); i += n
    return out


def whx(cs):
    return "".join("%08x" % c for c in cs) if cs else "-"


SCALAR_EDGES = [1, 0x7F, 0x80, 0x7FF, 0x800, 0xFFF, 0x1000, 0xD7FF, 0xE000, 0xFFFD, 0xFFFF, 0x10000, 0x1FFFF, 0xFFFFF, 0x100000, 0x10FFFF]
BAD_WC = [0xD800, 0xDBFF, 0xDC00, 0xDFFF, 0x80000000, 0xFFFFFFFF, 0x80000001]
WIDE_WC = [0x110000, 0x1FFFFF, 0x200000, 0x3FFFFFF, 0x4000000, 0x7FFFFFFF]   # glibc accepts these (31-bit UTF-8)


def rand_scalar(r):
    k = r.below(6)
    if k == 0:
        return r.range(1, 0x7F)
    if k == 1:
        return r.range(0x80, 0x7FF)
    if k == 2:
        c = r.range(0x800, 0xFFFF)
        return c if not 0xD800 <= c <= 0xDFFF else 0xE000 + (c & 0xFF)
    if k == 3:
        return r.range(0x10000, 0x10FFFF)
    return r.choice(SCALAR_EDGES)


def rand_string(r, maxlen=40):
    n = r.range(1, maxlen)
    shape = r.below(7)
    if shape == 0:
        return [r.range(1, 0x7F) for _ in range(n)]
    if shape == 1:
        return [r.range(0x10000, 0x10FFFF) for _ in range(n)]
    if shape == 2:   # ASCII, then wide characters: the buffer is exhausted in the middle of the string
        k = r.below(n + 1)
        return [r.range(1, 0x7F) for _ in range(k)] + [r.choice([0xE4, 0x20AC, 0x1F600, 0x10FFFF]) for _ in range(n - k)]
    if shape == 3:
        return [r.choice([0xE4, 0x7FF, 0x80]) for _ in range(n)]
    if shape == 4:
        return [r.choice([0x20AC, 0x800, 0xFFFF]) for _ in range(n)]
    return [rand_scalar(r) for _ in range(n)]


def malformed_bytes(r):
    """byte strings around the borders of well-formedness"""
    good = [b for c in rand_string(r, 8) for b in enc31(c)]
    k = r.below(14)
    if k == 0:    # truncated: ends inside a character
        tail = enc31(r.choice([0xE4, 0x20AC, 0x1F600, 0x10FFFF, 0x7FF, 0x800]))
        return good + tail[:r.range(1, len(tail) - 1)]
    if k == 1:    # overlong forms
        return good + r.choice([[0xC0, 0x80], [0xC1, 0xBF], [0xE0, 0x80, 0x80], [0xE0, 0x9F, 0xBF], [0xF0, 0x80, 0x80, 0x80], [0xF0, 0x8F, 0xBF, 0xBF],
                                [0xF8, 0x80, 0x80, 0x80, 0x80], [0xF8, 0x87, 0xBF, 0xBF, 0xBF], [0xFC, 0x80, 0x80, 0x80, 0x80, 0x80], [0xFC, 0x83, 0xBF, 0xBF, 0xBF, 0xBF]]) + good[:2]
    if k == 2:    # encoded surrogates
        return good + r.choice([[0xED, 0xA0, 0x80], [0xED, 0xBF, 0xBF], [0xED, 0xAF, 0xBF, 0xED, 0xB0, 0x80]]) + good[:2]
    if k == 3:    # beyond U+10FFFF: glibc decodes these
        return good + enc31(r.choice(WIDE_WC)) + good[:2]
    if k == 4:    # stray continuation / invalid lead bytes
        i = r.below(len(good) + 1)
        return good[:i] + [r.choice([0x80, 0xBF, 0xFE, 0xFF, 0xC0, 0xC1])] + good[i:]
    if k == 5:    # a continuation byte replaced
        if len(good) > 1:
            i = r.below(len(good))
            good[i] = r.choice([0x28, 0xC3, 0x7F, 0x00, 0xE2])
        return good
    if k == 6:    # embedded NUL in a well-formed string
        i = r.below(len(good) + 1)
        return good[:i] + [0] * r.range(1, 2) + good[i:]
    if k == 7:    # NUL directly behind an incomplete sequence, completed (or not) behind the NUL
        ch = enc31(r.choice([0xE4, 0x20AC, 0x1F600]))
        cut = r.range(1, len(ch) - 1)
        return good[:3] + ch[:cut] + [0] + r.choice([ch[cut:], [], [0x41], ch[cut:] + good[:2], ch])
    if k == 8:    # one byte dropped anywhere
        if good:
            i = r.below(len(good)); good = good[:i] + good[i + 1:]
        return good
    if k == 9:
        return [r.below(256) for _ in range(r.range(1, 8))]
    if k == 10:   # well-formed long string with a defect at the very end / beginning
        long = [b for c in rand_string(r, 40) for b in enc31(c)]
        return r.choice([long + [0xC3], [0xA4] + long, long + [0xF0, 0x9F], long])
    if k == 11:   # incomplete sequences split by several NULs
        ch = enc31(r.choice([0x20AC, 0x1F600]))
        out = []
        for b in ch:
            out += [b] + [0] * r.below(2)
        return out
    return good


def malformed_wide(r):
    good = rand_string(r, 8)
    k = r.below(6)
    i = r.below(len(good) + 1)
    if k == 0:
        return good[:i] + [r.choice(BAD_WC)] + good[i:]
    if k == 1:
        return good[:i] + [r.choice(WIDE_WC)] + good[i:]
    if k == 2:    # embedded NULs: the exactly-full-window path of 5e38615
        return good[:i] + [0] * r.range(1, 3) + good[i:]
    if k == 3:
        return [r.choice([0xE4, 0x20AC]), 0, r.choice([0xE4, 0x20AC, 0x41])] + good[:r.below(3)]
    if k == 4:
        return good + [r.choice(BAD_WC)]
    return [r.choice(BAD_WC)] + good


def expected_widen(bs):
    """the property: the complete conversion or a failure"""
    d = dec31(bs)
    return "exc" if d is None else "some " + whx(d)


def expected_narrow(cs):
    bs = []
    for c in cs:
        e = enc31(c)
        if e is None:
            return "none"
        bs += e
    return "some " + hexs(bs)


def nontrivial(op, result):
    return result != "bad-op" and op not in ("native", "literals")


def weight(op):
    t = op.split()
    if t[0] == "bins" or t[0] == "rtds":
        return int(t[4])
    if t[0] == "nws":
        return int(t[2])
    if t[0] == "toys":
        return sum(6 ** k for k in range(int(t[5]) + 1))
    if t[0] == "nwlong":
        return 1
    return 1


def refine(op):
    t = op.split()
    if t[0] == "bins":
        lo, n = int(t[3]), int(t[4])
        return [f"bin {t[1]} {t[2]} {v}" for v in range(lo, lo + n)]
    if t[0] == "rtds":
        lo, n = int(t[3]), int(t[4])
        return [f"rtd {t[1]} {t[2]} {v}" for v in range(lo, lo + n)]
    if t[0] == "nws":
        lo, n = int(t[1]), int(t[2])
        return [f"nw {c:08x}" for c in range(lo, lo + n)]
    if t[0] == "toys":
        wide = t[1] == "out"
        return [f"toy {t[1]} {t[2]} {t[3]} {t[4]} " + (whx(w) if wide else hexs(w)) for w in toy_inputs(int(t[5]))]
    if t[0] == "bst" and "," in t[1]:
        # every proper prefix of the script: the first step whose result differs
        steps = t[1].split(",")
        return ["bst " + ",".join(steps[:k]) for k in range(1, len(steps))]
    if t[0] == "tst" and "," in t[3]:
        steps = t[3].split(",")
        return [f"tst {t[1]} {t[2]} " + ",".join(steps[:k]) for k in range(1, len(steps))]
    return None


TOY_ALPHABET = [0x01, 0x02, 0x03, 0x0F, 0xEE, 0xFD]


def toy_inputs(maxlen):
    out = []
    for n in range(maxlen + 1):
        for i in range(6 ** n):
            out.append([TOY_ALPHABET[i // 6 ** (n - 1 - k) % 6] for k in range(n)])
    return out


def seqs(alpha, maxlen, minlen=1):
    out, layer = [], [[]]
    for n in range(1, maxlen + 1):
        layer = [w + [c] for w in layer for c in alpha]
        if n >= minlen:
            out += layer
    return out


def batches(rng, tier):
    thorough = tier == "thorough"
    yield Batch("native", ["native"], exhaustive=True, note="the machine's byte order is the one the model is run with")
    # all 8- and 16-bit integers, both byte orders: write, read back, read again, swap, swap twice, convert, convert twice
    ops = []
    for ty in ("u8", "i8", "u16", "i16"):
        lo, hi = trange(ty)
        step = 256 if ty in ("u8", "i8") else 2048
        for e in "LB":
            for a in range(lo, hi + 1, step):
                ops.append(f"bins {ty} {e} {a} {step}")
    yield Batch("bin-8-16-exhaustive", ops, exhaustive=True, note="every 8/16-bit integer x both std::endian values")
    # lattice + random 32/64-bit integers and float bit patterns
    r = rng.fork("bin")
    ops = []
    for ty in ("u32", "i32", "u64", "i64", "f32", "f64"):
        for e in "LB":
            for v in lattice(ty):
                ops.append(f"bin {ty} {e} {v}")
            for _ in range(20000 if thorough else 1500):
                ops.append(f"bin {ty} {e} {rand_val(r, ty)}")
    yield Batch("bin-32-64-lattice-random", ops, note="boundary lattice (2^k, 2^k +- 1, min/max, byte patterns, inf/nan/denormal bit patterns) + seeded random values")
    # several values through one stream; reads from arbitrary byte strings (short input, leftovers)
    r = rng.fork("seq")
    ops = []
    for _ in range(10000 if thorough else 1000):
        ty = r.choice(list(INT_TYPES) + list(FLT_TYPES))
        n = r.range(0, 6)
        ops.append(f"seq {ty} {r.choice('LB')} " + (",".join(str(rand_val(r, ty)) for _ in range(n)) if n else "-"))
    for ty in list(INT_TYPES) + list(FLT_TYPES):
        size = (FLT_TYPES.get(ty) or INT_TYPES[ty][0]) // 8
        for e in "LB":
            for n in range(0, 2 * size + 2):
                ops.append(f"rd {ty} {e} " + hexs([r.below(256) for _ in range(n)]))
                ops.append(f"rd {ty} {e} " + hexs([0xFF] * n))
    yield Batch("bin-streams", ops, note="sequences of values through one stream; io::read on every input length 0..2*sizeof+1 (short input must give no value)")
    ops = []
    for n in range(0, 20):
        ops.append("revmem " + hexs(list(range(1, n + 1))))
        ops.append("revmem " + hexs([r.below(256) for _ in range(n)]))
    for n in (31, 32, 33, 64, 127):
        ops.append("revmem " + hexs([r.below(256) for _ in range(n)]))
    yield Batch("reverse-mem", ops, note="reverse_mem on exact-size heap buffers of every length 0..19 and some longer ones")

    # ---------------------------------------------------------------- decimal text
    ops = []
    for ty in CHAR_DESTS:
        lo = -128 if ty != "u8" else 0
        ops.append(f"rtds N {ty} {lo} 256")
    for ty in ("u16", "i16"):
        lo, hi = trange(ty)
        for w in "NW":
            for a in range(lo, hi + 1, 2048):
                ops.append(f"rtds {w} {ty} {a} 2048")
    yield Batch("text-8-16-exhaustive", ops, exhaustive=True,
                note="output_to_std_(w)string then extract_from_string for every 8-bit (character types) and 16-bit integer")
    r = rng.fork("text")
    ops = []
    for ty in ("u32", "i32", "u64", "i64"):
        for w in "NW":
            for v in lattice(ty):
                ops.append(f"rtd {w} {ty} {v}")
            for _ in range(20000 if thorough else 1500):
                ops.append(f"rtd {w} {ty} {rand_val(r, ty)}")
    yield Batch("text-32-64-lattice-random", ops, note="decimal round trip on the boundary lattice and seeded random 32/64-bit integers, narrow and wide strings")
    # all short texts over a small alphabet: what extract_from_string accepts and rejects
    ops = []
    small = all_strings(" -+019x", 5 if thorough else 4)
    for ty in NUM_DESTS:
        for t_ in small:
            ops.append(f"efs N {ty} {hx(t_)}")
    for ty in CHAR_DESTS:
        for t_ in all_strings(" a\n\x80", 3):
            ops.append(f"efs N {ty} {hx(t_)}")
    yield Batch("extract-short-texts", ops, exhaustive=True,
                note="extract_from_string on every text over {space,-,+,0,1,9,x} up to length 4 (thorough: 5) for every numeric destination, and over {space,a,newline,0x80} for the character types")
    ops = []
    for ty in NUM_DESTS:
        for t_ in num_texts(r, ty, 12000 if thorough else 1000):
            ops.append(f"efs {r.choice('NW')} {ty} {hx(t_)}")
    yield Batch("extract-malformed", ops, note="overflow boundaries of every destination type (max, max+1, -max-1, 2^64 ...), leading zeros, signs, whitespace before / garbage behind")
    # ---------------------------------------------------------------- enums
    ops = []
    for k, names in ENUMS.items():
        for e in range(len(names)):
            ops.append(f"enum {k} {e}")
        cands = set()
        for n in names:
            cands.update([n, n[:-1], n + "x", n.upper(), " " + n, n + " ", n[1:], n + n])
        cands.update(["", "x", "\x00"])
        for c in sorted(cands):
            ops.append(f"efrom {k} {hx(c)}")
    yield Batch("enum-all-enumerators", ops, exhaustive=True, note="to_string/from_string/stream output/input for every enumerator of the four test enums (one with a duplicated name); from_string on near misses")
    ops = []
    for _ in range(15000 if thorough else 1500):
        k = r.choice(list(ENUMS))
        names = ENUMS[k]
        parts = []
        for _ in range(r.range(0, 6)):
            w = r.choice(names)
            if r.chance(1, 6):
                w = r.choice([w[:-1], w + "x", w.upper(), "", "\x00" + w, w + "\x00", "zz"])
            parts.append(r.choice(["", " ", "\n", "\t ", "  "]) + w)
        text = r.choice([" ", "\n", "\t"]).join(parts) + r.choice(["", "", " ", "\n"])
        ops.append(f"ein {k} {hx(text)}")
    yield Batch("enum-stream-input", ops, note="repeated stream input of enumerator names separated by whitespace, with unknown words, NULs and near misses")
    # ---------------------------------------------------------------- vectors / dims
    ops = []
    for ty in VEC_TYPES:
        lo, hi = trange(ty)
        alpha = sorted({lo, -1 if lo < 0 else 1, 0, 7, 10, hi})
        for n in range(1, 5):
            vs_all = [[]]
            for _ in range(n):
                vs_all = [v + [a] for v in vs_all for a in alpha]
            for vs in vs_all:
                ops.append(f"vec {ty} {n} " + ",".join(map(str, vs)))
    yield Batch("vector-small-exhaustive", ops, exhaustive=True, note="output then input of every vector/dim of length 1..4 over {min,-1|1,0,7,10,max} for int, long, unsigned short, unsigned")
    ops = []
    short = all_strings("(),1- ", 6 if thorough else 5)
    for n in (1, 2):
        for t_ in short:
            ops.append(f"vin i32 {n} {hx(t_)}")
    yield Batch("vector-input-short-texts", ops, exhaustive=True, note="stream >> vector<int,1|2> on every text over {( ) , 1 - space} up to length 5 (thorough: 6)")
    ops = []
    for _ in range(30000 if thorough else 3000):
        ty = r.choice(VEC_TYPES)
        n = r.range(1, 4)
        vs = [rand_val(r, ty) for _ in range(n)]
        text = "(" + ",".join(map(str, vs)) + ")"
        k = r.below(8)
        if k == 0 and len(text) > 1:
            i = r.below(len(text)); text = text[:i] + text[i + 1:]
        elif k == 1:
            i = r.below(len(text) + 1); text = text[:i] + r.choice([" ", "\n", ",", "(", ")", "x", "-", "+", "0"]) + text[i:]
        elif k == 2:
            text = text.replace(",", r.choice([" , ", ", ", " ,", ";", ",,", " "]))
        elif k == 3:
            text = text + r.choice([" ", "x", ")", "(1)", ",1"])
        elif k == 4:
            text = r.choice([" ", "\n\t", "x"]) + text
        elif k == 5:
            lo, hi = trange(ty)
            text = "(" + ",".join(str(r.choice([lo - 1, hi + 1, hi, lo, 10 ** 30])) for _ in range(n)) + ")"
        elif k == 6:
            text = text[:r.below(len(text) + 1)]
        ops.append(f"vin {ty} {r.choice([n, n, n, r.range(1, 4)])} {hx(text)}")
    yield Batch("vector-input-malformed", ops, note="mutated vector texts: missing/extra characters, whitespace, out-of-range elements, truncated text, wrong dimension")

    # ---------------------------------------------------------------- every other arithmetic type; one stream object
    r = rng.fork("bin-more")
    ops = ["bins b1 L 0 2", "bins b1 B 0 2", "bin b1 L 0", "bin b1 B 1", "seq b1 B 1,0,1", "seq b1 L -"]
    for ty, lo in (("ch", -128), ("c8t", 0)):
        for e in "LB":
            ops.append(f"bins {ty} {e} {lo} 256")
    for e in "LB":
        for a in range(0, 65536, 2048):
            ops.append(f"bins c16 {e} {a} 2048")
    for ty, like in (("wc", "i32"), ("c32", "u32"), ("ll", "i64"), ("ull", "u64")):
        for e in "LB":
            for v in lattice(like):
                ops.append(f"bin {ty} {e} {v}")
            for _ in range(3000 if thorough else 300):
                ops.append(f"bin {ty} {e} {rand_val(r, like)}")
            size = INT_TYPES[like][0] // 8
            for n in range(0, 2 * size + 2):
                ops.append(f"rd {ty} {e} " + hexs([r.below(256) for _ in range(n)]))
    yield Batch("bin-more-types", ops, exhaustive=True,
                note="bool (both values), char / char8_t / char16_t exhaustively, wchar_t / char32_t / long long / unsigned long long on the lattice + random: the same write / read / swap / convert line as for the fixed-width types")
    # long double: the native order is an ordinary diff check; the non-native order is the listed known finding (extra_checks)
    native_tok = "L" if sys.byteorder == "little" else "B"
    yield Batch("bin-long-double-native-order", [f"bin f80 {native_tok} {v}" for v in F80_WITNESSES] +
                [f"bin f80 {native_tok} {(r.below(2) << 79) | (r.range(1, 0x7FFE) << 64) | (1 << 63) | r.below(1 << 63)}" for _ in range(200)],
                note="long double (x87 extended, as the number of its 80 value bits; padding masked) in the machine's own byte order: write, read back, read again, swap twice, convert twice")
    steps = ["w.u8.L.1", "w.u16.B.513", "r.u8.L", "r.u16.B", "r.u16.L", "p", "c", "wc.0a0b", "rc.1", "rc.0", "rc.2"]
    ops = ["bst " + ",".join(sq) for sq in seqs(steps, 4 if thorough else 3)]
    # the four-step scripts that matter most in the quick tier: a failure in the middle, then clear, then traffic again
    if not thorough:
        for a in ("r.u16.B", "rc.2", "r.u8.L"):
            for b in ("c", "p", "w.u8.L.1"):
                for c_ in steps:
                    for d in ("r.u8.L", "rc.1", "r.u16.L", "wc.0a0b"):
                        ops.append(f"bst w.u8.L.1,{a},{b},{c_},{d}")
    all_ty = list(INT_TYPES) + list(FLT_TYPES) + ["ch", "wc", "c8t", "c16", "c32", "ll", "ull"]
    like_of = {"ch": "i8", "wc": "i32", "c8t": "u8", "c16": "u16", "c32": "u32", "ll": "i64", "ull": "u64"}
    for _ in range(20000 if thorough else 2500):
        # values of mixed types and byte orders through one stream, read back with the same / other types, failures, clear
        n = r.range(1, 6)
        ws = [(r.choice(all_ty), r.choice("LB")) for _ in range(n)]
        script = [f"w.{ty}.{e}.{rand_val(r, like_of.get(ty, ty))}" for ty, e in ws]
        k = r.below(5)
        if k == 0:      # read back exactly what was written, one read too many
            script += [f"r.{ty}.{e}" for ty, e in ws] + [f"r.{r.choice(all_ty)}.L"]
        elif k == 1:    # same sizes, other byte order / other type of the same size
            script += [f"r.{ty}.{'L' if e == 'B' else 'B'}" for ty, e in ws]
        elif k == 2:    # interleaved
            script = [x for ty_e, w in zip(ws, script) for x in (w, f"r.{ty_e[0]}.{ty_e[1]}")]
            script.insert(r.below(len(script) + 1), r.choice(["p", "c", "rc.1", "wc.ff", f"r.{r.choice(all_ty)}.B"]))
        elif k == 3:    # fail, clear, go on
            script += [f"r.{r.choice(all_ty)}.{r.choice('LB')}" for _ in range(r.range(1, 8))]
            script += ["c", f"w.u32.B.{r.below(1 << 32)}", "r.u32.B", "r.u8.L"]
        else:
            script += [r.choice([f"r.{r.choice(all_ty)}.{r.choice('LB')}", "p", "c", f"rc.{r.below(5)}", "wc." + hexs([r.below(256) for _ in range(r.range(1, 3))])])
                       for _ in range(r.range(1, 8))]
        ops.append("bst " + ",".join(script))
    yield Batch("bin-stream-scripts", ops, exhaustive=True,
                note="io::write / io::read / write_chars / read_chars / peek / clear on ONE std::stringstream: every script of up to 3 (thorough: 4) steps over 11 steps, failure-then-clear scripts, seeded scripts with mixed types and byte orders; the state bits are printed after every step")

    # ---------------------------------------------------------------- bool, strings, other locales, the stream helpers
    ops = ["rtb N 0", "rtb N 1", "rtb W 0", "rtb W 1"]
    small_b = all_strings(" -+012x", 4)
    for t_ in small_b:
        ops.append(f"efb N {hx(t_)}")
    for t_ in all_strings(" -012", 3):
        ops.append(f"efb W {hx(t_)}")
    for t_ in ["00", "01", "001", "10", "-1", "+1", "-0", "99999999999999999999", "-99999999999999999999", "1x", "1 ", " 1", "\t0", "true", "false"]:
        ops.append(f"efb N {hx(t_)}")
    words = all_strings(" ab\n", 5)
    for t_ in words:
        ops.append(f"efstr N {hx(t_)}")
        ops.append(f"rtstr N {hx(t_)}")
    for t_ in all_strings(" a€", 3):
        ops.append("efstr W " + whx([ord(c) for c in t_]))
        ops.append("rtstr W " + whx([ord(c) for c in t_]))
    for t_ in ["\x00", "a\x00b", "\x00 ", "\x80\xff", "\t\v\f\r", "a\tb", "a\x0bb"]:
        ops.append(f"rtstr N {hx(t_)}")
    yield Batch("text-bool-string", ops, exhaustive=True,
                note="extract_from_string<bool> on every text over {space,-,+,0,1,2,x} up to length 4; extract_from_string<std::(w)string> and the output/extract round trip on every text over {space,a,b,newline} up to length 5 (strings round-trip iff non-empty and free of white space)")
    ops = []
    for ty in NUM_DESTS:
        for v in lattice(ty):
            ops.append(f"otsl {ty} {v}")
        for k in range(0, 21):
            for v in (10 ** k - 1, 10 ** k, -(10 ** k), -(10 ** k) + 1):
                lo, hi = trange(ty)
                if lo <= v <= hi:
                    ops.append(f"otsl {ty} {v}")
        for _ in range(3000 if thorough else 300):
            ops.append(f"otsl {ty} {rand_val(r, ty)}")
        for t_ in all_strings("x 1-", 4):
            ops.append(f"efsx {ty} {hx(t_)}")
        for t_ in ["xx 12", "x\t-7x", "12x", "x", "xxxx", " x x 1", "1x2", "x+5", "y5"]:
            ops.append(f"efsx {ty} {hx(t_)}")
    yield Batch("text-other-locales", ops, exhaustive=True,
                note="the locale argument is really imbued: output_to_string_locale with a grouping numpunct (and back through the same locale) on the lattice, every power of ten and random values; extract_from_string_locale with a ctype<char> in which 'x' is white space on every text over {x,space,1,-} up to length 4")
    tsteps = ["g", "p", "xc", "xs", "xb", "xi32", "xu16", "e31", "c"]
    ops = []
    for t_ in all_strings(" 1a-", 3):
        for sq in seqs(tsteps, 3 if thorough else 2):
            ops.append(f"tst N {hx(t_)} " + ",".join(sq))
    if not thorough:
        for t_ in ["1 a", " 1", "11", "a", "-1 ", ""]:
            for sq in seqs(tsteps, 3, 3):
                ops.append(f"tst N {hx(t_)} " + ",".join(sq))
    for t_ in all_strings(" ab(1,)", 3 if thorough else 2) + ["a b", "(1)", "(1,1)", "b a ", "(1,1) a", "a(1)"]:
        for sq in seqs(["n3", "n5", "v1", "v2", "c", "g", "xi32", "xs"], 3 if thorough else 2):
            ops.append(f"tst N {hx(t_)} " + ",".join(sq))
    for t_ in ["a b", "(1)a", "b", " a", "(1,1)"]:
        for sq in seqs(["n3", "n5", "v1", "v2", "c", "p"], 2):
            ops.append("tst W " + whx([ord(c) for c in t_]) + " " + ",".join(sq))
    for t_ in all_strings("\xffa", 2) + ["\xff \xff", " \xff", "\xfe\xff\x80"]:
        for sq in seqs(["g", "p", "xc", "xs"], 3):
            ops.append(f"tst N {hx(t_)} " + ",".join(sq))
    for _ in range(10000 if thorough else 1500):
        text = "".join(r.choice(" \n1270-+ax(),") for _ in range(r.range(0, 8)))
        sq = [r.choice(tsteps + ["xi16", "xu32", "xi64", "xu64", "e28", "e2c", "e29", "e20"]) for _ in range(r.range(1, 7))]
        if r.chance(1, 4):
            ops.append("tst W " + whx([ord(c) for c in text] + ([0x20AC] if r.chance(1, 3) else [])) + " " + ",".join(sq))
        else:
            ops.append(f"tst N {hx(text)} " + ",".join(sq))
    yield Batch("stream-steps", ops, exhaustive=True,
                note="fcppt::io::get / peek / extract<char|string|bool|int|unsigned short> / expect / clear on ONE input stream: every sequence of up to 2 (thorough: 3) steps on every text over {space,1,a,-} up to length 3, all 3-step sequences on six texts, seeded longer ones (also wide); state bits after every step")
    ops = ["literals"]
    for t_ in ["", "a", "a\xc3\xa4", "\x00", "a\x00b", "\xff\xfe", " a b "]:
        ops.append("strconv " + hx(t_))
    for _ in range(200):
        ops.append("strconv " + hexs([r.below(256) for _ in range(r.range(1, 12))]))
    yield Batch("string-conv-identity", ops, note="from_std_string(_locale) / to_std_string(_locale) / output_to_fcppt_string are the identity for a narrow fcppt::string, with any bytes and any locale; FCPPT_STRING_LITERAL / FCPPT_CHAR_LITERAL pick the literal of the requested width")
    # ---------------------------------------------------------------- enums with odd names, wide streams, enum arrays, matrices
    ops = []
    for k, names in ENUMS.items():
        for e in range(len(names)):
            ops.append(f"enumw {k} {e}")
        ops.append(f"earr {k} " + ",".join(str(7 * i - 3) for i in range(len(names))))
        ops.append(f"earr {k} " + ",".join(str(r.choice([-(1 << 31), (1 << 31) - 1, 0, -1])) for i in range(len(names))))
    for k in (3, 5):
        for t_ in all_strings(" ab\nx", 5 if thorough else 4):
            ops.append(f"ein {k} {hx(t_)}")
    for t_ in all_strings(" ax\x00y", 4):
        ops.append(f"ein 5 {hx(t_)}")
    for t_ in all_strings(" fo€", 3):
        ops.append("einw 2 " + whx([ord(c) for c in t_]))
    for t_ in ["a b", "a b x", "x\x00y", " z", "z", "x a b", "a\x00", "\x00a", "a\nb", "a  b"]:
        ops.append(f"ein 5 {hx(t_)}")
        ops.append("einw 5 " + whx([ord(c) for c in t_]))
    yield Batch("enum-odd-names-wide", ops, exhaustive=True,
                note="an enum with an empty name, a blank inside a name, an embedded NUL, a leading blank and names that are prefixes of each other; stream input on every text over {space,a,b,newline,x} up to length 4 (thorough: 5) and over {space,a,x,NUL,y} up to 4; the variable handed to input() is printed (unchanged on failure); wide streams; enum_::array output")
    ops = []
    for ty in VEC_TYPES:
        lo, hi = trange(ty)
        alpha = sorted({lo, -1 if lo < 0 else 1, 0, 10, hi})
        for rr, cc in ((1, 1), (1, 2), (2, 1), (2, 2)):
            for vs in seqs(alpha, rr * cc, rr * cc):
                ops.append(f"mat {ty} {rr} {cc} " + ",".join(map(str, vs)))
        for rr, cc in ((1, 3), (3, 1), (2, 3), (3, 2), (3, 3)):
            for _ in range(200 if thorough else 40):
                ops.append(f"mat {ty} {rr} {cc} " + ",".join(str(r.choice(alpha + [rand_val(r, ty)])) for _ in range(rr * cc)))
        for n in range(1, 4):
            for vs in seqs(alpha, n, n):
                ops.append(f"vecw {ty} {n} " + ",".join(map(str, vs)))
    short = all_strings("(),1 ", 7 if thorough else 6)
    for t_ in short:
        ops.append(f"vinm i32 1 {hx(t_)}")
    for t_ in all_strings("(),1 ", 5):
        ops.append(f"vinw i32 2 {hx(t_)}")
    for _ in range(6000 if thorough else 800):
        ty = r.choice(VEC_TYPES)
        n = r.range(1, 3)
        parts = []
        for _ in range(r.range(1, 4)):
            parts.append(r.choice(["", "", " ", "\n"]) + "(" + ",".join(r.choice(["", " "]) + str(rand_val(r, ty)) + r.choice(["", "", " "]) for _ in range(n)) + r.choice([")", ")", ")", "", " )"]))
        ops.append(f"vinm {ty} {n} {hx(''.join(parts))}")
    yield Batch("matrix-vector-streams", ops, exhaustive=True,
                note="matrix output (all 1x1..2x2 over {min,-1|1,0,10,max}, seeded larger ones; narrow = wide), vector output/input through wide streams, several vectors from one stream: every text over {( ) , 1 space} up to length 6 (thorough: 7) read repeatedly")

    # ---------------------------------------------------------------- the loop of impl::codecvt over scripted facets
    ops = []
    for d in ("in", "out"):
        for f in range(16):
            for m in (0, 1, 3, 4):
                for c_ in (0, 1, 2):
                    ops.append(f"toys {d} {f} {m} {c_} {5 if thorough else 4}")
    for _ in range(20000 if thorough else 3000):
        d = r.choice(["in", "out"])
        n = r.range(1, 40)
        shape = r.below(4)
        if shape == 0:
            units = [r.choice([1, 2, 3, 4, 5, 0x0F, 0x1F]) for _ in range(n)]
        elif shape == 1:
            units = [r.choice([2, 5, 8]) for _ in range(n)]             # three output units each: the buffer has to grow
        elif shape == 2:
            units = [r.below(256) for _ in range(n)]
        else:
            units = [r.choice([1, 2, 3, 0x0F]) for _ in range(n - 1)] + [r.choice([0x0F, 0xEE, 0xFD, 1, 0x2F])]
        if d == "out" and r.chance(1, 3):
            units = [u + 256 * r.below(1 << 20) for u in units]
        ops.append(f"toy {d} {r.below(16)} {r.choice([0, 1, 2, 3, 4, 6, 8])} {r.choice([0, 0, 1, 2, 3, 5, 8])} " + (whx(units) if d == "out" else hexs(units)))
    yield Batch("codecvt-loop-scripted-facets", ops, exhaustive=True,
                note="narrow_locale / widen_locale with a facet of the harness' own inside the locale (Model/C15/Toy.lean on both sides): noconv, error, partial with nothing written, ok with input left over, max_length() 0..4 (also untruthful), a state that is non-initial between calls, at most 1 or 2 units per call; every input over {01,02,03,0f,ee,fd} up to length 4 (thorough: 5) x 16 flag sets x 4 max_lengths x 3 chunk sizes x both directions, seeded inputs up to length 40")

    # ---------------------------------------------------------------- UTF-8: narrow / widen in C.utf8
    yield Batch("utf8-facet", ["facet"], exhaustive=True, note="max_length() = 6 and always_noconv() = false, as the model assumes")
    ops = [f"nws {lo} 4096" for lo in range(0, 0x110000, 4096)]
    chosen = set()
    for e in SCALAR_EDGES + [0xD800, 0xDFFF]:
        chosen.update(range(max(0, e - 2), min(0x10FFFF, e + 2) + 1))
    ops += [f"nw {c:08x}" for c in sorted(chosen)] + [f"nwenv {c:08x}" for c in sorted(chosen)]
    note = ("narrow then widen of EVERY one-character string U+0000..U+10FFFF (1,114,112 code points as 272 digests; surrogates included: "
            "narrow must fail), the neighbours of every length/surrogate boundary singly, also through the overloads that take the locale from the environment")
    yield Batch("utf8-scalars", ops, exhaustive=True, note=note)
    r = rng.fork("utf8")
    ops = []
    for _ in range(30000 if thorough else 4000):
        ops.append(("nwenv " if r.chance(1, 10) else "nw ") + whx(rand_string(r)))
    # every length 1..40 with characters of every encoded length: all buffer growth paths (initial size n, 2*read, max_length)
    for n in range(1, 41):
        for c in (0x41, 0xE4, 0x20AC, 0x1F600):
            ops.append("nw " + whx([c] * n))
            ops.append("nw " + whx([0x41] * (n - 1) + [c]))
            ops.append("nw " + whx([c] + [0x41] * (n - 1)))
    # long strings: many growth steps of the buffer, capacities beyond 2^8 / 2^12 / 2^16
    for n in (100, 255, 256, 257, 1000, 4095, 4096, 4097, 20000) + ((65535, 65536, 65537) if thorough else ()):
        for pat in ([0x41], [0xE4], [0x20AC], [0x1F600], [0x41, 0x1F600], [0x20AC, 0x41, 0xE4], [0x41] * 7 + [0x10FFFF]):
            if len(pat) * n <= 200000:
                ops.append(f"nwlong {whx(pat)} {n}")
    ops += [f"nwlong {whx([0x41, 0xD800])} 300", f"nwlong {whx([0x41] * 99 + [0xDFFF])} 50"]
    yield Batch("utf8-strings", ops, note="random strings of scalar values up to length 40 and, for every length 1..40, strings whose encoded length is n, 2n, 3n, 4n, n+1..n+3")
    # the facet itself: contract of the abstract converter, concrete model of libstdc++/glibc
    ops = []
    for _ in range(40000 if thorough else 4000):
        if r.chance(1, 2):
            cs = rand_string(r, 6) if r.chance(2, 3) else malformed_wide(r)
            total = sum(len(enc31(c) or [0]) for c in cs)
            ops.append(f"cvt out {r.range(0, total + 2)} - {whx(cs)}")
        else:
            bs = malformed_bytes(r) if r.chance(2, 3) else [b for c in rand_string(r, 6) for b in enc31(c)]
            pend = []
            if r.chance(1, 4):
                ch = enc31(r.choice([0xE4, 0x20AC, 0x1F600, 0x200000, 0x4000000]))
                pend = ch[:r.range(1, len(ch) - 1)]
                if r.chance(2, 3):
                    bs = ch[len(pend):] + bs
            ops.append(f"cvt in {r.range(0, len(bs) + 1)} {hexs(pend)} {hexs(bs)}")
    yield Batch("utf8-facet-calls", ops, note="single calls of the real codecvt<wchar_t,char,mbstate_t>::in/out of C.utf8 with every window size, primed states, well- and ill-formed input: result kind, from_next, to_next, output, mbsinit")
    ops = []
    for _ in range(40000 if thorough else 4000):
        ops.append("widen " + hexs(malformed_bytes(r)))
    for _ in range(12000 if thorough else 1200):
        ops.append("narrow " + whx(malformed_wide(r)))
    for e in BAD_WC + WIDE_WC:
        ops.append(f"narrow {e:08x}")
    yield Batch("utf8-malformed", ops, note="truncated sequences, overlong forms, surrogates, values beyond U+10FFFF, stray bytes, embedded NULs: model = code; the rule 'a result is the complete conversion' is checked against an oracle by extra_checks")


_SEEN = {"known_class": 0}


def dec31_carry(bs):
    """what libstdc++'s do_in on top of glibc computes: like dec31, but a NUL byte is passed through as U+0000 without
    looking at the bytes of an incomplete sequence collected so far, which are completed behind it (the known finding)"""
    out, pend = [], []
    for b in bs:
        if b == 0:
            out.append(0)
            continue
        pend.append(b)
        b0 = pend[0]
        n = 1 if b0 < 0x80 else 2 if 0xC2 <= b0 < 0xE0 else 3 if 0xE0 <= b0 < 0xF0 else 4 if 0xF0 <= b0 < 0xF8 else 5 if 0xF8 <= b0 < 0xFC else 6 if 0xFC <= b0 < 0xFE else 0
        if n == 0 or any(x & 0xC0 != 0x80 for x in pend[1:]):
            return None
        if len(pend) == n:
            d = dec31(pend)
            if d is None:
                return None
            out += d
            pend = []
    return None if pend else out


def nul_after_incomplete(bs):
    """an incomplete multi-byte sequence directly followed by a NUL byte"""
    i = 0
    while i < len(bs):
        b = bs[i]
        n = 1 if b < 0x80 else 2 if 0xC2 <= b < 0xE0 else 3 if 0xE0 <= b < 0xF0 else 4 if 0xF0 <= b < 0xF8 else 5 if 0xF8 <= b < 0xFC else 6 if 0xFC <= b < 0xFE else 1
        k = 1
        while k < n and i + k < len(bs) and bs[i + k] & 0xC0 == 0x80:
            k += 1
        if k < n and i + k < len(bs) and bs[i + k] == 0:
            return True
        i += k
    return False


def is_known_class(op, observed):
    """exactly the listed finding: widen of a text in which an incomplete sequence is directly followed by NUL byte(s) and
    completed behind them, AND the result is precisely what carrying the state across the NUL gives (nothing else wrong)"""
    t = op.split()
    if len(t) != 2 or t[0] != "widen" or t[1] == "-":
        return False
    bs = list(bytes.fromhex(t[1]))
    if not nul_after_incomplete(bs) or dec31(bs) is not None:
        return False
    d = dec31_carry(bs)
    return d is not None and observed == "some " + whx(d)


def extra_checks(binp, rng, tier, ev):
    """The property on ill-formed input, independent of the model: whatever narrow/widen return is either the complete
    conversion (by this file's own strict 31-bit UTF-8 coder) or a failure."""
    from vlib.runner import run_harness
    if binp is None:
        return []
    r = rng.fork("utf8-rule")
    n = 40000 if tier == "thorough" else 4000
    ops, want = [], []
    for _ in range(n):
        if r.chance(3, 4):
            bs = malformed_bytes(r)
            ops.append("widen " + hexs(bs)); want.append(expected_widen(bs))
        else:
            cs = malformed_wide(r)
            ops.append("narrow " + whx(cs)); want.append(expected_narrow(cs))
    for bs in ([0x61, 0xC3], [0xC3], [0x61, 0x62, 0xE2, 0x82], [0xC3, 0x00, 0xA4], [0xE2, 0x82, 0x00, 0xAC], [0xC3, 0x00],
               [0xF0, 0x00, 0x9F, 0x00, 0x98, 0x00, 0x80], [0xC3, 0x00, 0x41], [0x61, 0x00, 0xA4]):
        ops.append("widen " + hexs(bs)); want.append(expected_widen(bs))
    lines, deaths = run_harness(binp, ops)
    other, known = [], []
    for op, w, got in zip(ops, want, lines):
        if got in ("NOT-RUN", "SKIPPED-AFTER-DEATH", None) or got == w:
            continue
        v = {"kind": "input", "batch": "utf8-rule", "batch_kind": "stateless", "ops": [op], "expected": [w], "observed": [got],
             "what": f"{op.split()[0]} returned something that is neither the complete conversion nor a failure: {op!r} -> {got!r}, expected {w!r}"}
        (known if is_known_class(op, got) else other).append(v)
    _SEEN["known_class"] = len(known)
    ev["coverage"]["utf8_rule"] = {"ops": len(ops), "not_complete_or_failure": len(other) + len(known), "of_these_known_finding_class": len(known),
                                   "rule": "result of widen_locale/narrow_locale in C.utf8 == strict conversion by the plugin's own coder, 'exc'/'none' iff ill-formed"}
    # anything outside the listed class first: it must never be hidden behind the known finding
    return other[:3] + float_checks(binp, rng, tier, ev) + long_double_checks(binp, ev) + known[:1]


# ---------------------------------------------------------------- float / double through decimal text: an exact oracle
FLT_FMT = {"f32": (24, -126, 127, "<f", "<I", 32), "f64": (53, -1022, 1023, "<d", "<Q", 64)}


def bits_to_float(ty, bits):
    import struct
    _, _, _, ff, fi, _ = FLT_FMT[ty]
    return struct.unpack(ff, struct.pack(fi, bits))[0]


def float_text(ty, bits):
    """what `os << v` writes with the default precision 6 and default float field (printf %g; glibc prints the sign of a NaN)"""
    import math
    nbits = FLT_FMT[ty][5]
    x = bits_to_float(ty, bits)
    if math.isnan(x):
        return "-nan" if bits >> (nbits - 1) else "nan"
    return "%g" % x


def parse_exact(ty, text):
    """the correctly rounded (nearest-even) value of the decimal numeral `text` in the format, as bits; None = the
    extraction fails (not a numeral libstdc++ accepts, or out of range: strtof/strtod return HUGE_VAL)"""
    import re
    import struct
    from fractions import Fraction
    p, emin, emax, ff, fi, nbits = FLT_FMT[ty]
    if not re.fullmatch(r"[+-]?(\d+(\.\d*)?|\.\d+)([eE][+-]?\d+)?", text):
        return None
    neg = text.startswith("-")
    q = abs(Fraction(text))
    if q == 0:
        return (1 << (nbits - 1)) if neg else 0
    e = q.numerator.bit_length() - q.denominator.bit_length()
    if Fraction(2) ** e > q:
        e -= 1
    e = max(e, emin)
    quantum = Fraction(2) ** (e - p + 1)
    n = q / quantum
    fl = n.numerator // n.denominator
    rem = n - fl
    if rem > Fraction(1, 2) or (rem == Fraction(1, 2) and fl % 2 == 1):
        fl += 1
    val = fl * quantum
    if val >= Fraction(2) ** (emax + 1):
        return None
    b = struct.unpack(fi, struct.pack(ff, float(val)))[0]
    return b | (1 << (nbits - 1)) if neg else b


def float_patterns(r, ty, n):
    nbits = FLT_FMT[ty][5]
    out = [v for v in lattice(ty)]
    for _ in range(n):
        k = r.below(4)
        if k == 0:
            out.append(r.below(1 << nbits))
        elif k == 1:    # short decimals: these round-trip
            x = r.range(-999999, 999999) * 10.0 ** r.range(-30, 30)
            import struct
            out.append(struct.unpack(FLT_FMT[ty][4], struct.pack(FLT_FMT[ty][3], x))[0])
        elif k == 2:    # small integers and halves
            import struct
            out.append(struct.unpack(FLT_FMT[ty][4], struct.pack(FLT_FMT[ty][3], r.range(-2000000, 2000000) / 2.0))[0])
        else:           # exponent boundaries
            e = r.below(1 << (nbits - FLT_FMT[ty][0]))
            out.append((r.below(2) << (nbits - 1)) | (e << (FLT_FMT[ty][0] - 1)) | r.choice([0, 1, (1 << (FLT_FMT[ty][0] - 1)) - 1, r.below(1 << (FLT_FMT[ty][0] - 1))]))
    return out


def float_checks(binp, rng, tier, ev):
    """output_to_std_string / extract_from_string for float and double against printf-%g and an exact-rational parser of
    this file's own: the code writes 6 significant digits, so the round trip holds exactly for the values that are the
    nearest float to their own 6-digit decimal; for the others the text is read back as THAT decimal's nearest float (a
    different value — documented, the statement claims the round trip for integers only) or, for inf/nan, fails."""
    from vlib.runner import run_harness
    r = rng.fork("float-text")
    ops, want, meta = [], [], []
    for ty in ("f32", "f64"):
        for bits in float_patterns(r, ty, 6000 if tier == "thorough" else 1200):
            text = float_text(ty, bits)
            back = parse_exact(ty, text)
            ops.append(f"rtf {ty} {bits}")
            want.append("s=" + hx(text) + " r=" + ("none" if back is None else str(back)))
            meta.append((ty, bits, back))
        for text in ["1", "-0", "0.5", "1e3", "1e+3", "1E3", ".5", "5.", "1e", "e1", "1e+", "+.5e-1", "1.5x", " 1.5", "1.5 ", "inf", "nan", "-inf", "0x10", "1e39", "1e309", "1e-400",
                     "3.4028235e38", "3.4028236e38", "1.7976931348623157e308", "1.7976931348623159e308", "4.9e-324", "2.4703282292062328e-324", "1.4e-45", "7e-46",
                     "16777217", "9007199254740993", "0.1", "123456789012345678901234567890", "--1", "+-1", "1..2", ""]:
            if text.strip() != text or text == "":
                want_r = "none" if text != " 1.5" else None
            else:
                want_r = None
            back = parse_exact(ty, text.strip()) if text == " 1.5" else parse_exact(ty, text)
            ops.append(f"eff {ty} {hx(text)}")
            want.append(want_r if want_r is not None else ("none" if back is None else str(back)))
            meta.append(None)
    lines, deaths = run_harness(binp, ops)
    out, rt = [], {"f32": [0, 0], "f64": [0, 0]}
    for op, w, got, m in zip(ops, want, lines, meta):
        if m is not None and got not in ("NOT-RUN", "SKIPPED-AFTER-DEATH", None):
            rt[m[0]][1] += 1
            if m[2] == m[1]:
                rt[m[0]][0] += 1
        if got in ("NOT-RUN", "SKIPPED-AFTER-DEATH", None) or got == w:
            continue
        out.append({"kind": "input", "batch": "float-text-oracle", "batch_kind": "stateless", "ops": [op], "expected": [w], "observed": [got],
                    "what": f"float/double decimal text differs from printf-%g / the correctly rounded parse: {op!r} -> {got!r}, expected {w!r}"})
    ev["coverage"]["float_text"] = {"ops": len(ops), "differences": len(out),
                                    "bit_exact_round_trips": {k: f"{v[0]} of {v[1]}" for k, v in rt.items()},
                                    "rule": "output_to_std_string(float|double) == '%g' % v; extract_from_string == correctly rounded value of the text (exact rational arithmetic), "
                                            "'none' for inf/nan/overflow/trailing characters; outside the Lean model"}
    return out[:3]


def long_double_checks(binp, ev):
    """long double in the NON-native byte order: the model says what the property demands (the value comes back); the
    observed corruption is the listed known finding `long-double-non-native-order` (classified below, nothing else is)."""
    from vlib.runner import run_harness, run_driver
    other_tok = "B" if sys.byteorder == "little" else "L"
    ops = [f"bin f80 {other_tok} {v}" for v in F80_WITNESSES]
    impl, _ = run_harness(binp, ops)
    model = run_driver(sys.modules[__name__], ops)
    out = []
    for op, m, i in zip(ops, model, impl):
        if i in ("NOT-RUN", "SKIPPED-AFTER-DEATH", None) or i == m:
            continue
        out.append({"kind": "input", "batch": "long-double-non-native-order", "batch_kind": "stateless", "ops": [op], "expected": [m], "observed": [i],
                    "what": f"implementation and proved model disagree on {op!r}: impl={i!r} model={m!r}"})
    _SEEN["long_double"] = len(out)
    ev["coverage"]["long_double_non_native"] = {"ops": len(ops), "round_trip_broken": len(out),
                                                "rule": "io::write / io::read / swap twice / convert twice of a long double in the byte order that is not the machine's"}
    return out


def is_long_double_class(violation):
    """ONLY: type f80, the byte order that is not the machine's, a value was returned (has_value) and the stream was used up"""
    if violation.get("kind") != "input" or violation.get("batch") != "long-double-non-native-order" or not violation.get("ops"):
        return False
    t = violation["ops"][-1].split()
    other_tok = "B" if sys.byteorder == "little" else "L"
    if len(t) != 4 or t[0] != "bin" or t[1] != "f80" or t[2] != other_tok:
        return False
    obs = dict(f.split("=", 1) for f in (violation.get("observed") or [""])[-1].split() if "=" in f)
    exp = dict(f.split("=", 1) for f in (violation.get("expected") or [""])[-1].split() if "=" in f)
    # the model demands the round trip; the implementation returned SOME value from exactly the 16 bytes it wrote
    return (exp.get("r") == t[3] and exp.get("ss") == t[3] and exp.get("cc") == t[3] and obs.get("r") not in (None, "none")
            and obs.get("r2") == "none" and len(obs.get("w", "")) == 32)


def _long_double_entry(findings):
    for f in findings:
        if f.get("property") == "C15" and f.get("status") == "known" and (f.get("match") or {}).get("kind") == "long-double-non-native-order":
            return f
    return None


def _known_entry(findings):
    for f in findings:
        if f.get("property") == "C15" and f.get("status") == "known" and (f.get("match") or {}).get("kind") == "incomplete-sequence-before-embedded-nul":
            return f
    return None


def classify(violation, findings):
    """Only 'widen carries an incomplete sequence across an embedded NUL' is the known finding; every other result for
    ill-formed input and every truncation stays a VIOLATION."""
    if is_long_double_class(violation):
        return _long_double_entry(findings)
    if violation.get("kind") != "input" or violation.get("batch") != "utf8-rule" or not violation.get("ops"):
        return None
    obs = (violation.get("observed") or [""])[-1]
    exp = (violation.get("expected") or [""])[-1]
    if exp != "exc" or not is_known_class(violation["ops"][-1], obs):
        return None
    return _known_entry(findings)


def known_finding_lines(findings, ev):
    """the rule stream contains fixed witnesses of the class (c3 00 a4 ...), so every run exercises the finding"""
    out = []
    f = _known_entry(findings)
    if f is not None and _SEEN["known_class"] > 0:
        out.append(f["line"])
    g = _long_double_entry(findings)
    if g is not None and _SEEN.get("long_double", 0) > 0:
        out.append(g["line"])
    # the exhaustive 8-bit round-trip batch (rtds N i8/u8 ...) contains the six whitespace values on every run; implementation and
    # model agree there (both report the failure), so it is not a diff - the finding is listed because the literal property text
    # ("for every integer") does not hold on them
    for g in findings:
        if g.get("property") == "C15" and g.get("status") == "known" and (g.get("match") or {}).get("kind") == "char-type-whitespace-value":
            out.append(g["line"])
    return out


MANIFEST = {
    "level_text": ("Machine-checked proofs (Lean 4, 74 theorems) over executable models that mirror the anchored code: reverse_mem's index loop is "
                   "list reversal for every length; swap∘swap = id, convert round trips, io::write emits the base-256 digits most/least "
                   "significant first and io::read∘io::write = id for every width, signedness, byte order, machine order and value, a short input "
                   "never yields a value; extract_from_string(output_to_string(v)) = v for every integer of 1..8 bytes and every accepted text is "
                   "a complete numeral (never truncates); enum from_string/to_string and stream round trips for every names table with distinct "
                   "names; vector/dim output/input round trip for every length; the impl::codecvt loop, for ANY converter meeting the stated "
                   "contract and from every buffer state, terminates and returns the conversion of the complete input or a failure, never a "
                   "proper prefix; UTF-8 decode∘encode and encode∘decode; widen(narrow(s)) = s for every string of valid characters incl. all "
                   "Unicode scalar values. Extension round: one stringstream object with shared state bits (values of any mix of types and byte "
                   "orders come back in order, a failed read is sticky for both directions until clear(), read_chars/write_chars), bool and "
                   "std::string through extract_from_string (strings round-trip iff non-empty and blank-free, never a part), locales with "
                   "grouping or another ctype, enum stream input = from_string of the first word for ANY names table (duplicates, blanks, wide "
                   "streams), white-space-tolerant vector input, several vectors per stream, matrix output, the loop is total for ANY converter "
                   "that respects its window (no meaning needed) incl. the scripted facets of the harness, fcppt::string conversions. Tied to "
                   "the code by a differential correspondence that is exhaustive over all 8/16-bit integers, all "
                   "enumerators, all small vectors, all 1,114,112 code points, all short stream scripts and all short inputs of 384 scripted facets."),
    "level_note": ("PARTIAL: the UTF-8 conversion itself (glibc/libstdc++ codecvt) and num_get/num_put are library code; they enter as validated "
                   "assumptions (a stated contract + per-character models checked against the real facet/streams on every run), not as proved "
                   "code. widen's strong statement excludes the listed known finding (an incomplete sequence directly followed by an embedded "
                   "NUL: libstdc++ carries the state across the NUL), stated as the hypothesis nulWhilePending = false. Trusted: Lean kernel + "
                   "propext/Classical.choice/Quot.sound; fidelity of the hand-written models outside the exercised inputs; harness and digest "
                   "protocol. No sorry/axiom/native_decide."),
    "technique": "Lean 4 proof over hand-written executable model + differential correspondence (ASan/UBSan harness)",
    "design_ref": "DESIGN.md §5 C15",
}
