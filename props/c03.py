"""C03 — command-line parsing accounts for every argument and matches its reference."""
import glob
import importlib.util
import os

from vlib import paths
from vlib.runner import Batch

ID = "C03"
LEAN_PROPS = ["FcpptProofs.Props.C03"]


def _load_gen():
    p = os.path.join(paths.ROOT, "tools", "gen_c03_shapes.py")
    spec = importlib.util.spec_from_file_location("gen_c03_shapes", p)
    m = importlib.util.module_from_spec(spec)
    spec.loader.exec_module(m)
    return m


G = _load_gen()
SHAPES = G.SHAPES


def _repo_srcs():
    r = list(G.tu_paths())          # the generated shape translation units first (they take longest to compile)
    for pat in ("libs/options/src/options/*.cpp", "libs/options/src/options/detail/*.cpp", "libs/options/impl/src/options/impl/*.cpp"):
        r += sorted(os.path.relpath(f, paths.REPO) for f in glob.glob(os.path.join(paths.REPO, pat)))
    r += ["libs/core/src/exception.cpp", "libs/core/src/insert_extract_locale.cpp", "libs/core/src/from_std_string.cpp",
          "libs/core/src/type_name_from_info.cpp", "libs/core/src/type_name.cpp"]
    return r


HARNESS = {"src": "harness/c03.cpp", "repo_srcs": _repo_srcs(), "flags": ["-g1"], "libs": []}
TIE = ("hand-written model (FcpptModel/Model/C03.lean) + differential correspondence against real typed fcppt::options parsers; "
       "the C++ parsers (eight generated translation units) and the Lean OP terms are generated from one shape list (tools/gen_c03_shapes.py)")
RULE = ("ex sid n k <alphabet> <prefix>: digest over all argument vectors of length n over the shape's alphabet that start with the prefix; "
        "perm / weave: digest over all orders of a vector / all merges of two vectors. Each vector's line = result of parse()/parse_help() "
        "(record, or the text of the options::error through its operator<<, or the help text) plus the result of the parser's own parse "
        "member (record, remaining arguments, missing-vs-other with the state and text the error carries), optionally under an explicit "
        "parse_context (sid@names). info: flag_names / option_names / usage / name accessors of every constructed object. Exhaustive for "
        "every length <= 4 (quick) / <= 6 (thorough) over the core alphabet for every shape, shorter over the extended, near-miss, numeric, "
        "white-space alphabets and the explicit contexts; longer vectors structured (permutations, woven tokens) and sampled. "
        "distinct = distinct op lines (digest lines weigh the number of vectors they cover).")
ASSUMPTIONS = [
    "operator>> of std::string / int / unsigned: skips leading classic-locale white space, reads one word (validated by the exhaustive-space batches)",
    "num_get for int/unsigned in the classic locale: [+-]?[0-9]+, whole token, range-checked; a negative unsigned wraps modulo 2^32 (libstdc++)",
    "std::find / vector::erase / std::set membership behave as their standard specifications (modelled as list split and list membership)",
    "records are compared by label: the order in which fcppt lists the elements of a product record is not observed",
]
TRUSTED = ["harness/c03.cpp, the generated shape table (tools/gen_c03_shapes.py) and the digest/line protocol (vh.hpp, Proto.lean)",
           "g++ 12 + ASan/UBSan as witness for memory safety of the instantiations"]


def regenerate():
    ch = G.regenerate(check_only=False)
    return {"regenerated": [os.path.relpath(c, paths.ROOT) for c in ch], "shapes": len(SHAPES)}


BASE = ["5", "foo", "-", "--", "--zz"]
_SEEN_HANG = {"lines": 0, "diverge": 0}


def shape_of(op):
    t = op.split()
    try:
        return SHAPES[int(t[1].split("@")[0])]
    except (IndexError, ValueError):
        return None


def alphabets(s):
    """(core alphabet used up to the full length, extended alphabet used for short vectors)"""
    own = G.own_tokens(s)
    tys = G.value_types(s)
    core = own[:5] + BASE + ["-3"] + (["red"] if "enm" in tys else [])
    ext = list(own) + BASE + ["~", "-q", "-3", "red", "007", "+5", "5x", "99999999999"]
    # the other dash form of every own name (--x for -x, -x for --x): is_short must be told apart
    for t in own:
        if t.startswith("--"):
            ext.append("-" + t[2:])
        elif t.startswith("-"):
            ext.append("--" + t[1:])
    if "enm" in tys:
        ext.append("blue")
    if "uns" in tys:
        ext.append("4294967296")
    if "int" in tys:
        ext.append("-2147483648")
    dedup = []
    for t in ext:
        if t not in dedup:
            dedup.append(t)
    return core, dedup


def ex_ops(sid, n, alpha, per_op=12000):
    """digest ops covering all vectors of length n over alpha, split by prefixes so that one op covers <= per_op vectors"""
    k = len(alpha)
    plen = 0
    while k ** (n - plen) > per_op and plen < n:
        plen += 1
    head = f"ex {sid} {n} {k} " + " ".join(alpha)
    prefixes = [[]]
    for _ in range(plen):
        prefixes = [p + [t] for p in prefixes for t in alpha]
    return [(head + " " + " ".join(p)).rstrip() for p in prefixes]


def _fact(n):
    r = 1
    for i in range(2, n + 1):
        r *= i
    return r


def _binom(n, k):
    return _fact(n) // (_fact(k) * _fact(n - k))


def weight(op):
    t = op.split()
    if t[0] == "ex":
        n, k = int(t[2]), int(t[3])
        return k ** (n - (len(t) - 4 - k))
    if t[0] == "perm":
        return _fact(len(t) - 2)
    if t[0] == "weave":
        e = int(t[2])
        return _binom(len(t) - 3, e)
    return 1


def _perms(toks):
    if not toks:
        return [[]]
    r = []
    for i in range(len(toks)):
        for q in _perms(toks[:i] + toks[i + 1:]):
            r.append([toks[i]] + q)
    return r


def _weaves(e, b):
    if not e and not b:
        return [[]]
    r = []
    if e:
        r += [[e[0]] + w for w in _weaves(e[1:], b)]
    if b:
        r += [[b[0]] + w for w in _weaves(e, b[1:])]
    return r


def refine(op):
    t = op.split()
    if t[0] == "perm":
        return [("run " + t[1] + " " + " ".join(v)).rstrip() for v in _perms(t[2:])]
    if t[0] == "weave":
        e = int(t[2])
        return [("run " + t[1] + " " + " ".join(v)).rstrip() for v in _weaves(t[3:3 + e], t[3 + e:])]
    if t[0] != "ex":
        return None
    n, k = int(t[2]), int(t[3])
    alpha, pre = t[4:4 + k], t[4 + k:]
    if len(pre) == n:
        return [("run " + t[1] + " " + " ".join(pre)).rstrip()]
    return [" ".join(t + [a]) for a in alpha]


def nontrivial(op, model_line):
    t = op.split()
    if t[0] == "hang":
        _SEEN_HANG["lines"] += 1
        if model_line.startswith("diverge"):
            _SEEN_HANG["diverge"] += 1
    s = shape_of(op)
    return s is not None and not model_line.startswith("exc:")


def _known_entry(findings):
    for f in findings:
        if f.get("status") == "known" and f.get("property") == "C03":
            return f
    return None


def known_finding_lines(findings, ev):
    """The hang batch runs on every check: the model predicts `diverge`, the harness prints TIMEOUT (the runner treats the
    two as agreement; any other combination is a VIOLATION).  The property is violated there all the same, so the
    listed finding is printed whenever the batch ran."""
    f = _known_entry(findings)
    if f is not None and _SEEN_HANG["diverge"] > 0:
        return [f["line"]]
    return []


def classify(violation, findings):
    """Only a hang of a many-of-nonconsuming shape is the known finding; everything else stays a violation."""
    if violation.get("kind") != "input" or not violation.get("ops"):
        return None
    op = violation["ops"][-1]
    s = shape_of(op)
    if s is None or op.split()[0] not in ("run", "hang") or not G.has_bad_many(s["p"]):
        return None
    obs = (violation.get("observed") or [""])[-1]
    if obs != "TIMEOUT":
        return None
    return _known_entry(findings)


def rand_vector(r, s, ext, lo, hi):
    own = G.own_tokens(s)
    optnames = []
    for l in G.leaves(s["p"]):
        if l[0] == "opt":
            optnames.append("--" + l[3])
            if l[2] is not None:
                optnames.append("-" + l[2])
    values = ["5", "foo", "-3", "red", "12", "bar", "0", "blue", "--zz", "-"]
    n = r.range(lo, hi)
    v = []
    while len(v) < n:
        k = r.below(10)
        if k < 4 and own:
            t = r.choice(own)
        elif k < 8:
            t = r.choice(values)
        else:
            t = r.choice(ext)
        v.append(t)
        if t in optnames and r.chance(3, 4):
            v.append(r.choice(values + own[:2]))
    return v[:hi]



# ------------------------------------------------------------------ structured inputs

_VALS = {"int": ["5", "12"], "uns": ["7", "3"], "str": ["foo", "bar"], "enm": ["red", "blue"]}


def valid_vector(p, alt, cnt=None):
    """a vector the parser is meant to accept; `alt` picks the variant (short names, right alternative of a sum,
    which sub-command, how many iterations of a many, optional absent)"""
    if cnt is None:
        cnt = [0]
    p = G.norm(p)
    k = p[0]

    def val(ty):
        cnt[0] += 1
        return _VALS[ty][(cnt[0] + alt) % 2]

    def name(sh, lg):
        return "-" + sh if (alt % 2 == 1 and sh is not None) else "--" + lg

    if k == "arg":
        return [val(p[2])]
    if k in ("flag", "switch"):
        return [] if alt == 2 else [name(p[2], p[3])]
    if k == "uswitch":
        return [name(p[2], p[3])]
    if k == "opt":
        if alt == 2 and p[5] is not None:
            return []
        return [name(p[2], p[3]), val(p[4])]
    if k == "unit":
        return []
    if k == "optional":
        return [] if alt == 2 else valid_vector(p[1], alt, cnt)
    if k == "many":
        return sum((valid_vector(p[1], alt, cnt) for _ in range(2 if alt == 0 else 1)), [])
    if k == "prod":
        return valid_vector(p[1], alt, cnt) + valid_vector(p[2], alt, cnt)
    if k == "sum":
        return valid_vector(p[3] if alt == 1 else p[2], alt, cnt)
    if k == "commands":
        n, _, q, _ = p[2][alt % len(p[2])]
        return valid_vector(p[1], alt, cnt) + [n] + valid_vector(q, alt, cnt)
    raise ValueError(k)


def base_vectors(s, maxlen):
    r = []
    for alt in (0, 1, 2):
        v = valid_vector(s["p"], alt)[:maxlen]
        if v not in r:
            r.append(v)
    return r


def option_names(s):
    r = []
    for l in G.leaves(s["p"]):
        if l[0] == "opt":
            r.append("--" + l[3])
            if l[2] is not None:
                r.append("-" + l[2])
    return r


def woven(s, quick):
    """token groups woven into the base vectors at every position: every own name once and twice (repeated flags and
    options), option names with a value / a flag-like value / another own name as value, foreign tokens, pairs of own names"""
    own = G.own_tokens(s)
    es = []
    for t in own:
        es += [[t], [t, t]]
    for o in option_names(s):
        es += [[o, "5"], [o, "-3"], [o, own[0]], [o, o]]
    es += [[x] for x in ("5", "foo", "-", "--", "--zz", "-3", "~")]
    pairs = [[a, b] for a in own for b in own if a != b]
    es += pairs[:(8 if quick else 40)]
    r = []
    for e in es:
        if e not in r:
            r.append(e)
    return r


def near_alphabet(s, cap):
    """own names and their near misses (one character more, one character less): every comparison with a name has a
    token just beside it"""
    own = G.own_tokens(s)[:cap]
    r = list(own)
    for t in own:
        for m in (t + "x", t[:-1]):
            if m and m not in r and m not in ("-", "--"):
                r.append(m)
    for t in ("5", "foo"):
        if t not in r:
            r.append(t)
    return r


def contexts(s):
    """explicit parse_contexts for the parser's own parse member: none at all, foreign names, the own option names in the
    other dash form, the own flag names as if they were options, everything"""
    own = [t for t in G.own_tokens(s) if t.startswith("-")]
    opts = option_names(s)
    flip = []
    for t in opts:
        flip.append("-" + t[2:] if t.startswith("--") else "--" + t[1:])
    flags = [t for t in own if t not in opts]
    cs = ["", "--zz,-q,-3"]
    for c in (flip, flags, own + ["--zz"]):
        if c:
            x = ",".join(c)
            if x not in cs:
                cs.append(x)
    return cs


def has_positional(s):
    return any(l[0] == "arg" for l in G.leaves(s["p"])) or bool(G.command_names(s["p"]))


HANG_LINES = ["hang 62", "hang 63", "hang 64", "hang 65 foo", "hang 62 --f --f", "hang 63 --o 5"]
HANG_SHAPES_TERMINATING = ["run 63 --o", "run 63 --o x", "run 63 5 --o", "run 64 foo", "run 64 5 foo", "run 65", "run 65 foo bar", "run 65 -x"]


def batches(rng, tier):
    thorough = tier == "thorough"
    _SEEN_HANG["lines"] = 0
    _SEEN_HANG["diverge"] = 0
    full = 6 if thorough else 4
    short = 4 if thorough else 3
    # 1. constructors: every shape once on the empty vector (ctor shapes: that is all there is to observe)
    yield Batch("construct", [f"run {s['id']}" for s in SHAPES if s["kind"] != "hang"], exhaustive=True,
                note="every shape constructed once; the `ctor` shapes are the ill-/well-formed definitions")
    # 2. exhaustive vectors
    for n in range(0, full + 1):
        ops = []
        for s in SHAPES:
            if s["kind"] == "hang" or (s["kind"] == "ctor" and n > 3):
                continue
            core, _ = alphabets(s)
            ops += ex_ops(s["id"], n, core)
        yield Batch(f"exhaustive-core-len{n}", ops, exhaustive=True, note=f"all vectors of length {n} over each shape's core alphabet (own names, 5, foo, -, --, --zz, -3, red)")
    for n in range(1, short + 1):
        ops = []
        for s in SHAPES:
            if s["kind"] != "ok":
                continue
            _, ext = alphabets(s)
            ops += ex_ops(s["id"], n, ext)
        yield Batch(f"exhaustive-ext-len{n}", ops, exhaustive=True, note=f"all vectors of length {n} over each shape's extended alphabet (all own names in both dash forms, empty string, numbers at the type limits, enum names, ...)")
    # 3. longer random vectors
    r = rng.fork("long")
    per = 400 if thorough else 60
    ops = []
    for s in SHAPES:
        if s["kind"] != "ok":
            continue
        _, ext = alphabets(s)
        for _ in range(per):
            ops.append(f"run {s['id']} " + " ".join(rand_vector(r, s, ext, 7, 16)))
    yield Batch("random-long", ops, note="seeded vectors of length 7..16, option names mostly followed by a value")
    # 3b. the static interface of every constructed object
    yield Batch("info", [f"info {s['id']}" for s in SHAPES if s["kind"] != "hang"], exhaustive=True,
                note="flag_names() / option_names() of every parser object of every shape in construction order, names of the sub_commands")
    # 3b'. the comparison operators of option_name on all ordered pairs; the public is_option
    names = ["--a", "-a", "--b", "-b", "--ab", "-ab", "--", "-", "--A", "-aa"]
    yield Batch("option-name-order", ["oncmp " + " ".join(names), "oncmp", "oncmp --x", "oncmp -x --x -x"], exhaustive=True,
                note="operator== and operator< of option_name on all ordered pairs of 10 names (same text short/long, prefixes, empty name, case)")
    yield Batch("is-option", ["isopt a -a --a - -- ~ 5 -5 +5 a-b -~ =-"], exhaustive=True, note="fcppt::options::is_option")
    # 3b''. numeric conversion at the limits of the value types
    nums = ["0", "-0", "+0", "-1", "2147483647", "2147483648", "-2147483648", "-2147483649", "4294967295", "4294967296",
            "-4294967295", "-4294967296", "00000000005", "1e3", "0x10", "5.", "+", "+-5", "18446744073709551616"]
    for n in (1, 2, 3):
        ops = []
        for s in SHAPES:
            if s["kind"] != "ok" or not (set(G.value_types(s)) & {"int", "uns"}):
                continue
            al = option_names(s)[:3] + (nums if n < 3 else nums[:8])
            ops += ex_ops(s["id"], n, al)
        yield Batch(f"exhaustive-numeric-len{n}", ops, exhaustive=True, note=f"all vectors of length {n} over the option names and numbers at and beyond the limits of int / unsigned, signs, leading zeros, non-decimal spellings")
    # 3b3. white space inside tokens (operator>> skips leading blanks and stops at the next one)
    spaces = ["\\sx", "x\\s", "a\\sb", "\\s", "\\s5", "5\\s", "\\t5", "5\\t\\s", "\\s-x", "\\n", "red\\s", "\\sred", "\\s\\s7", "5", "ä", "-ä", "--ä"]
    for n in range(1, (3 if thorough else 2) + 1):
        ops = []
        for s in SHAPES:
            if s["kind"] != "ok" or not G.value_types(s):
                continue
            ops += ex_ops(s["id"], n, G.own_tokens(s)[:4] + spaces)
        yield Batch(f"exhaustive-space-len{n}", ops, exhaustive=True, note=f"all vectors of length {n} over own names and tokens with blanks, tabs, line breaks in front of, inside and behind a value")
    # 3c. near misses of every name
    for n in range(1, (4 if thorough else 3) + 1):
        ops = []
        for s in SHAPES:
            if s["kind"] != "ok":
                continue
            na = near_alphabet(s, 12 if n <= 2 else (6 if thorough else 4))
            ops += ex_ops(s["id"], n, na)
        yield Batch(f"exhaustive-near-len{n}", ops, exhaustive=True, note=f"all vectors of length {n} over own names and their near misses (name + 'x', name without its last character)")
    # 3d. explicit parse contexts for the parser's own parse member
    for n in range(1, (4 if thorough else 3) + 1):
        ops = []
        for s in SHAPES:
            if s["kind"] != "ok" or not has_positional(s):
                continue
            core, _ = alphabets(s)
            for c in contexts(s):
                ops += ex_ops(f"{s['id']}@{c}", n, core)
        yield Batch(f"exhaustive-context-len{n}", ops, exhaustive=True, note=f"Parser::parse with explicit parse_contexts (empty, foreign, own option names in the other dash form, own flag names as options), all vectors of length {n} over the core alphabet")
    # 3e. every order of an accepted vector, every position for additional / repeated tokens
    maxperm = 7 if thorough else 6
    pops, wops = [], []
    for s in SHAPES:
        if s["kind"] != "ok":
            continue
        bases = base_vectors(s, 8)
        h = G.help_of(s)
        if h:
            bases.append(["--" + h[1]] + bases[0][:3])
        for b in bases:
            if len(b) >= 2:
                pops.append(f"perm {s['id']} " + " ".join(b[:maxperm]))
            for e in woven(s, not thorough):
                wops.append(f"weave {s['id']} {len(e)} " + " ".join(e + b))
    yield Batch("permutations", pops, exhaustive=True, note="every order of the tokens of vectors the shape is meant to accept (same multiset, different order)")
    yield Batch("weave", wops, exhaustive=True, note="own names once and twice, option/value pairs, foreign tokens and pairs of own names inserted at every position (and every pair of positions) of accepted vectors")
    # 4. the known finding, under a 2 s watchdog per line; and inputs on which the same shapes do terminate
    yield Batch("hang-shapes-terminating", HANG_SHAPES_TERMINATING, note="many-of-nonconsuming shapes on inputs where an other_error ends the loop")
    r = rng.fork("hang")
    lines = HANG_LINES if thorough else [HANG_LINES[0]] + [r.choice(HANG_LINES[1:])]
    yield Batch("known-hang", lines, note="KNOWN FINDING: many(<parser that succeeds without consuming>) never terminates; harness TIMEOUT = model diverge")


MANIFEST = {
    "level_text": ("Machine-checked proof (Lean 4) over an executable model that mirrors fcppt::options parser by parser (argument, flag/switch, option, "
                   "unit, unit_switch, optional, many, product, sum, commands, parse_to_empty, parse_help, constructors, next_arg/use_flag/use_option, "
                   "usage(), every error / exception text, flag_names()/option_names() as sets, extract_from_string incl. white space): "
                   "for every parser, argument vector, context and fuel a successful parse accounts for every argument index exactly once "
                   "(parse_accounts_all, parse_each_index_exactly_once; parse_ignores_indices: the indices are bookkeeping only), next_arg "
                   "returns exactly the first token that is neither a flag nor the value of an option of the context (next_arg_spec, "
                   "option_value_never_positional), use_flag / use_option take exactly the first occurrence (and the element after it), "
                   "commands gives every sub-command its own names as context (commands_unfold), the constructors accept exactly the "
                   "well-formed definitions (construct_ok_iff_wellformed), optional/many/sum are transactional, parse_help answers with the "
                   "wrapped parser's usage exactly when the vector is the help switch alone (help_only_alone_any, help_text_is_usage), the "
                   "record has exactly the labels of the parser's result type (parse_result_labels), every parser without a many around a "
                   "non-consuming parser terminates (many_terminates) and more fuel never changes a result (parse_fuel_monotone). "
                   "'Same record as the reference' is the differential correspondence: 126 generated typed parser shapes (int, unsigned, "
                   "std::string, enum; parsers by value, by reference, shared, copied, type-erased), all argument vectors up to length 6 over "
                   "each shape's alphabet (thorough; 4 in quick), near misses of every name, numeric limits, white space, explicit contexts, "
                   "all permutations and woven repetitions of accepted vectors, the static interface of every constructed object; every "
                   "text the library builds (usage, help, error, exception) is compared character by character."),
    "level_note": ("Trusted: Lean kernel + propext/Classical.choice/Quot.sound; fidelity of the hand-written model outside the exercised inputs; "
                   "harness, shape generator and digest protocol; libstdc++ num_get / operator>> modelled as [ws]*[+-]?[0-9]+ with range check. "
                   "Open known finding: many(<parser that succeeds without consuming>) does not terminate (model: diverge for every fuel, "
                   "harness: TIMEOUT). No sorry/axiom/native_decide."),
    "technique": "Lean 4 proof over hand-written executable model + exhaustive differential correspondence (ASan/UBSan harness)",
    "design_ref": "DESIGN.md §5 C03, Appendix A.2",
}
