"""C03 — command-line parsing accounts for every argument and matches its reference."""
import glob
import importlib.util
import os

from vlib import paths
from vlib.runner import Batch

ID = "C03"
LEAN_PROPS = ["FcpptProofs.Props.C03"]


def _load_gen():
    p = os.path.join(paths.ROOT, "tools", "gen_c03_shapes.py")
    spec = importlib.util.spec_from_file_location("gen_c03_shapes", p)
    m = importlib.util.module_from_spec(spec)
    spec.loader.exec_module(m)
    return m


G = _load_gen()
SHAPES = G.SHAPES


def _repo_srcs():
    r = []
    for pat in ("libs/options/src/options/*.cpp", "libs/options/src/options/detail/*.cpp", "libs/options/impl/src/options/impl/*.cpp"):
        r += sorted(os.path.relpath(f, paths.REPO) for f in glob.glob(os.path.join(paths.REPO, pat)))
    r += ["libs/core/src/exception.cpp", "libs/core/src/insert_extract_locale.cpp", "libs/core/src/from_std_string.cpp",
          "libs/core/src/type_name_from_info.cpp", "libs/core/src/type_name.cpp"]
    return r


HARNESS = {"src": "harness/c03.cpp", "repo_srcs": _repo_srcs(), "flags": [], "libs": []}
TIE = ("hand-written model (FcpptModel/Model/C03.lean) + differential correspondence against real typed fcppt::options parsers; "
       "the C++ parsers and the Lean OP terms are generated from one shape list (tools/gen_c03_shapes.py)")
RULE = ("ex sid n k <alphabet> <prefix>: digest over all argument vectors of length n over the shape's alphabet that start with the prefix, "
        "each vector's line = result of parse()/parse_help() plus the result of the parser's own parse member (record, remaining "
        "arguments, missing-vs-other). Exhaustive for every length <= 4 (quick) / <= 6 (thorough) for every shape; longer vectors "
        "sampled. An op is non-trivial unless it is a constructor-only line; distinct = distinct op lines (digest lines weigh k^(n-|prefix|)).")
ASSUMPTIONS = [
    "argument tokens contain no white space (operator>> of std::string reads the whole token)",
    "num_get for int/unsigned in the classic locale: [+-]?[0-9]+, whole token, range-checked; a negative unsigned wraps modulo 2^32 (libstdc++)",
    "std::find / vector::erase / std::set membership behave as their standard specifications (modelled as list split and list membership)",
    "records are compared by label: the order in which fcppt lists the elements of a product record is not observed",
]
TRUSTED = ["harness/c03.cpp, the generated shape table (tools/gen_c03_shapes.py) and the digest/line protocol (vh.hpp, Proto.lean)",
           "g++ 12 + ASan/UBSan as witness for memory safety of the instantiations"]


def regenerate():
    ch = G.regenerate(check_only=False)
    return {"regenerated": [os.path.relpath(c, paths.ROOT) for c in ch], "shapes": len(SHAPES)}


def batches(rng, tier):
    ops = []
    for s in SHAPES:
        if s["kind"] != "hang":
            ops.append(f"run {s['id']}")
            ops.append(f"run {s['id']} 5")
    yield Batch("smoke", ops, note="every shape on [] and [5]")


MANIFEST = {
    "level_text": "",
    "level_note": "",
    "technique": "Lean 4 proof over hand-written executable model + exhaustive differential correspondence (ASan/UBSan harness)",
    "design_ref": "DESIGN.md §5 C03, Appendix A.2",
}
