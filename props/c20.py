"""C20 — random wrappers are transparent and stay within the requested bounds.

The operation lines carry the output of the *equivalent std:: engine/distribution pair* ("tape"): before a
batch is handed to the runner, the harness binary is run on `std ...` oracle lines (code that uses nothing but
<random>) and the numbers are spliced into the operation lines.  The Lean driver then has to reproduce what
the real fcppt templates print (decorated sequence, min/max, parameters that reached the wrapped
distribution, factory results) from the standard pair's numbers alone.
"""
import os
import struct

from vlib import paths as _paths
from vlib.runner import Batch

ID = "C20"
LEAN_PROPS = ["FcpptProofs.Props.C20"]
# second translation unit (compiled in parallel with the first): an absolute path survives os.path.join(REPO, ...) in
# vlib/harness.py, so it is found whatever VERIF_REPO says
HARNESS = {"src": "harness/c20.cpp", "repo_srcs": [os.path.join(_paths.ROOT, "harness", "c20_scripts.cpp")]}
TIE = ("hand-written model (FcpptModel/Model/C20.lean) with the std engine/distribution as parameters + differential "
       "correspondence: the std pair's output is recorded by oracle lines of the same binary and replayed into the model")
RULE = ("XS/IS/RS lines: programs over up to 4 distribution objects, 3 variates and the generator (construct, copy/move construct and assign, "
        "swap, self-assignment, draws in any interleaving, reset, param(p), == / !=, min/max/parameters/operator<<, variates built from used "
        "distributions, copies of variates, direct calls of the generator); XU lines: several uniform_containers on one container that is written to "
        "between draws; G2: two generators side by side; TI: type_iso called directly; "
        "I/EN/C/R/G lines: fcppt's decorated draws, min/max, parameters read from the wrapped distribution and from convert_from, "
        "==/!=, 'both ends seen' (>= 400 draws, interval of <= 17 values), optional-ness and indices of the container factories, "
        "compared with the model fed with the std pair's numbers; X/XE/XC lines: the same templates over a counter engine and a "
        "modulo distribution that exist in C++ and in Lean, fully predicted. Exhaustive: all intervals -8<=a<=b<=8 over short/int/long, "
        "all sub-intervals of enums of size 1..9, make_uniform_enum for sizes 1..9, containers of size 0..6 (x both engines in the "
        "thorough tier). evaluations = number of draws; an op is non-trivial if it draws at least one value or hits the empty-container branch.")
ASSUMPTIONS = [
    "the std engines/distributions are opaque parameters; a distribution sees its generator only through operator(), min(), max()",
    "[rand.req.dist] param round trip and [rand.dist.uni.int] a <= x <= b are hypotheses of the range theorems (never proved about libstdc++)",
    "'reaches both ends' is a statistical observation: 400 draws from at most 17 values miss an end with probability < 2e-10 per op",
    "values of short/int/long are mathematical integers in the type's range (fcppt does no arithmetic on them except size()-1 behind !empty())",
    "floating-point values are compared and modelled as bit patterns",
]
TRUSTED = ["harness/c20.cpp + c20_scripts.cpp + c20_common.hpp incl. their std-only oracle lines, and the line protocol (vh.hpp, Proto.lean)",
           "g++ 12 + ASan/UBSan/_GLIBCXX_ASSERTIONS as witness for memory safety and for the preconditions of the std distributions"]

LIMITS = {"s": (-(1 << 15), (1 << 15) - 1), "i": (-(1 << 31), (1 << 31) - 1), "l": (-(1 << 63), (1 << 63) - 1)}
ENGINES = ["minstd", "mt"]
CTORS = ["v", "v2", "vp", "mk", "d"]
DECOS = ["p", "s", "ss"]
U64 = (1 << 64) - 1


# ---------------------------------------------------------------- specs -> oracle line, final line

class Spec:
    """kind: I, R, EN, C, G (need an oracle) or RAW (complete line, no oracle)."""

    def __init__(self, kind, **kw):
        self.kind = kind
        self.__dict__.update(kw)

    def oracle(self):
        k = self.kind
        segs = lambda: " ".join(f"{a}:{x}:{y}:{n}" for a, x, y, n in self.segs)
        if k == "I":
            return f"std I {self.t} {self.eng} {self.seed} {segs()}"
        if k == "R":
            return f"std R {self.dk} {self.t} {self.eng} {self.seed} {segs()}"
        if k == "EN":
            return f"std I i {self.eng} {self.seed} new:0:{self.k - 1}:{self.n}"
        if k == "C":
            return None if not self.elems else f"std I z {self.eng} {self.seed} new:0:{len(self.elems) - 1}:{self.n}"
        if k == "G":
            return f"std G {self.eng} {self.mode} {self.seed} {self.n}"
        if k == "IS":
            return f"std IS {self.t} {self.eng} {self.seed} " + " ".join(self.acts) if _needs_tape(self.acts) else None
        if k == "RS":
            return f"std RS {self.dk} {self.t} {self.eng} {self.seed} " + " ".join(self.acts) if _needs_tape(self.acts) else None
        if k == "G2":
            return f"std G2 {self.eng} {self.s0} {self.s1} {self.pat}"
        return None

    def final(self, out):
        k = self.kind
        if k == "RAW":
            return self.line
        if k in ("I", "R"):
            tapes = out.split("|")
            if len(tapes) != len(self.segs):
                raise RuntimeError(f"oracle answered {out!r} for {self.oracle()!r}")
            st = " ".join(f"{a}:{x}:{y}:{n}:{t}" for (a, x, y, n), t in zip(self.segs, tapes))
            if k == "I":
                return f"I {self.t} {self.deco} {self.eng} {self.seed} {self.ctor} {st}"
            return f"R {self.dk} {self.t} {self.deco} {self.eng} {self.seed} {self.ctor} {st}"
        if k == "EN":
            return f"EN {self.k} {self.eng} {self.seed} {self.ctor} {self.n}:{out}"
        if k == "C":
            el = ",".join(map(str, self.elems)) if self.elems else "-"
            return f"C {self.ct} {self.eng} {self.seed} {el} {self.n}:{out if self.elems else '-'}"
        if k == "G":
            return f"G {self.eng} {self.mode} {self.seed} {self.n}:{out}"
        if k in ("IS", "RS"):
            tapes = out.split("|")[1:] if out else []
            acts, it = [], iter(tapes)
            try:
                for a in self.acts:
                    acts.append(a + ":" + next(it) if a.split(":")[0] in TAPED else a)
            except StopIteration:
                raise RuntimeError(f"oracle answered {out!r} for {self.oracle()!r}")
            if next(it, None) is not None:
                raise RuntimeError(f"oracle answered {out!r} for {self.oracle()!r}")
            if k == "IS":
                return f"IS {self.t} {self.deco} {self.eng} {self.seed} " + " ".join(acts)
            return f"RS {self.dk} {self.t} {self.deco} {self.eng} {self.seed} " + " ".join(acts)
        if k == "G2":
            return f"G2 {self.eng} {self.s0} {self.s1} {self.pat} {out}"
        raise AssertionError(k)


TAPED = ("d", "d1", "w", "g", "g1")


def _needs_tape(acts):
    return any(a.split(":")[0] in TAPED for a in acts)


_BIN = [None]


def _harness():
    if _BIN[0] is None:
        from vlib import harness as hbuild
        binp, info = hbuild.build(HARNESS)
        if binp is None:
            raise RuntimeError(f"harness build failed in batches(): {info}")
        _BIN[0] = binp
    return _BIN[0]


def materialise(specs):
    """Run the oracle lines, splice the tapes in."""
    from vlib.runner import run_harness
    need = [(i, s.oracle()) for i, s in enumerate(specs)]
    need = [(i, o) for i, o in need if o is not None]
    outs = {}
    if need:
        lines, deaths = run_harness(_harness(), [o for _, o in need])
        for (i, o), l in zip(need, lines):
            if deaths or l is None or l.startswith(("bad-op", "exc:", "CRASH", "TIMEOUT", "NOT-RUN")):
                raise RuntimeError(f"std oracle failed on {o!r}: {l!r}")
            outs[i] = l
    return [s.final(outs.get(i, "")) for i, s in enumerate(specs)]


# ---------------------------------------------------------------- random ingredients

def seed_for(r, eng=None):
    k = r.below(10)
    if k == 0:
        return r.choice([0, 1, 2, (1 << 31) - 2, (1 << 31) - 1, 1 << 31, (1 << 32) - 1, 1 << 32, U64])
    if k < 5:
        return r.below(1 << 16)
    if k < 8:
        return r.below(1 << 32)
    return r.next()


def interval(r, t, wide=True):
    lo, hi = LIMITS[t]
    k = r.below(10)
    if k < 4 or not wide:
        a = r.range(-8, 8)
        return a, r.range(a, 8)
    if k < 6:
        a = r.range(-300, 300)
        return a, a + r.below(40)
    if k < 8:        # touching a limit
        w = r.choice([0, 1, 2, 16, 17, 255])
        return (lo, lo + w) if r.chance(1, 2) else (hi - w, hi)
    if k == 8:
        return r.choice([(lo, hi), (lo, 0), (0, hi), (lo + 1, hi - 1), (-1, hi), (lo, -1), (lo, hi - 1), (lo + 1, hi)])
    a = r.range(lo, hi)
    return a, r.range(a, hi)


def f2bits(x, t):
    return struct.unpack("<I", struct.pack("<f", x))[0] if t == "f" else struct.unpack("<Q", struct.pack("<d", x))[0]


def bits2f(b, t):
    return struct.unpack("<f", struct.pack("<I", b))[0] if t == "f" else struct.unpack("<d", struct.pack("<Q", b))[0]


def real_params(r, dk, t):
    """two bit patterns: uniform_real (a < b), normal (mean, stddev > 0)"""
    def val():
        k = r.below(6)
        m = (r.below(2_000_001) - 1_000_000) / r.choice([1.0, 7.0, 1000.0, 65536.0])
        return 0.0 if k == 0 else float(r.range(-5, 5)) if k == 1 else m
    a = bits2f(f2bits(val(), t), t)
    if dk == "ur":
        w = r.choice([1.0, 0.5, 3.25, 1e-3, 1000.0, 1e6]) * (1 + r.below(1000) / 1000.0)
        b = bits2f(f2bits(a + w, t), t)
        if not b > a:
            b = bits2f(f2bits(a + max(1.0, abs(a)), t), t)
        return f2bits(a, t), f2bits(b, t)
    sd = bits2f(f2bits(r.choice([1.0, 0.5, 2.5, 1e-3, 100.0]) * (1 + r.below(1000) / 1000.0), t), t)
    return f2bits(a, t), f2bits(sd, t)


def history(r, t, ctor, draw_hi=40, wide=True):
    """segments for an I/X op"""
    nseg = r.range(1, 5) if r.chance(2, 3) else 1
    segs = []
    cur = None
    for i in range(nseg):
        act = "new" if i == 0 or ctor != "d" else r.choice(["new", "set", "set", "rst"])
        if act != "rst":
            cur = interval(r, t, wide)
        n = r.choice([0, 1, 2]) if r.chance(1, 6) else r.range(3, draw_hi)
        segs.append((act, cur[0], cur[1], n))
    return segs


# ---------------------------------------------------------------- scripts over several objects

DIST_SLOTS, VAR_SLOTS = 4, 3


class ScriptState:
    """Symbolic state while a script is generated: which slots are filled, and (for normal_distribution, whose
    operator== also looks at a cached value) a token `sid` per object that is 0 when the object carries no state
    beyond its parameters and is shared exactly by copies that nothing was drawn from since."""

    def __init__(self):
        self.ds, self.vs, self.k = {}, {}, 0

    def fresh(self):
        self.k += 1
        return self.k


def random_script(r, nacts, params, stateful_eq=True, max_draws=6):
    """params(): -> (a, b) textual.  stateful_eq=False: only emit `e` where equality of the parameters decides."""
    st = ScriptState()
    acts = []

    def any_d():
        return r.choice(sorted(st.ds))

    def any_v():
        return r.choice(sorted(st.vs))

    def ndraws():
        return r.choice([1, 1, 2, 3]) if r.chance(3, 4) else r.range(0, max_draws)

    while len(acts) < nacts:
        k = r.below(100)
        if not st.ds or k < 10:
            i = r.below(DIST_SLOTS)
            a, b = params()
            acts.append(f"{r.choice(['n', 'n2', 'mk'])}:{i}:{a}:{b}")
            st.ds[i] = [(a, b), 0]
        elif k < 36:
            i = any_d()
            n = ndraws()
            acts.append(f"{r.choice(['d', 'd', 'd1'])}:{i}:{n}")
            if n:
                st.ds[i][1] = st.fresh()
        elif k < 48:
            kind = r.choice(["cc", "ca", "mc", "ma", "sw", "ca", "cc"])
            j = any_d()
            if kind in ("cc", "mc"):
                i = r.choice([x for x in range(DIST_SLOTS) if x != j])
                st.ds[i] = list(st.ds[j])
            elif kind == "ca":
                i = any_d()                       # i == j: self-assignment
                st.ds[i] = list(st.ds[j])
            elif kind == "ma":
                cand = [x for x in sorted(st.ds) if x != j]
                if not cand:
                    continue
                i = r.choice(cand)
                st.ds[i] = list(st.ds[j])
            else:
                i = any_d()                       # i == j: self-swap
                st.ds[i], st.ds[j] = st.ds[j], st.ds[i]
            acts.append(f"{kind}:{i}:{j}")
        elif k < 54:
            i = any_d()
            acts.append(f"r:{i}")
            st.ds[i][1] = 0
        elif k < 61:
            i = any_d()
            a, b = params()
            acts.append(f"p:{i}:{a}:{b}")
            st.ds[i][0] = (a, b)
        elif k < 69:
            i, j = any_d(), any_d()
            if stateful_eq or st.ds[i][1] == st.ds[j][1]:
                acts.append(f"e:{i}:{j}")
        elif k < 74:
            acts.append(f"q:{any_d()}")
        elif k < 81:
            kk = r.below(VAR_SLOTS)
            if r.chance(1, 4):
                a, b = params()
                acts.append(f"{r.choice(['vp', 'vp1'])}:{kk}:{a}:{b}")
            else:
                acts.append(f"{r.choice(['v', 'vm', 'v1', 'vm1'])}:{kk}:{any_d()}")
            st.vs[kk] = True
        elif k < 85:
            if not st.vs:
                continue
            l = any_v()
            how = r.choice(["vc", "va", "vc", "va", "vx", "vy"])
            if how in ("vc", "vx"):
                kk = r.choice([x for x in range(VAR_SLOTS) if x != l])
            elif how == "va":
                kk = any_v()                      # kk == l: self-assignment
            else:
                cand = [x for x in sorted(st.vs) if x != l]
                if not cand:
                    continue
                kk = r.choice(cand)
            acts.append(f"{how}:{kk}:{l}")
            st.vs[kk] = True
        elif k < 96:
            if not st.vs:
                continue
            acts.append(f"w:{any_v()}:{ndraws()}")
        else:
            acts.append(f"{r.choice(['g', 'g1'])}:{r.range(1, 3)}")
    return acts


def systematic_scripts(iv1, iv2):
    """Programs that tell value semantics from reference semantics, state-preserving from state-losing copies, and
    an operation applied to the object from one applied to a copy.  iv1, iv2: two different intervals (a, b)."""
    (a, b), (c, d) = iv1, iv2
    out = []
    # every way to obtain a second distribution object from a first one that has drawn k0 values, then both drawn
    # from in turn (target first / source first), then compared and looked at
    for how in ("cc", "ca", "mc", "ma", "sw"):
        for k0 in (0, 1, 2):
            for order in ("ts", "st"):
                pre = [f"n:0:{a}:{b}", f"d:0:{k0}"]
                if how in ("ca", "ma", "sw"):
                    pre += [f"n:1:{c}:{d}", "d:1:1"]
                pre.append(f"{how}:1:0")
                if how in ("mc", "ma"):        # the moved-from object is only assigned to afterwards
                    out.append(pre + ["d:1:2", "q:1", f"n:0:{c}:{d}", "d:0:1", "d:1:1", "e:0:1"])
                    continue
                seq = ["d:1:2", "d:0:2"] if order == "ts" else ["d:0:2", "d:1:2"]
                out.append(pre + ["e:0:1"] + seq + ["e:0:1", "d:1:1", "e:0:1", "e:1:0", "q:0", "q:1"])
    # self-assignment, self-swap, == on the same object, in every state
    for k0 in (0, 1, 3):
        out.append([f"n:0:{a}:{b}", f"d:0:{k0}", "ca:0:0", "d:0:2", "sw:0:0", "d:0:2", "e:0:0", "q:0"])
    # reset() / param(p) at every position of a short run; param keeps the state, reset drops it
    for k0 in (0, 1, 2, 3):
        out.append([f"n:0:{a}:{b}", f"n:1:{a}:{b}", f"d:0:{k0}", f"d:1:{k0}", "r:0", "e:0:1", "d:0:2", "d:1:2", "e:0:1", "q:0"])
        out.append([f"n:0:{a}:{b}", f"n:1:{a}:{b}", f"d:0:{k0}", f"d:1:{k0}", f"p:0:{c}:{d}", "e:0:1", "q:0", "d:0:2", "d:1:2",
                    f"p:0:{a}:{b}", "e:0:1", "r:0", "r:1", "e:0:1", "d:0:1", "d:1:1"])
    # a variate is built from a distribution in whatever state it is, holds its own copy, shares the generator
    for mk in ("v", "vm"):
        for k0 in (0, 1, 2):
            out.append([f"n:0:{a}:{b}", f"d:0:{k0}", f"{mk}:0:0", "w:0:2", "d:0:2", "w:0:1", "g:1", "w:0:1", "d:0:1", "e:0:0"])
    out.append([f"vp:0:{a}:{b}", "w:0:3", f"n:0:{a}:{b}", "d:0:3", "vp:1:{0}:{1}".format(c, d), "w:1:2", "w:0:1"])
    # copies of variates continue from the state of the original; both keep using the one generator
    for how in ("vc", "va", "vx", "vy"):
        for k0 in (0, 1, 2):
            pre = [f"n:0:{a}:{b}", "v:0:0", f"w:0:{k0}"]
            if how in ("va", "vy"):
                pre += [f"vp:1:{c}:{d}", "w:1:1"]
            if how in ("vx", "vy"):             # the moved-from variate is only assigned to afterwards
                out.append(pre + [f"{how}:1:0", "w:1:2", f"vp:0:{c}:{d}", "w:0:1", "w:1:1", "g:1", "va:0:1", "w:0:1", "w:1:1"])
            else:
                out.append(pre + [f"{how}:1:0", "w:1:2", "w:0:2", "w:1:1", "g:1", "w:0:1"])
    for k0 in (0, 1, 3):
        out.append([f"n:0:{a}:{b}", "v:0:0", f"w:0:{k0}", "va:0:0", "w:0:2"])
    # two generators: a variate keeps referring to the generator it was built on; copying / assigning / moving a variate
    # takes over the source's generator as well as its distribution; a distribution object can be used with either
    for how in ("vc", "va", "vx", "vy"):
        for k0 in (0, 1, 2):
            pre = [f"n:0:{a}:{b}", "v:0:0", "v1:1:0", f"w:0:{k0}", "w:1:1", "g:1", "g1:1"]
            if how in ("vc", "vx"):
                out.append(pre + [f"{how}:2:1", "w:2:2", "g1:1", "g:1", "w:0:1"] + ([] if how == "vx" else ["w:1:2", "g1:1"]))
            else:
                out.append(pre + [f"{how}:0:1", "w:0:2", "g1:1", "g:1"] + ([] if how == "vy" else ["w:1:2", "g1:1", "g:1"]))
    out.append([f"n:0:{a}:{b}", "d:0:2", "d1:0:2", "d:0:1", "g:1", "g1:1", f"vp1:0:{c}:{d}", "vm1:1:0", "w:0:2", "w:1:2", "g1:1", "g:1", "e:0:0"])
    # three objects drawn from round-robin: one generator, three independent states
    out.append([f"n:0:{a}:{b}", f"n:1:{a}:{b}", f"n2:2:{c}:{d}", "v:0:1"] + ["d:0:1", "w:0:1", "d:2:1", "g:1", "d:1:1"] * 3 + ["e:0:1", "e:0:2", "q:2"])
    return out


def eq_scripts(values):
    """== / != on every ordered pair of intervals over `values`, fresh and after draws / reset / param."""
    return eq_scripts_of([(x, y) for x in values for y in values if x <= y])


def eq_scripts_of(ivs, stateless_only=False):
    """stateless_only: compare only objects that carry nothing but their parameters (fresh or reset)."""
    out = []
    for (a, b) in ivs:
        for (c, d) in ivs:
            if stateless_only:
                out.append([f"n:0:{a}:{b}", f"n:1:{c}:{d}", "e:0:1", "e:1:0", "e:0:0", "d:0:1", "d:1:1", "e:0:0", "r:0", "r:1", "e:0:1",
                            f"p:0:{c}:{d}", "e:0:1", f"p:1:{a}:{b}", "e:1:0", "cc:2:0", "e:2:0", "d:0:1", "ca:2:0", "e:0:2"])
            else:
                out.append([f"n:0:{a}:{b}", f"n:1:{c}:{d}", "e:0:1", "e:1:0", "e:0:0", "d:0:1", "e:0:1", "d:1:1", "e:0:1", "r:0", "e:0:1",
                            "r:1", "e:0:1", f"p:0:{c}:{d}", "e:0:1", f"p:1:{a}:{b}", "e:1:0"])
    return out


def container_scripts_systematic():
    out = []
    for size in range(0, 7):
        elems = [10 * (k + 1) for k in range(size)]
        el = ",".join(map(str, elems)) or "-"
        for cm in "cm":
            if size == 0:
                out.append((cm, el, ["f:0"]))
                out.append((cm, el, ["f:0", "f:1", "f:0"]))
                continue
            # factory, draws, a copy made after k0 draws continues like the original, both share the container
            for k0 in (0, 1, 2):
                # the generator is the program's: what it yields after k0 draws shows how far the wrapper advanced it
                out.append((cm, el, ["f:0", f"d:0:{k0}", "g:1", "d:0:1", "g:2"]))
                out.append((cm, el, ["f:0", f"d:0:{k0}", "cc:1:0", "d:1:3", "d:0:3", "ca:0:0", "d:0:2"]))
                out.append((cm, el, ["f:0", "f:1", f"d:0:{k0}", "d:1:1", "ca:1:0", "d:1:3", "d:0:3"]))
                out.append((cm, el, ["f:0", f"d:0:{k0}", "mc:1:0", "d:1:3", "f:0", "d:0:1", "ma:0:1", "d:0:2"]))
            # the wrapper sees later writes to the container (it holds a reference, not a copy)
            acts = ["f:0", "d:0:2"] + [f"w:{k}:{-(k + 1)}" for k in range(size)] + ["d:0:8"]
            out.append((cm, el, acts))
            if cm == "m":
                out.append((cm, el, ["f:0"] + [f"t:0:{100 + k}" for k in range(2 * size)] + ["d:0:6"]))
            # the public constructor with every index interval inside the container
            if size <= 4:
                for lo in range(size):
                    for hi in range(lo, size):
                        out.append((cm, el, [f"k:0:{lo}:{hi}", "d:0:7", "f:1", "d:1:2", "ca:1:0", "d:1:4"]))
    return out


def random_cscript(r, size, mutable, nacts):
    acts, filled = [], set()
    while len(acts) < nacts:
        k = r.below(100)
        if not filled or k < 14:
            i = r.below(3)
            if r.chance(1, 2):
                acts.append(f"f:{i}")
            else:
                lo = r.below(size)
                acts.append(f"k:{i}:{lo}:{r.range(lo, size - 1)}")
            filled.add(i)
        elif k < 55:
            acts.append(f"d:{r.choice(sorted(filled))}:{r.range(1, 5)}")
        elif k < 70:
            j = r.choice(sorted(filled))
            how = r.choice(["cc", "ca", "cc", "ca", "mc", "ma"])
            if how in ("cc", "mc"):
                i = r.choice([x for x in range(3) if x != j])
            elif how == "ca":
                i = r.choice(sorted(filled))
            else:
                cand = [x for x in sorted(filled) if x != j]
                if not cand:
                    continue
                i = r.choice(cand)
            acts.append(f"{how}:{i}:{j}")
            filled.add(i)
        elif k < 82:
            acts.append(f"w:{r.below(size)}:{r.range(-999, 999)}")
        elif k < 88:
            acts.append(f"g:{r.range(1, 2)}")
        elif mutable:
            acts.append(f"t:{r.choice(sorted(filled))}:{r.range(-999, 999)}")
    return acts


# ---------------------------------------------------------------- batches

def batches(rng, tier):
    thorough = tier == "thorough"
    _BIN[0] = None

    # 1. all intervals -8 <= a <= b <= 8 over short, int, long  (400 draws each: sequence, bounds, both ends)
    r = rng.fork("small")
    specs = []
    k = 0
    for t in "sil":
        for a in range(-8, 9):
            for b in range(a, 9):
                combos = [(e, d) for e in ENGINES for d in DECOS] if thorough else [(e, DECOS[(k // 2) % 3]) for e in ENGINES]
                for eng, deco in combos * (2 if thorough else 1):
                    specs.append(Spec("I", t=t, deco=deco, eng=eng, seed=seed_for(r), ctor=CTORS[k % 5], segs=[("new", a, b, 400)]))
                    k += 1
    yield Batch("int-small-intervals", materialise(specs), exhaustive=True,
                note="every interval -8<=a<=b<=8 x short/int/long" + (" x both engines x plain/strong/nested strong" if thorough else " x both engines, decoration/ctor rotating") + ", 400 draws")

    # 2. intervals touching the type limits
    r = rng.fork("limits")
    specs = []
    k = 0
    for t in "sil":
        lo, hi = LIMITS[t]
        ivs = [(lo, lo), (lo, lo + 1), (lo, lo + 16), (lo, lo + 17), (hi - 16, hi), (hi - 1, hi), (hi, hi), (lo, hi), (lo, 0), (0, hi),
               (lo + 1, hi - 1), (-1, hi), (lo, -1), (lo, hi - 1), (lo + 1, hi), (-1, 0), (hi - 17, hi)]
        for a, b in ivs:
            for eng in ENGINES:
                for deco in (DECOS if thorough else [DECOS[k % 3]]):
                    specs.append(Spec("I", t=t, deco=deco, eng=eng, seed=seed_for(r), ctor=CTORS[k % 5], segs=[("new", a, b, 400 if b - a <= 16 else 48)]))
                    k += 1
    yield Batch("int-type-limits", materialise(specs), exhaustive=True, note="boundary intervals touching numeric_limits of short/int/long, both engines")

    # 3. enums: every sub-interval of enums of size 1..9, the factory for every size, strong typedef of an enum
    r = rng.fork("enum")
    specs = []
    k = 0
    for n in range(1, 10):
        for a in range(n):
            for b in range(a, n):
                for eng in (ENGINES if thorough else [ENGINES[k % 2]]):
                    specs.append(Spec("I", t="i", deco=f"e{n}", eng=eng, seed=seed_for(r), ctor=CTORS[k % 5], segs=[("new", a, b, 400)]))
                    k += 1
    for a in range(3):
        for b in range(a, 3):
            specs.append(Spec("I", t="i", deco="se3", eng=ENGINES[k % 2], seed=seed_for(r), ctor=CTORS[k % 5], segs=[("new", a, b, 400)]))
            k += 1
    for n in range(1, 10):
        for eng in ENGINES:
            for ctor in ("v", "vp", "d"):
                for _ in range(3 if thorough else 1):
                    specs.append(Spec("EN", k=n, eng=eng, seed=seed_for(r), ctor=ctor, n=400))
    yield Batch("enums", materialise(specs), exhaustive=True,
                note="all enumerator sub-intervals of enums of size 1..9, make_uniform_enum for every size x engine x ctor, 400 draws")

    # 4. containers of size 0..6
    r = rng.fork("cont")
    specs = []
    for ct in ("vc", "vm", "dq", "adv"):
        for size in range(0, 7):
            for eng in ENGINES:
                for _ in range(4 if thorough else 2):
                    lo, hi = (LIMITS["l"] if ct == "vm" else LIMITS["i"])
                    if r.chance(1, 3):      # duplicates: only the address tells the elements apart
                        elems = [r.range(0, 2) for _ in range(size)]
                    elif r.chance(1, 4):
                        elems = [r.choice([lo, hi, 0, -1, lo + 1, hi - 1]) for _ in range(size)]
                    else:
                        elems = [r.range(-1000, 1000) for _ in range(size)]
                    specs.append(Spec("C", ct=ct, eng=eng, seed=seed_for(r), elems=elems, n=r.choice([0, 1, 60, 150])))
    yield Batch("containers", materialise(specs), exhaustive=True,
                note="vector<int> const, vector<long>, deque<int> const, _advanced factories; sizes 0..6 x both engines")

    # 5. histories: several variates on one generator, param()/reset() on a held distribution, wide intervals
    r = rng.fork("hist")
    specs = []
    for _ in range(8000 if thorough else 400):
        t = r.choice("sil")
        ctor = r.choice(CTORS + ["d", "d"])
        deco = r.choice(DECOS)
        specs.append(Spec("I", t=t, deco=deco, eng=r.choice(ENGINES), seed=seed_for(r), ctor=ctor, segs=history(r, t, ctor)))
    for _ in range(300 if thorough else 60):        # enum histories
        n = r.range(1, 9)
        ctor = r.choice(CTORS + ["d"])
        segs = []
        for i in range(r.range(1, 4)):
            act = "new" if i == 0 or ctor != "d" else r.choice(["new", "set", "rst"])
            if act != "rst":
                a = r.below(n)
                cur = (a, r.range(a, n - 1))
            segs.append((act, cur[0], cur[1], r.range(0, 30)))
        specs.append(Spec("I", t="i", deco=f"e{n}", eng=r.choice(ENGINES), seed=seed_for(r), ctor=ctor, segs=segs))
    yield Batch("int-histories", materialise(specs), note="1-5 segments: new variate/distribution on the same generator, param(p), reset(); small, wide and limit intervals")

    # 5b. a large sample of seeds on short runs
    r = rng.fork("seeds")
    specs = []
    for k in range(80000 if thorough else 2500):
        t = "sil"[k % 3]
        a, b = interval(r, t, wide=(k % 4 == 0))
        specs.append(Spec("I", t=t, deco=DECOS[(k // 3) % 3], eng=ENGINES[(k // 9) % 2], seed=(r.next() if k % 2 else r.below(1 << 32)),
                          ctor=CTORS[k % 5], segs=[("new", a, b, 12)]))
    yield Batch("int-many-seeds", materialise(specs), note="one fresh random seed (32 or 64 bit) per op, 12 draws, mostly intervals within [-8,8]")

    # 6. floating point: uniform_real, normal
    r = rng.fork("real")
    specs = []
    for _ in range(5000 if thorough else 240):
        dk, t = r.choice(["ur", "no"]), r.choice("fd")
        ctor = r.choice(CTORS + ["d", "d"])
        segs = []
        for i in range(r.range(1, 4)):
            act = "new" if i == 0 or ctor != "d" else r.choice(["new", "set", "rst", "rst"])
            if act != "rst":
                cur = real_params(r, dk, t)
            segs.append((act, cur[0], cur[1], r.range(0, 9) if r.chance(1, 2) else r.range(10, 40)))
        specs.append(Spec("R", dk=dk, t=t, deco=r.choice(["p", "s"]), eng=r.choice(ENGINES), seed=seed_for(r), ctor=ctor, segs=segs))
    yield Batch("real-normal", materialise(specs), note="uniform_real / normal over float, double, plain and strong typedef; bit patterns; odd draw counts exercise normal's saved value across reset()")

    # 6b. floating point at the edges of the format: signed zeros, denormals, the largest finite values, infinite mean
    r = rng.fork("real-special")
    specs = []
    k = 0
    for t in "fd":
        tiny, big = (1e-45, 3.4028234663852886e38) if t == "f" else (5e-324, 1.7976931348623157e308)
        one_up = bits2f(f2bits(1.0, t) + 1, t)
        vals = [-big, -1.0, -tiny, -0.0, 0.0, tiny, 1.0, one_up, big]
        pairs = [(x, y) for i, x in enumerate(vals) for y in vals[i:] if not (x == -big and y == big)]      # b - a must be finite
        for a, b in pairs:
            specs.append(Spec("R", dk="ur", t=t, deco="ps"[k % 2], eng=ENGINES[k % 2], seed=seed_for(r), ctor=CTORS[k % 5],
                              segs=[("new", f2bits(a, t), f2bits(b, t), 5)]))
            k += 1
        for m in vals + [float("inf"), float("-inf")]:
            for sd in (tiny, 1.0, big):
                specs.append(Spec("R", dk="no", t=t, deco="ps"[k % 2], eng=ENGINES[k % 2], seed=seed_for(r), ctor=CTORS[k % 5],
                                  segs=[("new", f2bits(m, t), f2bits(sd, t), 5)]))
                k += 1
    yield Batch("real-special-values", materialise(specs), exhaustive=True,
                note="uniform_real on every ordered pair and normal on every (mean, stddev) from {+-max, +-1, +-denorm_min, +-0, 1+ulp} (mean also +-inf), "
                     "float and double: the bit patterns of the parameters reach the wrapped distribution unchanged")

    # 7. raw generators
    r = rng.fork("gen")
    specs = []
    for eng in ENGINES:
        for mode in "vq":
            seeds = [0, 1, (1 << 31) - 2, (1 << 31) - 1, 1 << 31, (1 << 32) - 1, 1 << 32, U64] + [seed_for(r) for _ in range(40 if thorough else 8)]
            for s in seeds:
                specs.append(Spec("G", eng=eng, mode=mode, seed=s, n=r.choice([0, 1, 5, 30, 700])))
    for s in [0, 1, (1 << 32) - 1, (1 << 32) - 3] + [r.below(1 << 32) for _ in range(6)]:
        specs.append(Spec("RAW", line=f"G ctr v {s} {r.choice([0, 1, 7, 40])}:0:0:-"))
    yield Batch("generators", materialise(specs), note="basic_pseudo<minstd_rand / mt19937 / ctr_engine>: seed value and seed_seq constructors, min(), max(), raw output")

    # 8. the exactly specified engine/distribution pair (no tape: everything predicted by the model)
    r = rng.fork("exact")
    lines = []
    for _ in range(2500 if thorough else 400):
        t = r.choice("sil")
        deco = r.choice(["p", "s"])
        ctor = r.choice(CTORS + ["d", "d"])
        seed = r.choice([0, 1, (1 << 32) - 1, (1 << 32) - 5]) if r.chance(1, 6) else r.below(1 << 32)
        segs = []
        for a, x, y, n in history(r, t, ctor, wide=True):
            if y - x >= (1 << 31):       # mod_dist is specified for b - a < 2^31
                y = x + r.below(1 << 31)
                y = min(y, LIMITS[t][1])
            segs.append((a, x, y, n))
        # rst keeps the previous interval: recompute after clamping
        fixed, cur = [], None
        for a, x, y, n in segs:
            if a == "rst":
                x, y = cur
            cur = (x, y)
            fixed.append(f"{a}:{x}:{y}:{n}")
        lines.append(f"X {t} {deco} {seed} {ctor} " + " ".join(fixed))
    for a in range(5):
        for b in range(a, 5):
            lines.append(f"X i e5 {r.below(1 << 32)} {r.choice(CTORS)} new:{a}:{b}:{r.choice([7, 400])}")
    for t in "sil":
        for a in range(-8, 9, 4 if not thorough else 1):
            for b in range(a, 9, 3 if not thorough else 1):
                lines.append(f"X {t} {r.choice(['p', 's'])} {r.below(1 << 32)} {r.choice(CTORS)} new:{a}:{b}:400")
    for k in (1, 5, 9):
        for ctor in ("v", "vp", "d"):
            lines.append(f"XE {k} {r.below(1 << 32)} {ctor} {r.choice([0, 1, 20, 400])}")
            lines.append(f"XE {k} {(1 << 32) - 2} {ctor} 9")
    for size in range(0, 7):
        for _ in range(6 if thorough else 3):
            el = ",".join(str(r.range(-50, 50)) for _ in range(size)) or "-"
            lines.append(f"XC {r.below(1 << 32)} {el} {r.choice([0, 1, 13, 50])}")
    yield Batch("exact-pair", lines, note="uniform_int / make_uniform_enum_advanced / make_uniform_indices_advanced / make_uniform_container_advanced over "
                "basic_pseudo<ctr_engine> and mod_dist (user-supplied engine and distribution); model predicts every number")


    # 9. programs over several distribution objects, variates and the generator; exact pair (stateful mod_dist): all predicted
    r = rng.fork("scripts")
    XTYPES = [(t, d) for t in "sil" for d in ("p", "s", "ss")]
    ivsets = [((-3, 5), (0, 9)), ((0, 0), (0, 1)), ((-8, 8), (7, 8)), ((-32768, -32760), (32751, 32767))]
    lines = []
    k = 0
    for iv1, iv2 in ivsets:
        for acts in systematic_scripts(iv1, iv2):
            for t, deco in (XTYPES if thorough else [XTYPES[k % 9]]):
                lines.append(f"XS {t} {deco} {r.below(1 << 32)} " + " ".join(acts))
            k += 1
    for acts in systematic_scripts((0, 4), (1, 3)):
        lines.append(f"XS i e5 {r.below(1 << 32)} " + " ".join(acts))
    for acts in eq_scripts([-1, 0, 1]):
        for t, deco in (XTYPES if thorough else [XTYPES[k % 9]]):
            lines.append(f"XS {t} {deco} {r.below(1 << 32)} " + " ".join(acts))
        k += 1
    yield Batch("scripts-exact-systematic", lines, exhaustive=True,
                note="every way to copy / assign / move / swap a distribution or variate in state k0 in {0,1,2}, then both drawn from in both orders; "
                     "self-assignment, self-swap; reset()/param(p) at every position; variate from a used distribution; == / != on all ordered pairs "
                     "of intervals over {-1,0,1} in fresh / drawn / reset / re-parametrised states")

    lines = []
    for _ in range(40000 if thorough else 1500):
        t, deco = r.choice(XTYPES)

        def params(t=t):
            a, b = interval(r, t, wide=r.chance(1, 3))
            if b - a >= (1 << 31):
                b = a + r.below(1 << 31)
            return a, b
        seed = r.choice([0, 1, (1 << 32) - 1, (1 << 32) - 5]) if r.chance(1, 8) else r.below(1 << 32)
        lines.append(f"XS {t} {deco} {seed} " + " ".join(random_script(r, r.range(4, 30), params)))
    yield Batch("scripts-exact-random", lines, note="random programs of 4-30 steps over 4 distribution slots, 3 variate slots and the generator")

    # 10. the same kind of program over the real standard distributions and engines (tapes from the std-only oracle)
    r = rng.fork("scripts-std")
    ITYPES = [("s", "p"), ("s", "s"), ("i", "p"), ("i", "ss"), ("l", "p"), ("l", "s")]
    specs = []
    k = 0
    for acts in systematic_scripts((-3, 5), (0, 9)) + eq_scripts([-1, 0, 1]):
        for eng in (ENGINES if thorough else [ENGINES[k % 2]]):
            t, deco = ITYPES[k % 6]
            specs.append(Spec("IS", t=t, deco=deco, eng=eng, seed=seed_for(r), acts=acts))
        k += 1
    for acts in systematic_scripts((0, 2), (1, 1)):
        specs.append(Spec("IS", t="i", deco=("e3" if k % 2 else "se3"), eng=ENGINES[k % 2], seed=seed_for(r), acts=acts))
        k += 1
    fl = lambda x, t: f2bits(x, t)
    for dk in ("ur", "no"):
        for t in "fd":
            if dk == "ur":
                iv1, iv2 = (fl(-3.0, t), fl(5.5, t)), (fl(0.0, t), fl(1.0, t))
                eqs = eq_scripts_of([(fl(x, t), fl(y, t)) for x in (-1.0, 0.0, 2.5) for y in (-1.0, 0.0, 2.5) if x <= y], stateless_only=False)
            else:
                iv1, iv2 = (fl(-3.0, t), fl(1.5, t)), (fl(10.0, t), fl(0.25, t))
                eqs = eq_scripts_of([(fl(m, t), fl(sd, t)) for m in (-1.0, 0.0, 2.5) for sd in (0.5, 2.0)], stateless_only=True)
            scripts = systematic_scripts(iv1, iv2)
            if dk == "no":      # normal_distribution's == also compares its cached value: keep == on one object only
                scripts = [[a for a in acts if not (a.startswith("e:") and a.split(":")[1] != a.split(":")[2])] for acts in scripts]
            for acts in scripts + eqs:
                for eng in (ENGINES if thorough else [ENGINES[k % 2]]):
                    specs.append(Spec("RS", dk=dk, t=t, deco="ps"[k % 2], eng=eng, seed=seed_for(r), acts=acts))
                k += 1
    for _ in range(15000 if thorough else 600):
        t, deco = r.choice(ITYPES)
        specs.append(Spec("IS", t=t, deco=deco, eng=r.choice(ENGINES), seed=seed_for(r),
                          acts=random_script(r, r.range(4, 24), lambda t=t: interval(r, t))))
    for _ in range(15000 if thorough else 600):
        dk, t = r.choice(["ur", "no", "no"]), r.choice("fd")
        specs.append(Spec("RS", dk=dk, t=t, deco=r.choice("ps"), eng=r.choice(ENGINES), seed=seed_for(r),
                          acts=random_script(r, r.range(4, 24), lambda dk=dk, t=t: real_params(r, dk, t), stateful_eq=(dk == "ur"))))
    yield Batch("scripts-std", materialise(specs), exhaustive=True,
                note="the systematic and random programs over std::uniform_int / uniform_real / normal_distribution and both engines "
                     "(normal's cached second value travels through every kind of copy)")

    # 11. uniform_container: several wrappers on one container that keeps being modified
    r = rng.fork("cscripts")
    lines = []
    for cm, el, acts in container_scripts_systematic():
        lines.append(f"XU {cm} {r.below(1 << 32)} {el} " + " ".join(acts))
    for _ in range(12000 if thorough else 600):
        size = r.range(1, 6)
        cm = r.choice("cm")
        el = ",".join(str(r.range(-50, 50)) for _ in range(size))
        lines.append(f"XU {cm} {r.below(1 << 32)} {el} " + " ".join(random_cscript(r, size, cm == "m", r.range(3, 16))))
    yield Batch("container-scripts", lines, exhaustive=True,
                note="sizes 0..6, const and mutable vector: factory, the public constructor with every index interval (sizes <= 4), copies made "
                     "after k0 draws, writes to the container between draws and through the returned reference")

    # 12. two generators of one type side by side; type_iso called directly; seed_from_chrono; long runs
    r = rng.fork("misc")
    specs = []
    pats = ["0*1,1*1,0*1,1*1", "0*3,1*2,0*2", "1*4,0*4,1*1", "0*0,1*5,0*5"]
    for eng in ENGINES:
        for pat in pats:
            for s0, s1 in [(1, 1), (r.below(1 << 32), r.below(1 << 32)), (0, U64 if eng == "minstd" else (1 << 32) - 1)]:
                specs.append(Spec("G2", eng=eng, s0=s0, s1=s1, pat=pat))
    for pat in pats:
        specs.append(Spec("RAW", line=f"G2 ctr {r.below(1 << 32)} {r.below(1 << 32)} {pat} -"))
        specs.append(Spec("RAW", line=f"G2 ctr 7 7 {pat} -"))
    for n in range(1, 10):
        for x in range(n):
            specs.append(Spec("RAW", line=f"TI i e{n} {x}"))
    for x in range(3):
        specs.append(Spec("RAW", line=f"TI i se3 {x}"))
    for t in "sil":
        lo, hi = LIMITS[t]
        for deco in DECOS:
            for x in (lo, lo + 1, -1, 0, 1, hi - 1, hi):
                specs.append(Spec("RAW", line=f"TI {t} {deco} {x}"))
    for eng in ENGINES + ["ctr"]:
        specs.append(Spec("RAW", line=f"SC {eng}"))
    big = 20000 if thorough else 6000
    for eng in ENGINES:
        specs.append(Spec("G", eng=eng, mode="v", seed=seed_for(r), n=big))
        specs.append(Spec("I", t="i", deco="s", eng=eng, seed=seed_for(r), ctor="v", segs=[("new", -8, 8, big)]))
        specs.append(Spec("I", t="l", deco="p", eng=eng, seed=seed_for(r), ctor="d", segs=[("new", 0, 1, big), ("rst", 0, 1, 9)]))
        specs.append(Spec("R", dk="no", t="d", deco="p", eng=eng, seed=seed_for(r), ctor="v",
                          segs=[("new", f2bits(0.0, "d"), f2bits(1.0, "d"), big // 2 + 1)]))
        specs.append(Spec("C", ct="vc", eng=eng, seed=seed_for(r), elems=[1, 2, 3, 4, 5], n=big))
    specs.append(Spec("RAW", line=f"XS i p {r.below(1 << 32)} n:0:-8:8 v:0:0 d:0:{big} w:0:{big} g:{big // 2} d:0:3"))
    specs.append(Spec("RAW", line=f"XU m {r.below(1 << 32)} 1,2,3,4,5 f:0 d:0:{big} cc:1:0 d:1:3 d:0:3"))
    specs.append(Spec("RAW", line=f"G ctr v {r.below(1 << 32)} {big}:0:0:-"))
    yield Batch("generators-typeiso-long", materialise(specs), exhaustive=True,
                note="two generators of one type interleaved (same / different seeds); type_iso::decorate / undecorate, decorated_value, base_value on every "
                     "enumerator of enums of size 1..9 and at the limits of short/int/long x plain/strong/nested; seed_from_chrono; runs of "
                     f"{big} draws through every wrapper")


SCRIPT_KINDS = ("XS", "IS", "RS", "XU")


def _script_draws(t):
    n = 0
    for a in t[1:]:
        f = a.split(":")
        if f[0] in ("d", "d1", "w") and len(f) >= 3 and f[2].isdigit():
            n += int(f[2])
        elif f[0] in ("g", "g1") and len(f) >= 2 and f[1].isdigit():
            n += int(f[1])
        elif f[0] in ("t", "e", "q", "f"):
            n += 1
    return n


def nontrivial(op, result):
    t = op.split()
    if t[0] in ("C", "XC", "TI", "SC"):
        return True
    if t[0] in SCRIPT_KINDS:
        return _script_draws(t) > 0
    if t[0] == "G2":
        return True
    return any(_draws(x) > 0 for x in t[1:] if ":" in x) or (t[0] == "XE" and int(t[-1]) > 0)


def _draws(tok):
    f = tok.split(":")
    try:
        return int(f[3]) if f[0] in ("new", "set", "rst") else int(f[0])
    except (ValueError, IndexError):
        return 0


def weight(op):
    t = op.split()
    if t[0] in ("XE", "XC"):
        return max(1, int(t[-1]))
    if t[0] in SCRIPT_KINDS:
        return max(1, _script_draws(t))
    if t[0] == "G2":
        return max(1, sum(int(x.split("*")[1]) for x in t[4].split(",")))
    if t[0] in ("TI", "SC"):
        return 1
    return max(1, sum(_draws(x) for x in t[1:] if ":" in x))


def _cuts(n):
    out, k = [0, 1, 2, 3], 4
    while k < n:
        out += [k, k + k // 2]
        k *= 2
    return sorted({c for c in out if c < n})


def _tape_prefix(tape, k):
    return ",".join(tape.split(",")[:k]) if k > 0 else "-"


def refine(op):
    """Shorten a failing op: first cut trailing segments (every prefix of the segment list is a valid op, the
    generator restarts from the same seed), then cut the number of draws of a single segment (a prefix of the
    recorded std output is the std output of the shorter run)."""
    t = op.split()
    kind = t[0]
    if kind in SCRIPT_KINDS:
        first = next((i for i, x in enumerate(t) if ":" in x), None)
        if first is None:
            return None
        # every prefix of a program is a program (tapes belong to single actions); without tapes single steps can also be left out
        out = [" ".join(t[:k]) for k in range(first + 1, len(t))]
        if kind in ("XS", "XU"):
            out += [" ".join(t[:k] + t[k + 1:]) for k in range(first, len(t) - 1)]
            for k in range(first, len(t)):          # fewer draws in one step
                f = t[k].split(":")
                if f[0] in ("d", "d1", "w") and f[2].isdigit() and int(f[2]) > 1:
                    out += [" ".join(t[:k] + [":".join(f[:2] + [str(c)])] + t[k + 1:]) for c in _cuts(int(f[2]))[1:]]
        return out or None
    if kind in ("I", "R", "X"):
        first = next((i for i, x in enumerate(t) if ":" in x), None)
        if first is None:
            return None
        if len(t) - first > 1:
            return [" ".join(t[:k]) for k in range(first + 1, len(t))]
        f = t[-1].split(":")
        if len(f) < 4 or not f[3].isdigit():
            return None
        n = int(f[3])
        if kind == "X":
            return [" ".join(t[:-1] + [":".join(f[:3] + [str(k)])]) for k in _cuts(n)] or None
        return [" ".join(t[:-1] + [":".join(f[:3] + [str(k), _tape_prefix(f[4], k)])]) for k in _cuts(n)] or None
    if kind in ("EN", "C"):
        f = t[-1].split(":")
        if len(f) != 2 or not f[0].isdigit() or f[1] == "-":
            return None
        return [" ".join(t[:-1] + [f"{k}:{_tape_prefix(f[1], k)}"]) for k in _cuts(int(f[0]))] or None
    if kind == "G":
        f = t[-1].split(":")
        if len(f) != 4 or not f[0].isdigit() or f[3] == "-":
            return None
        return [" ".join(t[:-1] + [f"{k}:{f[1]}:{f[2]}:{_tape_prefix(f[3], k)}"]) for k in _cuts(int(f[0]))] or None
    if kind in ("XE", "XC"):
        return [" ".join(t[:-1] + [str(k)]) for k in _cuts(int(t[-1]))] if t[-1].isdigit() else None
    return None


# ---------------------------------------------------------------- members that cannot be instantiated

PROBES = {
    # name: (source, must it be rejected?, fragment of the path the first error has to come from)
    "Parameters::convert_to (uniform_int)": ("c20_probe_ill_convert_to.cpp", True, "parameters/uniform_int_impl.hpp"),
    "Parameters::convert_to (uniform_real, normal)": ("c20_probe_ill_convert_to_real.cpp", True, "parameters/"),
    "basic::param() const": ("c20_probe_ill_param.cpp", True, "distribution/basic_impl.hpp"),
    "basic::operator()(Rng &, param_type const &)": ("c20_probe_ill_call_param.cpp", True, "distribution/basic_impl.hpp"),
    "operator>>(istream &, basic &)": ("c20_probe_ill_extract.cpp", True, ""),
    "operator<<(ostream &, basic const &) [control]": ("c20_probe_ok_insert.cpp", False, ""),
}


def extra_checks(binp, rng, tier, ev):
    """Compile the probes (-fsyntax-only, in parallel).  The listed members are ill-formed on the pinned tree and therefore
    outside the tie; if one of them starts to compile it exists now and nothing checks it: reported, so that harness and
    model get extended."""
    import subprocess
    from concurrent.futures import ThreadPoolExecutor
    from vlib import harness as hb

    def one(item):
        name, (src, must_fail, where) = item
        cmd = [hb.CXX] + hb.BASE_FLAGS + hb.include_flags() + ["-fsyntax-only", os.path.join(_paths.ROOT, "harness", src)]
        p = subprocess.run(cmd, capture_output=True, text=True)
        first = next((l for l in p.stderr.splitlines() if " error" in l), "")
        return name, src, must_fail, where, p.returncode, first

    with ThreadPoolExecutor(max_workers=6) as ex:
        res = list(ex.map(one, PROBES.items()))
    out = []
    table = {}
    for name, src, must_fail, where, rc, first in res:
        table[name] = "rejected: " + first.split("error:")[-1].strip()[:160] if rc != 0 else "compiles"
        if must_fail and rc == 0:
            out.append({"kind": "broken-correspondence", "property": ID,
                        "what": f"{name} can be instantiated now (harness/{src} compiles) but is not tied: extend harness, model and notes/C20.md"})
        elif must_fail and where and where not in first:
            out.append({"kind": "broken-correspondence", "property": ID,
                        "what": f"probe harness/{src} is rejected for another reason than the recorded one: {first[:300]}"})
        elif not must_fail and rc != 0:
            out.append({"kind": "broken-correspondence", "property": ID,
                        "what": f"control probe harness/{src} does not compile: {first[:300]}"})
    if isinstance(ev, dict):
        ev.setdefault("coverage", {})["uninstantiable_members"] = table
    return out


MANIFEST = {
    "level_text": ("Machine-checked proof (Lean 4) over an executable model of fcppt::random in which the standard engine and the wrapped "
                   "standard distribution are arbitrary parameters: for every engine, distribution, parameter set, result-type shape "
                   "(plain / nested strong typedef / enum) and every history of draw / reset / param(p), the fcppt side produces exactly "
                   "the std side's values re-wrapped by decorate and leaves the wrapped distribution and the generator in the same state "
                   "(history_transparent, variate_transparent), and the same for every program over any number of distribution objects, "
                   "variates and two generators with copies, assignments, moves, swaps and variates built from used distributions "
                   "(script_transparent: a copy continues its original's sequence, a variate owns its copy, assignment re-seats the "
                   "generator); the interval reaches the wrapped distribution unchanged "
                   "(interval_passed_exactly); under the standard's contract a <= x <= b the draws lie in the requested interval, enum "
                   "draws are enumerators, container indices are valid and elements are members (in_range, script_in_range, enum_in_range, index_valid, "
                   "container_elem_mem, container_script_safe); the index/container factories return nothing exactly for an empty container (empty_gives_none). "
                   "The model is tied to the code by a differential correspondence that replays the real std pair's output into the model "
                   "and is exhaustive over the intervals, enum sizes and container sizes named by the property, plus systematic programs "
                   "(every copy/move/assign/swap form in states k0 in {0,1,2}, == on all ordered interval pairs, two generators) over the "
                   "real standard distributions and over a stateful user-supplied distribution that exists in C++ and in Lean."),
    "level_note": ("Trusted: Lean kernel + propext/Classical.choice/Quot.sound; fidelity of the hand-written model outside the exercised "
                   "inputs; harness, its std-only oracle lines and the line protocol; the standard's distribution contracts are hypotheses; "
                   "'reaches both ends' is observed (400 draws), not proved. Parameters::convert_to, basic::param() const, "
                   "basic::operator()(Rng&, param_type const&) and operator>> are ill-formed when instantiated on the pinned tree and are outside "
                   "the tie (compile probes on every run report it if one of them starts to exist). "
                   "No sorry/axiom/native_decide."),
    "technique": "Lean 4 proof over hand-written executable model (std pair as parameter) + differential correspondence with recorded std output (ASan/UBSan harness)",
    "design_ref": "DESIGN.md §5 C20",
}
