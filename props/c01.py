"""C01 — the safe API is total: no UB, crash or hang; failure only via optional/either."""
import os

import itertools
from vlib.runner import Batch
from props import c06

ID = "C01"
LEAN_PROPS = ["FcpptProofs.Props.C01", "FcpptProofs.Props.C01.Scalar"]
LEAN_EXTRA = ["FcpptModel.Gen.Scalar"]
HARNESS = {"src": "harness/c01.cpp", "flags": ["-DFCPPT_HAVE_GCC_DEMANGLE"], "repo_srcs": [
    "libs/options/impl/src/options/impl/is_flag.cpp", "libs/options/impl/src/options/impl/next_arg.cpp",
    "libs/options/impl/src/options/impl/flag_name.cpp",
    "libs/options/src/options/option_name.cpp", "libs/options/src/options/option_name_comparison.cpp",
    "libs/core/src/io/read_chars.cpp", "libs/core/src/io/write_chars.cpp", "libs/core/src/insert_extract_locale.cpp",
    "libs/core/src/args.cpp", "libs/core/src/args_from_second.cpp", "libs/core/src/from_std_string.cpp",
    "libs/core/src/getenv.cpp", "libs/core/src/system.cpp", "libs/core/src/to_std_string.cpp", "libs/core/src/error/strerror.cpp", "libs/core/src/exception.cpp",
    "libs/core/src/make_optional_error_code.cpp", "libs/core/src/time/gmtime.cpp", "libs/core/src/time/localtime.cpp",
    "libs/core/src/endianness/reverse_mem.cpp", "libs/core/src/type_name.cpp", "libs/core/src/type_name_from_info.cpp",
    "libs/filesystem/src/filesystem/file_size.cpp", "libs/filesystem/src/filesystem/remove_extension.cpp",
    "libs/filesystem/src/filesystem/stem.cpp", "libs/filesystem/src/filesystem/path_to_string.cpp",
    "libs/filesystem/src/filesystem/extension.cpp", "libs/filesystem/src/filesystem/extension_without_dot.cpp",
    "libs/filesystem/src/filesystem/normalize.cpp", "libs/filesystem/src/filesystem/num_subpaths.cpp",
    "libs/filesystem/src/filesystem/replace_extension.cpp", "libs/filesystem/src/filesystem/strip_prefix.cpp",
    "libs/filesystem/src/filesystem/create_directory.cpp", "libs/filesystem/src/filesystem/create_directories_recursive.cpp",
    "libs/filesystem/src/filesystem/directory_range.cpp", "libs/filesystem/src/filesystem/recursive_directory_range.cpp",
    "libs/filesystem/src/filesystem/make_directory_range.cpp", "libs/filesystem/src/filesystem/make_recursive_directory_range.cpp",
    "libs/core/src/narrow_locale.cpp", "libs/core/src/widen_locale.cpp"]}
TIE = ("scalar registry: translated from /repo on every run (as C06); containers / strings / arguments / streams / paths / files / environment: "
       "hand-written models with bounds-checked reads + differential correspondence; the harness is the C01 observation itself "
       "(ASan+UBSan+_GLIBCXX_ASSERTIONS, catch(...), per-line watchdog, exact-size heap buffers with poisoned non-NUL slack behind every string_view, "
       "containers of heap strings, streams in every state, every kind of path)")
RULE = ("container helpers: all lists over {0,1,2} up to length 4 (5) with every index 0..5 and indices up to 2^64-1, on vector/deque/string/heap-string "
        "containers; casts on every (target, dynamic class); is_flag / flag_name / enum from_string: all strings up to length 4 (6) over a 4-letter alphabet "
        "containing '-'; next_arg: all argument vectors up to length 3 (5) over 7 tokens x 4 option-name contexts; read_chars / stream_to_string / io::get / peek / "
        "read / extract / write_chars: every stream kind (preset eof/fail/bad bit, 1- and 2-character get area, file, directory, throwing streambuf, null "
        "streambuf, limited room) x every length up to 6 x every count up to 8, one and two reads; file_size / open / create_directory / directory ranges on 24 "
        "kinds of path; the pure path helpers with their values on every pathname over {a . /} up to length 5 (7) and all pairs up to 3 (4); getenv, args, "
        "strerror, gmtime/localtime on the time_t lattice, type_name, system, extract_from_string values under a grouping global locale; scalar: lattice and "
        "8-bit ranges of every translated function. Non-trivial = any op other than the empty-container case.")
ASSUMPTIONS = [
    "std::vector/deque/map, std::istream/ostream (state machine incl. a streambuf that throws), std::filesystem::path (libstdc++ POSIX parser) are modelled by "
    "validated models; the operating system, glibc gmtime_r, the demangler and /bin/sh are oracle tables in the driver",
    "extract_from_string / io::extract values come from the C15 text model (num_get in the classic locale)",
    "memory safety of template instantiations and object lifetimes: sanitizer verdict on the exercised inputs (a runtime witness, not a proof)",
]
TRUSTED = ["harness/c01.cpp, harness/c01_env.cpp (+ c06.cpp tables)", "tools/cxx2lean.py for the scalar part", "the oracle tables of Drv/C01.lean"]

regenerate = c06.regenerate


def csv(vs):
    return ",".join(str(v) for v in vs) if vs else "-"


def words(alpha, maxlen):
    out = [""]
    frontier = [""]
    for _ in range(maxlen):
        frontier = [w + c for w in frontier for c in alpha]
        out += frontier
    return out


def lists(maxlen, dom=(0, 1, 2)):
    out = [[]]
    frontier = [[]]
    for _ in range(maxlen):
        frontier = [l + [d] for l in frontier for d in dom]
        out += frontier
    return out


def nontrivial(op, res):
    t = op.split()
    return not (len(t) > 1 and t[1] in ("-", "s:", "_"))


weight = c06.weight


def refine(op):
    return c06.refine(op) if op.split()[0] in ("range1", "range2", "range3", "list1", "list2", "list3") else None


def hx(s):
    return "x:" + "".join(f"{ord(c) & 255:02x}" for c in s)


HUGE = [2 ** 31 - 1, 2 ** 31, 2 ** 32 - 1, 2 ** 32, 2 ** 63 - 1, 2 ** 63, 2 ** 64 - 1]
IN_KINDS = ["fresh", "eofbit", "failbit", "badbit", "chunk1", "chunk2", "file", "throwend", "throwend1"]
# kinds of paths of the scratch directory (harness/c01.cpp make_scratch, c01_env.cpp path_of_kind)
PATH_KINDS = ["file0", "file5", "dir", "dir2", "sub", "trailing", "filetrailing", "missing", "dangling", "symfile", "symsym", "selfloop",
              "loopa", "loopb", "symdir", "longname", "underfile", "underloop", "longpath", "missingparent", "emptypath", "weirdname", "relfile", "reldot",
              "reldotdot", "reldir", "relmissing", "relunder"]
WRITE_KINDS = ["new", "dir", "symdir", "underfile", "missingparent", "longname", "selfloop", "emptypath", "trailing", "filetrailing",
               "longpath", "underloop"]
MKDIR_KINDS = ["new", "newnested"] + [k for k in PATH_KINDS if k not in ("missing", "missingparent", "relmissing")] + ["dot", "fifo"]
DEMANGLE_NAMES = ["i", "x", "", "_Z", "_ZN", "_Z1", "St6vectorIiSaIiE", "St6vectorIiSaIiEE", "N3c012d3", "N3c012d3E", "3foo3bar", "3foo", "_Z1fv",
                  "_Z1fv_", "abc", "-", "__", "9999999999a", "N", "S", "I", "T_", "PKc"]
# time_t values: epoch, day / leap-day / year boundaries, 32-bit limits, the last and first second whose year fits tm_year, the limits
TIMES = [0, 1, -1, 59, 60, 3599, 3600, 86399, 86400, -86400, -86401, 951782399, 951782400, 951868800, 68169600, 68255999, 68256000,
         946684799, 946684800, 4107542400, 4102444800, 2 ** 31 - 1, 2 ** 31, -2 ** 31, -2 ** 31 - 1, 2 ** 32, 253402300799, 253402300800,
         -62135596800, -62135596801, -62167219200, -62167219201, 67767976233532799, 67767976233532800, 67768036191676799,
         67768036191676800, -67768040609740800, -67768040609740801, -67768100567971200, 2 ** 62, -2 ** 62, 2 ** 63 - 1, -2 ** 63]


def batches(rng, tier):
    thorough = tier == "thorough"
    ops = []
    for l in lists(6 if thorough else 4):
        for i in range(0, 8 if thorough else 6):
            ops.append(f"atopt {csv(l)} {i}")
        if len(l) <= 2 or l == [0, 1, 2, 0]:
            ops += [f"atopt {csv(l)} {i}" for i in HUGE]
        ops += [f"front {csv(l)}", f"back {csv(l)}", f"popback {csv(l)}", f"popfront {csv(l)}"]
        for size in range(0, 5):
            ops.append(f"fromrange {size} {csv(l)}")
    for ty, top in (("u8", [254, 255]), ("u32", [255, 256, 257, 65536, 2 ** 32 - 1]), ("u64", [255, 256, 2 ** 32 - 1, 2 ** 32, 2 ** 32 + 1, 2 ** 63, 2 ** 64 - 1])):
        for m in (0, 1, 2, 3, 5):
            for i in list(range(0, 8)) + top:
                ops.append(f"rtindex {ty} {m} {i}")
    for keys in lists(3, dom=(1, 2, 3)):
        pairs = ",".join(f"{k}:{10 * k + j}" for j, k in enumerate(keys)) if keys else "_"
        for k in (0, 1, 2, 3, 4):
            ops.append(f"findopt {pairs} {k}")
    ops += [f"cast {target} {dyn}" for target in ("d1", "d2", "d3", "m", "iface") for dyn in ("base", "d1", "d2", "d3", "m")]
    yield Batch("containers", ops, exhaustive=True,
                note="at_optional (vector/deque/const/string/heap strings, indices up to 2^64-1), maybe_front/back, pop_back/pop_front (also containers of heap "
                     "strings: a read after the pop is a use-after-free), array::from_range (lvalue/deque/rvalue), runtime_index (u8/u32/u64 index), "
                     "find_opt/find_opt_mapped/find_opt_iterator (map/const/unordered), the five dynamic casts on every (target, dynamic class)")
    # math::vector wrappers of the translated scalar helpers: all-or-nothing over the components
    IMIN, IMAX, UMAX = -2 ** 31, 2 ** 31 - 1, 2 ** 32 - 1
    ivals = [IMIN, IMIN + 1, -7, -2, -1, 0, 1, 2, 7, IMAX]
    uvals = [0, 1, 2, 3, 7, 2 ** 31, UMAX]
    ismall, usmall = [IMIN, -7, -1, 0, 2, IMAX], [0, 1, 3, 2 ** 31, UMAX]
    vops = []
    ivecs = [[a, b] for a in ivals for b in ivals] + [[a, b, c] for a in ismall for b in ismall for c in ismall]
    uvecs = [[a, b] for a in uvals for b in uvals] + [[a, b, c] for a in usmall for b in usmall for c in usmall]
    for v in ivecs:
        for d in ivals:
            if d == -1 and IMIN in v:
                continue        # INT_MIN / -1: the exact quotient is not representable (outside the property's guard)
            vops += [f"vdiv i32 {csv(v)} {d}", f"vceildiv i32 {csv(v)} {d}"]
    for v in uvecs:
        for d in uvals:
            vops += [f"vdiv u32 {csv(v)} {d}", f"vmod u32 {csv(v)} {d}"]
    r = rng.fork("vectors")
    for vecs, vals, ty in ((ivecs, ivals, "i32"), (uvecs, uvals, "u32")):
        pairs = [(a, b) for a in vecs for b in vecs if len(a) == len(b) and not any(x == IMIN and y == -1 for x, y in zip(a, b))]
        if not thorough:
            pairs = [p for p in pairs if len(p[0]) == 2] + [r.choice(pairs) for _ in range(1500)]
        for a, b in pairs:
            vops.append(f"vdivv {ty} {csv(a)} {csv(b)}")
            if ty == "u32":
                vops.append(f"vmodv {ty} {csv(a)} {csv(b)}")
    yield Batch("vectors", vops, exhaustive=True,
                note="math::vector operator/ (scalar, vector), mod (scalar, vector), ceil_div_signed on 2- and 3-dimensional int32/uint32 vectors over the boundary "
                     "values (INT_MIN, -1, 0, INT_MAX, 2^31, UINT_MAX): nothing iff some divisor is zero, every component from the translated scalar helper")
    n = 7 if thorough else 4
    ops = [f"isflag s:{w}" for w in words("-a=b", n)]
    ops += [f"enumfs s:{w}" for w in words("fobar", 4 if not thorough else 5)] + [f"enumfs s:{w}" for w in ("foo", "bar", "baz", "fo", "foobar", "foobarx", "fooba", "")]
    # case, embedded NUL, bytes >= 0x80: a C-string or case-folding comparison is wrong on these
    ops += [f"enumfs s:{w}" for w in ("FOO", "Foo", "fO", "BAR", "Fo", "FOOBAR", "foo_", "_foo")]
    ops += [f"enumfs {hx(w)}" for w in ("foo\0", "\0foo", "fo\0o", "fo\0", "foobar\0x", "\0", "foo\xff", "\xe6oo", "foo ", " foo")]
    ops += [f"isflag {hx(w)}" for w in ("-\0", "--\0a", "\0-", "-\xff", "\xff-", "--\xff\0", "\xad", "-\xad", " -", "- ", "-- ", "\t-a")]
    ops += [f"flagname {k} s:{w}" for k in ("short", "long") for w in words("-a=", 3 if not thorough else 4)]
    yield Batch("strings", ops, exhaustive=True, note="is_flag, enum from_string, flag_name (+ is_flag of its result) on all short strings, views backed by exact-size heap buffers")
    toks = ["-", "--", "-a", "--opt", "x", "-x", "", "--a", "-opt"]
    ctxs = ["_", "opt:l", "a:s,opt:l", "x:s,:s"]
    vecs = [[]]
    frontier = [[]]
    for _ in range(5 if thorough else 3):
        frontier = [v + [t] for v in frontier for t in toks]
        vecs += frontier
    ops = [f"nextarg {'__' if v == [''] else ','.join(v) if v else '_'} {c}" for v in vecs for c in ctxs]
    yield Batch("next_arg", ops, exhaustive=True, note="all argument vectors over 9 tokens incl. '-', '--' and the empty string, 4 option-name contexts")
    # ---- streams in every state
    ops = []
    for ln in range(0, 7):
        s = "abcdef"[:ln]
        for k in IN_KINDS:
            for cnt in range(0, 9):
                ops.append(f"readchars {k} s:{s} {cnt}")
            ops.append(f"sts {k} s:{s}")
            if ln <= 3:
                ops += [f"ioget {k} s:{s}", f"iopeek {k} s:{s}"]
        for k in ("fresh", "chunk1", "file", "throwend"):
            if ln <= 5:
                ops += [f"readchars2 {k} s:{s} {a} {b}" for a in range(0, 7) for b in range(0, 7)]
    # characters that collide with traits::eof() when narrowed: 0xff, and NUL
    for k in ("fresh", "chunk1", "file", "throwend"):
        ops += [f"{op} {k} {hx(w)}" for op in ("ioget", "iopeek") for w in ("\xff", "\xffa", "a\xff", "\x00", "\x00\xff", "\xff\xff", "\x80", "\x7f")]
        ops += [f"sts {k} {hx(w)}" for w in ("\xff", "\x00", "a\x00b", "\xff\xfe")] + [f"readchars {k} {hx('a' + chr(0) + chr(255) + 'b')} {c}" for c in range(0, 6)]
    for k in ("nullbuf", "dir"):
        ops += [f"readchars {k} s: {cnt}" for cnt in range(0, 4)] + [f"sts {k} s:", f"ioget {k} s:", f"iopeek {k} s:"]
    ops += [f"readchars {k} s:abc {c}" for k in ("fresh", "file", "chunk1") for c in (4096, 65536, 1 << 20)]
    big = "q" * 10000
    ops += [f"readchars {k} s:{big} {c}" for k in ("fresh", "file", "chunk2") for c in (8191, 8192, 8193, 10000, 10001)]
    ops += [f"sts {k} s:{big}" for k in ("fresh", "file", "chunk2", "throwend")]
    pat = "\x01\x80\xff\x00\x7f\xfe\x10\x02\x03"
    for ty, size in (("u8", 1), ("u16", 2), ("u32", 4), ("i32", 4), ("u64", 8)):
        for e in ("big", "little"):
            for k in ("fresh", "chunk1", "file", "eofbit", "failbit", "badbit", "throwend"):
                for ln in range(0, size + 2):
                    ops.append(f"ioread {ty} {e} {k} {hx(pat[:ln])}")
            ops += [f"ioread {ty} {e} fresh {hx(c * size)}" for c in ("\xff", "\x80", "\x00")] + [f"ioread {ty} {e} fresh {hx(chr(0x80) + chr(0) * (size - 1))}",
                                                                                                 f"ioread {ty} {e} fresh {hx(chr(0) * (size - 1) + chr(0x80))}"]
            ops += [f"ioread {ty} {e} {k} x:" for k in ("nullbuf", "dir")]
    for k in ["fresh", "eofbit", "failbit", "badbit", "nullbuf", "file"] + [f"room{r}" for r in range(0, 6)] + [f"throwroom{r}" for r in range(0, 6)]:
        ops += [f"writechars {k} s:{'vwxyz'[:ln]}" for ln in range(0, 6)]
    ops += [f"writechars {k} s:{big}" for k in ("fresh", "file", "room9999", "room10000", "throwroom9999")]
    ops += [f"writechars devfull s:{'q' * n}" for n in (0, 1, 100, 1023, 1024, 1025, 4096, 8191, 8192, 10000, 100000)]
    # ---- narrow_locale / widen_locale: every combination of up to 4 characters of each encoded width (1, 2, 3, 4 bytes) - every
    # growth step of the conversion buffer with something already written (the read area must survive the reallocation) - plus long runs
    def whex(cps):
        return "".join("%08x" % c for c in cps) if cps else "-"
    reps = [0x41, 0xE4, 0x20AC, 0x1F600]
    nw_ops = ["nw " + whex(list(t)) for n in range(0, 5) for t in itertools.product(reps, repeat=n)]
    nw_ops += ["nw " + whex([c] * n) for c in reps + [0x7F, 0x80, 0x7FF, 0x800, 0xFFFF, 0x10000, 0x10FFFF] for n in (5, 6, 7, 8, 9, 15, 16, 17, 31, 33, 64, 100)]
    nw_ops += ["nw " + whex([0x41] * a + [0x20AC] * b) for a in range(0, 6) for b in range(1, 8)]
    nw_ops += ["nw " + whex([0xD800]), "nw " + whex([0x41, 0xDFFF, 0x42]), "nw " + whex([0x41, 0, 0x42])]
    yield Batch("narrow-widen", nw_ops, exhaustive=True,
                note="narrow_locale then widen_locale (C.utf8) on all strings of <= 4 characters over one character of each encoded width, runs crossing every "
                     "buffer growth step, surrogates (failure) and an embedded NUL; reference = the C15 codecvt-loop model")
    yield Batch("streams", ops, exhaustive=True,
                note="read_chars (one and two reads), stream_to_string, io::get/peek/read, write_chars on streams in every state: eof/fail/bad bit preset, "
                     "null streambuf, 1- and 2-character get areas, ifstream on a file and on a directory, streambuf that throws, output with limited room")
    # ---- the file system helpers on every kind of path
    ops = [f"filesize {k}" for k in ["file4096", "sparse5g", "dot", "fifo"] + PATH_KINDS]
    ops += [f"fopen {m} {k}" for m in ("r", "rx") for k in PATH_KINDS + ["dot"]]
    ops += [f"fopen {m} {k}" for m in ("w", "wx") for k in WRITE_KINDS]
    ops += [f"{op} {k}" for op in ("mkdir", "mkdirs") for k in MKDIR_KINDS]
    ops += [f"{op} {o} {k}" for op in ("dirrange", "rdirrange") for o in ("none", "skip", "follow") for k in PATH_KINDS + ["fifo"]]
    yield Batch("files", ops, exhaustive=True,
                note="file_size, open/open_exn (read, write), create_directory, create_directories_recursive, make_(recursive_)directory_range on: regular/empty "
                     "file, directory (empty, populated, with trailing slash), missing, dangling/valid/double symlink, self-loop and 2-cycle (ELOOP), link to a "
                     "directory, fifo, name > NAME_MAX, path > PATH_MAX, component under a file (ENOTDIR), under a loop, missing parent, '', '.', a name with blank / newline / "
                     "non-UTF-8 bytes, relative paths (plain, './', 'dir/../', 'file/../'), a 5 GB sparse file")
    # ---- pure path helpers: all pathnames over {a . /}
    n = 8 if thorough else 5
    ws = words("a./", n)
    ops = [f"path {f} s:{w}" for w in ws for f in ("rmext", "ext", "extnodot", "stem", "normalize", "nsub", "tostring")]
    small = words("a./", 4 if thorough else 3)
    ops += [f"replext s:{w} s:{e}" for w in words("a./", 4) for e in ("", "x", ".x", "x.y", ".", "a/b")]
    ops += [f"stripprefix s:{a} s:{b}" for a in small for b in small]
    r = rng.fork("paths")
    for _ in range(3000 if thorough else 400):
        w = "".join(r.choice("ab.-_/") for _ in range(r.range(1, 14)))
        ops += [f"path {f} s:{w}" for f in ("rmext", "ext", "extnodot", "stem", "normalize", "nsub")]
        v = "".join(r.choice("ab./") for _ in range(r.range(0, 6)))
        ops += [f"stripprefix s:{v} s:{w}", f"replext s:{w} s:{v.replace('/', '')}"]
    yield Batch("paths", ops, exhaustive=True,
                note="remove_extension, extension, extension_without_dot, stem, normalize, num_subpaths, path_to_string, replace_extension, strip_prefix (inside its "
                     "documented precondition) with their VALUES against the path model: every pathname over {a . /} up to length 5/6, all pairs up to 3/4, random longer ones")
    # ---- environment, arguments, errno, time, names, text
    ops = [f"getenv s:{n}" for n in ("VERIF_C01_SET", "VERIF_C01_EMPTY", "VERIF_C01_EQ", "VERIF_C01_UNSET", "", "=", "VERIF_C01_SET=value", "VERIF_C01_SET=",
                                     "VERIF_C01_SE", "VERIF_C01_SETT", "verif_c01_set", "=VERIF_C01_SET")]
    ops += [f"getenv {hx(n)}" for n in ("VERIF_C01_SET\0x", "\0VERIF_C01_SET", "VERIF_C01_UNSET\0", "VERIF\0_C01_SET")]
    atoks = ["a", "bc", "", "-x"]
    avecs = [[]]
    frontier = [[]]
    for _ in range(4 if thorough else 3):
        frontier = [v + [t] for v in frontier for t in atoks]
        avecs += frontier
    for v in avecs:
        if v == [""]:
            continue        # a single empty argument has no token form
        ops += [f"{op} {len(v)} {','.join(v) if v else '_'}" for op in ("args", "args2")]
    ops += [f"strerror {e}" for e in list(range(-2, 140)) + [255, 256, 4095, 4096, 65535, 2 ** 31 - 1, -2 ** 31]]
    ts = list(TIMES)
    r = rng.fork("times")
    ts += [r.range(-2 ** 63, 2 ** 63 - 1) for _ in range(200)] + [r.range(-2 ** 40, 2 ** 40) for _ in range(200)] + [r.range(-2 ** 56, 2 ** 56) for _ in range(200)]
    ops += [f"{op} {t}" for t in ts for op in ("gmtime", "localtime")]
    ops += [f"typename s:{n}" for n in DEMANGLE_NAMES] + [f"typeinfo {k}" for k in ("int", "string", "d3", "lambda")]
    texts = words("1-+ a,", 3) + ["99999999999999999999", "-99999999999999999999", "2147483647", "2147483648", "-2147483648", "-2147483649", "4294967295",
                                  "4294967296", "32767", "32768", "-32768", "-32769", "65536", "0x10", "1e3", "1,000", "1,0", "1.5", "1;5", " 7", "7 ", "\t7", "7\n", "00",
                                  "-0", "+0", "18446744073709551615", "18446744073709551616", "9223372036854775807", "9223372036854775808", "-9223372036854775808",
                                  "-9223372036854775809", "12,345,678", ",1", "1,", "a b", " ab", "ab "]
    for ty in ("int", "uint", "short", "ulong", "long", "string"):
        ops += [f"extract {ty} {hx(w)}" for w in texts]
    ctexts = words("a 1\xff", 2) + ["\x80", "\x00", "\t", "\n", "\x0b", "\x0c", "\r", "ab", " a", "a ", "a\x00", "\x00a", "\x7f", "\xfe"]
    for ty in ("char", "uchar", "schar"):
        ops += [f"extract {ty} {hx(w)}" for w in ctexts]
    for ty in ("int", "uint", "short", "long", "char", "uchar"):
        for k in ("fresh", "eofbit", "failbit", "badbit", "chunk1", "file"):
            ops += [f"ioextract {ty} {k} {hx(w)}" for w in ("", "7", " 7", "7 ", "-7", "+", "a", "99999999999", "32768", "-32769", "12ab", "\xff", "\x00", " ")]
    ftexts = ["1", "1.5", "-1.5", "abc", "", "1e400", "1e-400", "1e38", "1e39", "1e-46", "nan", "inf", "-inf", "infinity", "0x1p3", "1,5", "1;5", "1.5 ", " 1.5", "1e", "1e+",
              "+.5", ".", ".5", "5.", "1.5.2", "-0", "1e308", "1e309", "-1e309", "1e-323", "1e-324", "123456789012345678901234567890", "0.1e1", "1E3", "1d3", "1f"]
    ops += [f"extract {ty} {hx(w)}" for ty in ("float", "double") for w in ftexts]
    ops += ["uptrstd null", "uptrstd object", "weaklock live", "weaklock expired", "weaklock empty"]
    fvals = ["0", "-0", "1", "-1", "denorm", "-denorm", "max", "inf", "-inf", "nan"]
    ops += [f"atan2 {x} {y}" for x in fvals for y in fvals]
    ops += [f"system {k}" for k in ("exit0", "exit3", "exit255", "exit256", "true", "empty", "notfound", "kill", "term", "segv")]
    yield Batch("environment", ops, exhaustive=True,
                note="getenv (set/empty/unset/malformed names, embedded NUL), args/args_from_second on exact-size argv arrays (argc 0..3/4), error::strerror on every "
                     "errno and the int limits, time::gmtime/localtime on the time_t lattice incl. the first value whose year overflows tm_year (documented "
                     "runtime_error) and INT64 limits, type_name on well- and ill-formed mangled names, extract_from_string(_locale) values (numbers, strings, character types) "
                     "under a global locale that groups digits, io::extract on streams in every state, fcppt::system on commands that exit / are killed / do not exist")
    if os.environ.get("VERIF_C01_CANDIDATES"):
        # the defect candidate of notes/C01.md: extract_from_string under a changed global locale (model: the documented classic-locale behaviour)
        yield Batch("candidate-global-locale", [f"extractg {ty} {hx(w)}" for ty in ("int", "long") for w in ("1,000", "12,345,678", "1000")], exhaustive=True,
                    note="DEFECT CANDIDATE reproduction (opt-in)")
    # scalar registry: totality over boundary lattices (the full exhaustive ranges run under C06)
    ops = []
    for t in c06.UNS:
        for f in ("is_power_of_2", "next_power_of_2", "log2"):
            ops.append(f"list1 {f}_{t} {c06.csv(c06.lattice(t))}")
        ops.append(f"range1 power_of_2_{t} 0 70")
    for d in c06.ALL:
        for s in c06.ALL:
            ops.append(f"list1 truncation_check_{d}_{s} {c06.csv(c06.lattice(s))}")
    for f, ts in [("mod", c06.UNS), ("diff", c06.ALL), ("div", ["u32", "i32", "u64", "i64"]), ("ceil_div", ["u32", "u64"]),
                  ("ceil_div_signed", ["i32", "i64"])]:
        for t in ts:
            vs = c06.lattice(t)
            vs = sorted(set(vs[:10] + vs[-10:] + [v for v in vs if abs(v) < 4]))
            ops.append(f"list2 {f}_{t} {c06.csv(vs)} {c06.csv(vs)}")
    for u in c06.UNS:
        for v in c06.UNS:
            ops.append(f"list2 from_int_{u}_{v} {c06.csv(c06.lattice(v))} {c06.csv(c06.FROM_INT_SIZES[u])}")
    ops += [f"range2 {f}_{t} {c06.lo(t)} {c06.hi(t)} {c06.lo(t)} {c06.hi(t)}" for f, t in [("mod", "u8"), ("diff", "u8"), ("diff", "i8")]]
    yield Batch("scalar-registry", ops, note="every translated scalar function on its boundary lattice (incl. top bit set, min, max, 0) + all 8-bit pairs")


search = c06.search

MANIFEST = {
    "level_text": ("Machine-checked proof (Lean 4) of totality: models with bounds-checked reads never reach a Fault (no out-of-bounds access, no "
                   "uninitialised read, terminate, only the documented exception) for every input — containers (at_optional, maybe_front/back, pop_back/front, "
                   "find_opt, array::from_range, runtime_index), strings and arguments (is_flag, flag_name, enum from_string, next_arg = its structural "
                   "specification, args/args_from_second, getenv), streams in any state (read_chars with the buffer it fills, stream_to_string, io::get/peek/read, "
                   "write_chars), paths (extension_without_dot, stem/extension, strip_prefix inside its precondition), file-system and time helpers over an OS "
                   "oracle (file_size, create_directory, directory ranges, open_exn, gmtime); for the scalar registry EVERY instantiation translated from the "
                   "source on every run returns .ok whenever the exact result is representable (corollaries of the C06 theorems). The harness is the runtime "
                   "observation the property names: sanitizers, catch(...), watchdog, exact-size buffers; its results must equal the models' on exhaustive small "
                   "domains of values, stream states and path kinds."),
    "level_note": ("PARTIAL in the sense of DESIGN.md: memory safety of the template instantiations, object lifetimes, allocator and OS behaviour "
                   "are runtime facts the models cannot exhibit - the sanitizer verdict on the exercised inputs is their only witness; libstdc++ / glibc / "
                   "kernel behaviour enters as validated models and oracle tables. options::parse, parse::phrase_parse_string and impl::codecvt are covered "
                   "by C03, C02/C12 and C15. The known finding 'options::many around a non-consuming parser never terminates' is reported under C03. "
                   "Trusted: Lean kernel + propext/Classical.choice/Quot.sound, translator, harness, oracle tables."),
    "technique": "Lean 4 totality proofs over translated + hand-written models, differential correspondence under ASan/UBSan/watchdog",
    "design_ref": "DESIGN.md §5 C01",
}
