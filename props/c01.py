"""C01 — the safe API is total: no UB, crash or hang; failure only via optional/either."""
import os

from vlib.runner import Batch
from props import c06

ID = "C01"
LEAN_PROPS = ["FcpptProofs.Props.C01"]
LEAN_EXTRA = ["FcpptModel.Gen.Scalar"]
HARNESS = {"src": "harness/c01.cpp", "repo_srcs": [
    "libs/options/impl/src/options/impl/is_flag.cpp", "libs/options/impl/src/options/impl/next_arg.cpp",
    "libs/options/src/options/option_name.cpp", "libs/options/src/options/option_name_comparison.cpp",
    "libs/core/src/io/read_chars.cpp", "libs/core/src/insert_extract_locale.cpp",
    "libs/filesystem/src/filesystem/file_size.cpp", "libs/filesystem/src/filesystem/remove_extension.cpp",
    "libs/filesystem/src/filesystem/stem.cpp", "libs/filesystem/src/filesystem/path_to_string.cpp"]}
TIE = ("scalar registry: translated from /repo on every run (as C06); containers / strings / arguments / files: hand-written models with "
       "bounds-checked reads + differential correspondence; the harness is the C01 observation itself (ASan+UBSan+_GLIBCXX_ASSERTIONS, "
       "catch(...), per-line watchdog, exact-size heap buffers behind every string_view)")
RULE = ("container helpers: all lists over {0,1,2} up to length 4 with every index 0..5; is_flag / enum from_string / extract: all strings up to "
        "length 4 (quick) / 5 (thorough) over a 4-letter alphabet containing '-'; next_arg: all argument vectors up to length 3 (quick) / 4 "
        "(thorough) over 7 tokens x 4 option-name contexts; read_chars: all (length, count) up to 6 x 8; paths over {a,.,/} up to length 5; "
        "file_size on regular/empty/large file, directory, missing path, dangling and valid symlink, '.', ''; scalar: lattice and 8-bit ranges "
        "of every translated function. Non-trivial = any op other than the empty-container case.")
ASSUMPTIONS = [
    "std::vector/deque/map, std::filesystem and std::istream are modelled by their specification (List, oracle argument, list of remaining bytes)",
    "filesystem::remove_extension and extract_from_string are observed only for normal return (their value semantics belong to std:: and C15)",
    "memory safety of template instantiations and object lifetimes: sanitizer verdict on the exercised inputs (a runtime witness, not a proof)",
]
TRUSTED = ["harness/c01.cpp (+ c06.cpp tables)", "tools/cxx2lean.py for the scalar part"]

regenerate = c06.regenerate


def csv(vs):
    return ",".join(str(v) for v in vs) if vs else "-"


def words(alpha, maxlen):
    out = [""]
    frontier = [""]
    for _ in range(maxlen):
        frontier = [w + c for w in frontier for c in alpha]
        out += frontier
    return out


def lists(maxlen, dom=(0, 1, 2)):
    out = [[]]
    frontier = [[]]
    for _ in range(maxlen):
        frontier = [l + [d] for l in frontier for d in dom]
        out += frontier
    return out


def nontrivial(op, res):
    t = op.split()
    return not (len(t) > 1 and t[1] in ("-", "s:", "_"))


weight = c06.weight
refine = c06.refine


def batches(rng, tier):
    thorough = tier == "thorough"
    ops = []
    for l in lists(4):
        for i in range(0, 6):
            ops.append(f"atopt {csv(l)} {i}")
        ops += [f"front {csv(l)}", f"back {csv(l)}", f"popback {csv(l)}", f"popfront {csv(l)}"]
        for size in range(0, 5):
            ops.append(f"fromrange {size} {csv(l)}")
    for m in range(0, 6):
        if m == 4:
            continue
        for i in list(range(0, 8)) + [255, 256, 4294967295]:
            ops.append(f"rtindex {m} {i}")
    for keys in lists(3, dom=(1, 2, 3)):
        pairs = ",".join(f"{k}:{10 * k + j}" for j, k in enumerate(keys)) if keys else "_"
        for k in (1, 2, 3, 4):
            ops.append(f"findopt {pairs} {k}")
    ops += [f"dyncast {k}" for k in ("d1", "d2", "base")]
    yield Batch("containers", ops, exhaustive=True, note="at_optional/maybe_front/maybe_back/pop_back/pop_front/from_range/runtime_index/find_opt/cast::dynamic")
    n = 5 if thorough else 4
    ops = [f"isflag s:{w}" for w in words("-a=b", n)]
    ops += [f"enumfs s:{w}" for w in words("fobar", 4 if not thorough else 5)] + [f"enumfs s:{w}" for w in ("foo", "bar", "baz", "fo", "foobar", "foobarx", "fooba", "")]
    yield Batch("strings", ops, exhaustive=True, note="is_flag and enum from_string on all short strings, views backed by exact-size heap buffers")
    toks = ["-", "--", "-a", "--opt", "x", "-x", ""]
    ctxs = ["_", "opt:l", "a:s,opt:l", "x:s,:s"]
    vecs = [[]]
    frontier = [[]]
    for _ in range(4 if thorough else 3):
        frontier = [v + [t] for v in frontier for t in toks]
        vecs += frontier
    ops = [f"nextarg {','.join(v) if v else '_'} {c}" for v in vecs for c in ctxs]
    yield Batch("next_arg", ops, exhaustive=True, note="all argument vectors over 7 tokens incl. '-', '--' and the empty string, 4 option-name contexts")
    ops = []
    for ln in range(0, 7):
        s = "abcdef"[:ln]
        for cnt in range(0, 9):
            ops.append(f"readchars s:{s} {cnt}")
        ops.append(f"streamtostring s:{s}")
    ops += [f"filesize {k}" for k in ("file0", "file5", "file4096", "dir", "missing", "dangling", "symfile", "dot", "emptypath",
                                            "symsym", "selfloop", "loopa", "loopb", "symdir", "fifo", "longname", "underfile", "underloop", "longpath")]
    ops += [f"rmext s:{w}" for w in words("a./", 5)]
    for ty in ("int", "uint", "short", "ulong", "string"):
        ops += [f"extract {ty} s:{w}" for w in words("1-+ a", 3)] + [f"extract {ty} s:{w}" for w in ("99999999999999999999", "-99999999999999999999", "2147483648", "-2147483649", "65536", "0x10", "1e3")]
    yield Batch("streams-files-paths", ops, exhaustive=True, note="read_chars, stream_to_string, file_size, remove_extension, extract_from_string")
    # scalar registry: totality over boundary lattices (the full exhaustive ranges run under C06)
    ops = []
    for t in c06.UNS:
        for f in ("is_power_of_2", "next_power_of_2", "log2"):
            ops.append(f"list1 {f}_{t} {c06.csv(c06.lattice(t))}")
        ops.append(f"range1 power_of_2_{t} 0 70")
    for d in c06.ALL:
        for s in c06.ALL:
            ops.append(f"list1 truncation_check_{d}_{s} {c06.csv(c06.lattice(s))}")
    for f, ts in [("mod", c06.UNS), ("diff", c06.ALL), ("div", ["u32", "i32", "u64", "i64"]), ("ceil_div", ["u32", "u64"]),
                  ("ceil_div_signed", ["i32", "i64"])]:
        for t in ts:
            vs = c06.lattice(t)
            vs = sorted(set(vs[:10] + vs[-10:] + [v for v in vs if abs(v) < 4]))
            ops.append(f"list2 {f}_{t} {c06.csv(vs)} {c06.csv(vs)}")
    for u in c06.UNS:
        for v in c06.UNS:
            ops.append(f"list2 from_int_{u}_{v} {c06.csv(c06.lattice(v))} {c06.csv(c06.FROM_INT_SIZES[u])}")
    ops += [f"range2 {f}_{t} {c06.lo(t)} {c06.hi(t)} {c06.lo(t)} {c06.hi(t)}" for f, t in [("mod", "u8"), ("diff", "u8"), ("diff", "i8")]]
    yield Batch("scalar-registry", ops, note="every translated scalar function on its boundary lattice (incl. top bit set, min, max, 0) + all 8-bit pairs")


search = c06.search

MANIFEST = {
    "level_text": ("Machine-checked proof (Lean 4) of totality: for the container/string/argument helpers (at_optional, maybe_front/back, pop_back/front, "
                   "find_opt, array::from_range, runtime_index, enum from_string, options is_flag and next_arg, read_chars, file_size) models "
                   "with bounds-checked reads never reach a Fault (no out-of-bounds read, terminate) for every input; for the scalar registry "
                   "the definitions translated from the source on every run return .ok whenever the exact result is representable "
                   "(corollaries of the C06 theorems). The harness is the runtime observation the property names: sanitizers, catch(...), "
                   "watchdog, exact-size buffers; its results must equal the models' on exhaustive small domains."),
    "level_note": ("PARTIAL in the sense of DESIGN.md: memory safety of the template instantiations, object lifetimes, allocator and OS behaviour "
                   "are runtime facts the models cannot exhibit - the sanitizer verdict on the exercised inputs is their only witness. "
                   "options::parse, parse::phrase_parse_string and impl::codecvt are covered by C03, C02/C12 and C15. The known finding "
                   "'options::many around a non-consuming parser never terminates' is reported under C03. Trusted: Lean kernel + "
                   "propext/Classical.choice/Quot.sound, translator, harness."),
    "technique": "Lean 4 totality proofs over translated + hand-written models, differential correspondence under ASan/UBSan/watchdog",
    "design_ref": "DESIGN.md §5 C01",
}
