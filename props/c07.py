"""C07 — raw_vector and buffer behave like std::vector for every operation history."""
from vlib.runner import Batch

ID = "C07"
LEAN_PROPS = ["FcpptProofs.Props.C07"]
HARNESS = {"src": "harness/c07.cpp", "repo_srcs": ["libs/core/src/io/read_chars.cpp"], "flags": [], "libs": []}
TIE = ("hand-written two-layer model (FcpptModel/Model/C07.lean: checked heap + pointer triples) + three-way differential "
       "correspondence: real raw_vector/buffer templates vs std::vector (inside the harness) vs the Lean model")
RULE = ("one history = `reset`, a constructor, then up to 30 (quick) / 60 (thorough) operations over 3 vector and 2 buffer "
        "registers; after every operation: returned iterator offset, contents by iteration, size, capacity>=size, "
        "'reallocated iff needed', number of live allocations (ledger allocator), agreement with std::vector. "
        "Systematic batch: every constructor-produced size 0..4 x spare capacity 0..3 x every single operation with every "
        "valid position / count / aliased index. An op is non-trivial if it is executed (not `invalid`); distinct = "
        "distinct (op, result) pairs.")
ASSUMPTIONS = [
    "element type int (trivial); an argument `T const&` is either a value living elsewhere or a reference to an element of the same vector",
    "std::allocator/operator new: allocate(n) returns a fresh block of n cells disjoint from all live blocks (also for n = 0)",
    "std::uninitialized_copy/std::copy = first-to-last copy, std::copy_backward = last-to-first, std::uninitialized_fill reads the value once",
    "growth policy is a parameter g with n <= g n cap (the driver uses the code's max(n, 2*cap); capacities are compared only as cap >= size and 'reallocated iff needed')",
    "move assignment: the standard leaves the source unspecified; the specification fixes it to the target's old contents (swap)",
    "std::istream::read(count) is good iff count characters were available",
]
TRUSTED = ["harness/c07.cpp (ledger allocator, std::vector reference, poke of spare capacity) and the line protocol",
           "g++ 12 + ASan/UBSan/LeakSanitizer as witness for the memory layer of the real code"]

NV, NB = 3, 2


def nontrivial(op, result):
    return op not in ("reset", "end") and result not in ("invalid", "bad-op")


class Sim:
    """Sizes (and the model's capacities, for steering and statistics only) of the registers."""

    def __init__(self, rng, stats):
        self.rng = rng
        self.sz = [0] * NV
        self.cap = [0] * NV
        self.brd = [0] * NB
        self.bws = [0] * NB
        self.bcap = [0] * NB
        self.counter = rng.below(50)
        self.stats = stats

    def val(self):
        self.counter += 1
        return self.counter % 1000 - (500 if self.rng.chance(1, 10) else 0)

    def vals(self, n):
        return [self.val() for _ in range(n)]

    @staticmethod
    def lst(xs):
        return ",".join(map(str, xs)) if xs else "-"

    def src(self, r, alias_num=2, alias_den=5):
        if self.sz[r] > 0 and self.rng.chance(alias_num, alias_den):
            return f"s{self.rng.below(self.sz[r])}"
        return f"v{self.val()}"

    def count(self, k, what):
        self.stats[k + ":" + what] = self.stats.get(k + ":" + what, 0) + 1

    def grow(self, r, n, kind):
        new = self.sz[r] + n
        if new > self.cap[r]:
            self.cap[r] = max(new, 2 * self.cap[r])
            self.count(kind, "realloc")
        else:
            self.count(kind, "inplace" + ("-empty" if self.sz[r] == 0 else ""))
        self.sz[r] = new

    def pos(self, r):
        n = self.sz[r]
        k = self.rng.below(6)
        if k == 0:
            return 0
        if k == 1:
            return n
        return self.rng.below(n + 1)

    # ---- one random operation on the vectors
    def vop(self, maxsize=40):
        rng = self.rng
        r = rng.choice([0, 0, 0, 1, 2])
        n = self.sz[r]
        k = rng.below(100)
        if n > maxsize:
            k = 50 + rng.below(20)      # erase something
        if k < 10:
            s = self.src(r)
            self.grow(r, 1, "push")
            return f"push {r} {s}"
        if k < 14:
            if n == 0:
                self.grow(r, 1, "push")
                return f"push {r} v{self.val()}"
            self.sz[r] -= 1
            self.count("pop", "x")
            return f"pop {r}"
        if k < 27:
            p, s = self.pos(r), self.src(r, 1, 2)
            self.grow(r, 1, "ins1")
            return f"ins1 {r} {p} {s}"
        if k < 38:
            p, s = self.pos(r), self.src(r, 1, 2)
            c = rng.choice([0, 1, 1, 2, 3, 5, 8])
            self.grow(r, c, "insn")
            return f"insn {r} {p} {c} {s}"
        if k < 50:
            p = self.pos(r)
            c = rng.choice([0, 1, 2, 3, 4, 6, 9])
            f = rng.choice(["fwd", "inp"])
            xs = self.vals(c)
            if c == 0:
                self.count("insr-" + f, "empty")
            elif f == "fwd":
                self.grow(r, c, "insr-fwd")
            else:
                for _ in range(c):
                    self.grow(r, 1, "insr-inp")
            return f"insr {r} {p} {f} {self.lst(xs)}"
        if k < 58:
            if n == 0:
                return f"clear {r}"
            p = rng.below(n) if rng.chance(2, 3) else rng.choice([0, n - 1])
            self.sz[r] -= 1
            self.count("era1", "last" if p == n - 1 else "inner")
            return f"era1 {r} {p}"
        if k < 66:
            a = rng.below(n + 1)
            b = a + rng.below(n - a + 1)
            if b == a and a < n and rng.chance(4, 5):
                b = a + 1 + rng.below(n - a)
            if rng.chance(1, 6):
                b = n
            if rng.chance(1, 12):
                b = a
            self.sz[r] -= b - a
            self.count("erar", "empty" if a == b else "tail" if b == n else "inner")
            return f"erar {r} {a} {b}"
        if k < 73:
            m = rng.below(n + 6) if rng.chance(3, 4) else n
            s = self.src(r, 1, 3)
            if m > n:
                self.grow(r, m - n, "resize-grow")
            else:
                self.sz[r] = m
                self.count("resize", "shrink" if m < n else "same")
            return f"resize {r} {m} {s}"
        if k < 80:
            m = rng.choice([0, n, self.cap[r], self.cap[r] + 1, n + rng.below(12), rng.below(30)])
            if m > self.cap[r]:
                self.cap[r] = max(m, 2 * self.cap[r])
                self.count("reserve", "realloc")
            else:
                self.count("reserve", "noop")
            return f"reserve {r} {m}"
        if k < 83:
            self.cap[r] = n
            self.count("shrink", "x")
            return f"shrink {r}"
        if k < 85:
            self.sz[r] = 0
            self.count("clear", "x")
            return f"clear {r}"
        if k < 88:
            s = rng.below(NV)
            self.sz[r], self.sz[s] = self.sz[s], self.sz[r]
            self.cap[r], self.cap[s] = self.cap[s], self.cap[r]
            self.count("swap", "self" if r == s else "x")
            return f"swap {r} {s}"
        if k < 91:
            s = (r + 1 + rng.below(NV - 1)) % NV
            self.sz[r], self.sz[s] = self.sz[s], self.sz[r]
            self.cap[r], self.cap[s] = self.cap[s], self.cap[r]
            self.count("massign", "x")
            return f"massign {r} {s}"
        if k < 95:
            return self.ctor(r)
        if k < 97:
            return f"cmp {r} {rng.below(NV)}"
        return f"obs {r}"

    def ctor(self, r, kind=None):
        rng = self.rng
        kind = kind if kind is not None else rng.below(7)
        self.count("ctor", str(kind))
        if kind == 0:
            self.sz[r] = self.cap[r] = 0
            return f"ctor {r} default"
        if kind == 1:
            n = rng.choice([0, 1, 2, 3, 5, 8])
            self.sz[r] = self.cap[r] = n
            return f"ctor {r} count {n} {self.val()}"
        if kind in (2, 3):
            n = rng.choice([0, 1, 2, 3, 4, 7])
            f = "fwd" if kind == 2 else "inp"
            self.sz[r] = n
            if f == "fwd":
                self.cap[r] = n
            else:
                c = 0
                for i in range(1, n + 1):
                    if i > c:
                        c = max(i, 2 * c)
                self.cap[r] = c
            return f"ctor {r} range {f} {self.lst(self.vals(n))}"
        if kind == 4:
            n = rng.choice([0, 1, 2, 3, 4, 5, 6])
            self.sz[r] = self.cap[r] = n
            return f"ctor {r} il {self.lst(self.vals(n))}"
        if kind == 5:
            s = (r + 1 + rng.below(NV - 1)) % NV
            self.sz[r], self.cap[r] = self.sz[s], self.cap[s]
            self.sz[s] = self.cap[s] = 0
            return f"ctor {r} move {s}"
        b = rng.below(NB)
        self.sz[r], self.cap[r] = self.brd[b], self.bcap[b]
        self.brd[b] = self.bws[b] = self.bcap[b] = 0
        return f"ctor {r} buf {b}"

    def bresize_sim(self, b, n):
        if self.bcap[b] - self.brd[b] >= n:
            self.count("bresize", "inplace")
        else:
            self.bcap[b] = max(n + self.brd[b], 2 * self.bcap[b])
            self.count("bresize", "realloc")
        self.bws[b] = n

    def bop(self):
        rng = self.rng
        b = rng.below(NB)
        k = rng.below(100)
        if k < 10:
            n = rng.choice([0, 1, 2, 4, 7])
            self.brd[b], self.bws[b], self.bcap[b] = 0, n, n
            self.count("bctor", "x")
            return f"bctor {b} {n}"
        if k < 30:
            n = rng.choice([0, 1, 2, 3, 5, 9, self.bws[b]])
            self.bresize_sim(b, n)
            return f"bresize {b} {n}"
        if k < 50:
            c = rng.below(self.bws[b] + 1)
            if rng.chance(1, 4):
                c = self.bws[b]
            self.brd[b] += c
            self.bws[b] -= c
            self.count("bfill", "all" if self.bws[b] == 0 else "part")
            return f"bfill {b} {self.lst(self.vals(c))}"
        if k < 65:
            n = rng.choice([0, 1, 2, 3, 6])
            c = rng.below(n + 1)
            self.bresize_sim(b, n)
            self.brd[b] += c
            self.bws[b] = n - c
            return f"bappend {b} {n} {self.lst(self.vals(c))}"
        if k < 75:
            n = rng.choice([0, 1, 2, 3, 6])
            self.bresize_sim(b, n)
            if rng.chance(1, 3):
                self.count("bappendopt", "none")
                return f"bappendopt {b} {n} none"
            c = rng.below(n + 1)
            self.brd[b] += c
            self.bws[b] = n - c
            self.count("bappendopt", "some")
            return f"bappendopt {b} {n} {self.lst(self.vals(c))}"
        if k < 82:
            n = rng.choice([0, 1, 3, 5])
            c = rng.below(n + 1)
            self.brd[b], self.bws[b], self.bcap[b] = c, n - c, n
            self.count("bread", "x")
            return f"bread {b} {n} {self.lst(self.vals(c))}"
        c = (b + 1) % NB
        if k < 88:
            self.brd[b], self.bws[b], self.bcap[b] = self.brd[c], self.bws[c], self.bcap[c]
            self.brd[c] = self.bws[c] = self.bcap[c] = 0
            self.count("bmovector", "x")
            return f"bmovector {b} {c}"
        for a in (self.brd, self.bws, self.bcap):
            a[b], a[c] = a[c], a[b]
        if k < 94:
            self.count("bswap", "x")
            return f"bswap {b} {c}"
        self.count("bmassign", "x")
        return f"bmassign {b} {c}"


def histories(rng, count, length, stats, buffer_share):
    ops = []
    for i in range(count):
        sim = Sim(rng, stats)
        ops.append("reset")
        ops.append(sim.ctor(0, i % 7 if i % 7 < 5 else 0))       # every constructor that needs no other register
        n = rng.range(length // 2, length)
        for _ in range(n):
            o = sim.bop() if rng.chance(buffer_share, 100) else sim.vop()
            if o:
                ops.append(o)
        ops.append("end")
    ops.append("reset")
    return ops


def buffer_histories(rng, count, length, stats):
    """buffer grown and filled in some pattern, converted, the resulting vector used further"""
    ops = []
    for _ in range(count):
        sim = Sim(rng, stats)
        ops.append("reset")
        ops.append(f"bctor 0 {rng.choice([0, 1, 2, 5])}")
        sim.bws[0] = sim.bcap[0] = int(ops[-1].split()[2])
        for _ in range(rng.range(2, length)):
            ops.append(sim.bop())
        b = rng.below(NB)
        # convert buffer b
        sim.sz[0], sim.cap[0] = sim.brd[b], sim.bcap[b]
        sim.brd[b] = sim.bws[b] = sim.bcap[b] = 0
        ops.append(f"ctor 0 buf {b}")
        ops.append("obs 0")
        for _ in range(rng.range(1, 8)):
            o = sim.vop() if rng.chance(3, 4) else sim.bop()
            if o:
                ops.append(o)
        ops.append("end")
    ops.append("reset")
    return ops


def systematic(sizes, extras, thorough):
    """every single operation with every valid position/count/alias from every small (size, spare capacity) state"""
    ops = []
    for n in sizes:
        base = list(range(10, 10 + n))
        lst = ",".join(map(str, base)) if base else "-"
        for extra in extras:
            for ck in range(3):
                pre = ["reset"]
                if ck == 0:
                    pre.append(f"ctor 0 il {lst}")
                elif ck == 1:
                    pre.append(f"ctor 0 range inp {lst}")
                else:
                    # same contents, reached by erasing: capacity without reallocation history
                    pre.append(f"ctor 0 count {n + 2} 7")
                    pre.append(f"erar 0 0 2")
                    for i in range(n):
                        pre.append(f"era1 0 0")
                        pre.append(f"push 0 v{10 + i}")
                if extra is not None:
                    pre.append(f"reserve 0 {n + extra}")
                if ck != 0 and not thorough:
                    continue
                srcs = ["v99"] + [f"s{i}" for i in range(n)]
                cases = []
                for s in srcs:
                    cases.append(f"push 0 {s}")
                    for p in range(n + 1):
                        cases.append(f"ins1 0 {p} {s}")
                        for c in (0, 1, 2, 3):
                            cases.append(f"insn 0 {p} {c} {s}")
                    for m in range(n + 4):
                        cases.append(f"resize 0 {m} {s}")
                for p in range(n + 1):
                    for xs in ("-", "70", "70,71,72"):
                        cases.append(f"insr 0 {p} fwd {xs}")
                        cases.append(f"insr 0 {p} inp {xs}")
                for p in range(n):
                    cases.append(f"era1 0 {p}")
                for a in range(n + 1):
                    for b in range(a, n + 1):
                        cases.append(f"erar 0 {a} {b}")
                cases += ["pop 0", "clear 0", "shrink 0", f"reserve 0 {n + 5}", "ctor 1 move 0", "swap 0 1", "massign 1 0"]
                for c in cases:
                    ops += pre + [c, "obs 0", "push 0 v55", "end"]
    ops.append("reset")
    return ops


def readchars_ops():
    ops = []
    for ln in range(0, 7):
        xs = ",".join(str(97 + i) for i in range(ln)) if ln else "-"
        for count in range(0, 9):
            ops.append(f"readchars {count} {xs}")
    ops.append("readchars 300 " + ",".join(str(32 + i % 90) for i in range(300)))
    ops.append("readchars 301 " + ",".join(str(32 + i % 90) for i in range(300)))
    return ops


def fmt_stats(stats):
    return " ".join(f"{k}={v}" for k, v in sorted(stats.items()))


def batches(rng, tier):
    thorough = tier == "thorough"
    yield Batch("readchars", readchars_ops(), exhaustive=True, note="read_chars for every stream length 0..6 x count 0..8")
    sys_ops = systematic(range(0, 5) if thorough else range(0, 4), [None, 0, 1, 2, 3] if thorough else [None, 1, 3], thorough)
    yield Batch("systematic-single-ops", sys_ops, kind="history", exhaustive=True,
                note="all positions/counts/aliases for sizes 0..%d x spare capacity" % (4 if thorough else 3))
    # comparison.hpp on every pair of short vectors (equal prefixes, different lengths, empty, one differing element at each place)
    import itertools
    seqs = [list(t) for n in range(0, 4 if thorough else 3) for t in itertools.product([0, 1, 2] if thorough else [0, 1], repeat=n)]
    cmp_ops = []
    for a in seqs:
        for b in seqs:
            cmp_ops += ["reset",
                        "ctor 0 il " + (",".join(map(str, a)) if a else "-"),
                        "ctor 1 il " + (",".join(map(str, b)) if b else "-"),
                        "cmp 0 1", "cmp 1 0", "cmp 0 0"]
    yield Batch("cmp-all-pairs", cmp_ops, kind="history", exhaustive=True,
                note="== != < > <= >= on every pair of vectors over a small alphabet up to length %d" % (3 if thorough else 2))
    stats = {}
    ops = histories(rng.fork("vec"), 30000 if thorough else 6000, 60 if thorough else 30, stats, 8)
    yield Batch("vector-histories", ops, kind="history", note="random histories; generator distribution: " + fmt_stats(stats))
    stats = {}
    ops = buffer_histories(rng.fork("buf"), 15000 if thorough else 3000, 14 if thorough else 10, stats)
    yield Batch("buffer-histories", ops, kind="history", note="buffer histories ending in to_raw_vector; distribution: " + fmt_stats(stats))
    stats = {}
    ops = histories(rng.fork("long"), 3000 if thorough else 600, 120 if thorough else 60, stats, 30)
    yield Batch("mixed-long-histories", ops, kind="history", note="longer mixed vector/buffer histories; distribution: " + fmt_stats(stats))


MANIFEST = {
    "level_text": ("Machine-checked proof (Lean 4) over an executable two-layer model of raw_vector and buffer (bounds- and "
                   "initialisation-checked heap with an allocation ledger; pointer triples; every member mirrored path by path, "
                   "growth policy a parameter): for all histories of valid operations from every constructor the model never faults "
                   "(no access outside an allocation, no uninitialised read, no double free, no leak once the destructors ran), "
                   "capacity >= size, and contents and returned iterator offsets are those of the List specification of std::vector, "
                   "including aliased arguments; a buffer hands exactly its read area to the raw_vector it is converted into. "
                   "The model is tied to the code by a three-way differential correspondence (real templates vs std::vector vs model) "
                   "over systematic single-operation cases and random histories up to length 60 under ASan/UBSan/LSan with a ledger allocator."),
    "level_note": ("Trusted: Lean kernel + propext/Classical.choice/Quot.sound; fidelity of the hand-written model outside the "
                   "exercised inputs; harness, ledger allocator and line protocol; the standard algorithms' copy order. "
                   "No sorry/axiom/native_decide."),
    "technique": "Lean 4 proof (invariant + refinement over a checked heap model) + three-way differential correspondence (ASan/UBSan/LSan harness)",
    "design_ref": "DESIGN.md §5 C07, Appendix A.3",
}
