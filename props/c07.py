"""C07 — raw_vector and buffer behave like std::vector for every operation history."""
from vlib.runner import Batch

ID = "C07"
LEAN_PROPS = ["FcpptProofs.Props.C07"]
HARNESS = {"src": "harness/c07.cpp", "repo_srcs": ["libs/core/src/io/read_chars.cpp"], "flags": [], "libs": []}
TIE = ("hand-written two-layer model (FcpptModel/Model/C07.lean: checked heap + pointer triples) + three-way differential "
       "correspondence: real raw_vector/buffer templates vs std::vector (inside the harness) vs the Lean model")
RULE = ("one history = `reset`, a constructor, then up to 30 (quick) / 60 (thorough) operations over 3 vector and 2 buffer "
        "registers; after every operation: returned iterator offset, contents by iteration, size, capacity>=size, "
        "'reallocated iff needed' (reok), capacity never shrinks / reserve(n) gives >= n / shrink_to_fit gives == size (cpok), "
        "a capacity that changes at least doubles (geo), buffer storage moved iff the write area did not fit (mv), number of live "
        "allocations (ledger allocator), agreement with std::vector; `dump` of all registers at the end of every history. "
        "Systematic batches: every constructor-produced size 0..3/4 x spare capacity x every single operation with every valid "
        "position / count / aliased index / iterator kind / accessor / own sub-range; special first step (moved-from, swapped away, "
        "emptied, shrunk, self-assigned, converted buffer) x every second operation and save-mutate-restore; every pair of short "
        "vectors x capacity state for the six comparison operators; every buffer program of 2/3 steps; dynamic_array sizes 0..5. "
        "An op is non-trivial if it is executed (not `invalid`); distinct = distinct (op, result) pairs. "
        "Fault injection: `failat k` / `failsize n` make the ledger allocator throw std::bad_alloc; a throwing op prints all registers, the "
        "ledger and `sg` (registers the exception may not change are untouched); batches: every single op x 1st/2nd allocation failing, "
        "special first step x failing op, failing op x any op, buffer ops / constructors / read_from / dynamic_array under failure. "
        "Besides the diff: API inventory (every public member of the anchored classes must be listed with the op reaching it).")
ASSUMPTIONS = [
    "element type int (trivial); an argument `T const&` is either a value living elsewhere or a reference to an element of the same vector",
    "std::allocator/operator new: allocate(n) returns a fresh block of n cells disjoint from all live blocks (also for n = 0)",
    "std::uninitialized_copy/std::copy = first-to-last copy, std::copy_backward = last-to-first, std::uninitialized_fill reads the value once",
    "growth policy is a parameter g with n <= g n cap (the driver uses the code's max(n, 2*cap); capacities are compared only as cap >= size and 'reallocated iff needed')",
    "move assignment: the standard leaves the source unspecified; the specification fixes it to the target's old contents (swap)",
    "std::istream::read(count) is good iff count characters were available",
    "allocate either returns a fresh block or throws std::bad_alloc before any effect; in the code as it is allocate is the first effect of "
    "every reallocating path (the model places the throw at the member's allocation request)",
    "insert(pos, first, last) with [first,last) inside the vector itself is outside std::vector's contract; it is specified (and proved) "
    "only where raw_vector's answer does not depend on the capacity (last <= pos); elsewhere model and code are compared without a specification",
]
TRUSTED = ["harness/c07.cpp (ledger allocator, std::vector reference, poke of spare capacity) and the line protocol",
           "g++ 12 + ASan/UBSan/LeakSanitizer as witness for the memory layer of the real code"]

NV, NB = 3, 2


def nontrivial(op, result):
    return op not in ("reset", "end") and result not in ("invalid", "bad-op")


class Sim:
    """Sizes (and the model's capacities, for steering and statistics only) of the registers."""

    def __init__(self, rng, stats):
        self.rng = rng
        self.sz = [0] * NV
        self.cap = [0] * NV
        self.brd = [0] * NB
        self.bws = [0] * NB
        self.bcap = [0] * NB
        self.counter = rng.below(50)
        self.stats = stats

    def val(self):
        self.counter += 1
        return self.counter % 1000 - (500 if self.rng.chance(1, 10) else 0)

    def vals(self, n):
        return [self.val() for _ in range(n)]

    @staticmethod
    def lst(xs):
        return ",".join(map(str, xs)) if xs else "-"

    def src(self, r, alias_num=2, alias_den=5):
        if self.sz[r] > 0 and self.rng.chance(alias_num, alias_den):
            return f"s{self.rng.below(self.sz[r])}"
        return f"v{self.val()}"

    def count(self, k, what):
        self.stats[k + ":" + what] = self.stats.get(k + ":" + what, 0) + 1

    def grow(self, r, n, kind):
        new = self.sz[r] + n
        if new > self.cap[r]:
            self.cap[r] = max(new, 2 * self.cap[r])
            self.count(kind, "realloc")
        else:
            self.count(kind, "inplace" + ("-empty" if self.sz[r] == 0 else ""))
        self.sz[r] = new

    def pos(self, r):
        n = self.sz[r]
        k = self.rng.below(6)
        if k == 0:
            return 0
        if k == 1:
            return n
        return self.rng.below(n + 1)

    # ---- one random operation on the vectors
    def vop(self, maxsize=40):
        rng = self.rng
        r = rng.choice([0, 0, 0, 1, 2])
        n = self.sz[r]
        k = rng.below(100)
        if n > maxsize:
            k = 50 + rng.below(20)      # erase something
        if k < 10:
            s = self.src(r)
            self.grow(r, 1, "push")
            return f"push {r} {s}"
        if k < 14:
            if n == 0:
                self.grow(r, 1, "push")
                return f"push {r} v{self.val()}"
            self.sz[r] -= 1
            self.count("pop", "x")
            return f"pop {r}"
        if k < 27:
            p, s = self.pos(r), self.src(r, 1, 2)
            self.grow(r, 1, "ins1")
            return f"ins1 {r} {p} {s}"
        if k < 38:
            p, s = self.pos(r), self.src(r, 1, 2)
            c = rng.choice([0, 1, 1, 2, 3, 5, 8])
            self.grow(r, c, "insn")
            return f"insn {r} {p} {c} {s}"
        if k < 40 and n > 0:
            # a range of the vector itself, mostly in front of the insertion point
            p = self.pos(r)
            b = rng.below((p if rng.chance(4, 5) else n) + 1)
            a = rng.below(b + 1)
            self.grow(r, b - a, "insr-self" + ("" if b <= p else "-nospec"))
            return f"insr {r} {p} self {a} {b}"
        if k < 50:
            p = self.pos(r)
            c = rng.choice([0, 1, 2, 3, 4, 6, 9])
            f = rng.choice(["fwd", "inp", "fwd", "inp", "ptr", "fl", "bidi"])
            xs = self.vals(c)
            if c == 0:
                self.count("insr-" + f, "empty")
            elif f != "inp":
                self.grow(r, c, "insr-" + f)
            else:
                for _ in range(c):
                    self.grow(r, 1, "insr-inp")
            return f"insr {r} {p} {f} {self.lst(xs)}"
        if k < 58:
            if n == 0:
                return f"clear {r}"
            p = rng.below(n) if rng.chance(2, 3) else rng.choice([0, n - 1])
            self.sz[r] -= 1
            self.count("era1", "last" if p == n - 1 else "inner")
            return f"era1 {r} {p}"
        if k < 66:
            a = rng.below(n + 1)
            b = a + rng.below(n - a + 1)
            if b == a and a < n and rng.chance(4, 5):
                b = a + 1 + rng.below(n - a)
            if rng.chance(1, 6):
                b = n
            if rng.chance(1, 12):
                b = a
            self.sz[r] -= b - a
            self.count("erar", "empty" if a == b else "tail" if b == n else "inner")
            return f"erar {r} {a} {b}"
        if k < 73:
            m = rng.below(n + 6) if rng.chance(3, 4) else n
            s = self.src(r, 1, 3)
            if m > n:
                self.grow(r, m - n, "resize-grow")
            else:
                self.sz[r] = m
                self.count("resize", "shrink" if m < n else "same")
            return f"resize {r} {m} {s}"
        if k < 80:
            m = rng.choice([0, n, self.cap[r], self.cap[r] + 1, n + rng.below(12), rng.below(30)])
            if m > self.cap[r]:
                self.cap[r] = max(m, 2 * self.cap[r])
                self.count("reserve", "realloc")
            else:
                self.count("reserve", "noop")
            return f"reserve {r} {m}"
        if k < 83:
            self.cap[r] = n
            self.count("shrink", "x")
            return f"shrink {r}"
        if k < 85:
            self.sz[r] = 0
            self.count("clear", "x")
            return f"clear {r}"
        if k < 88:
            s = rng.below(NV)
            self.sz[r], self.sz[s] = self.sz[s], self.sz[r]
            self.cap[r], self.cap[s] = self.cap[s], self.cap[r]
            self.count("swap", "self" if r == s else "x")
            return f"swap {r} {s}"
        if k < 91:
            s = rng.below(NV)
            self.sz[r], self.sz[s] = self.sz[s], self.sz[r]
            self.cap[r], self.cap[s] = self.cap[s], self.cap[r]
            self.count("massign", "self" if r == s else "x")
            return f"massign {r} {s}"
        if k < 94:
            return self.ctor(r)
        if k < 96:
            return f"cmp {r} {rng.below(NV)}"
        if k < 98 and n > 0:
            how = rng.choice(["idx", "it", "data", "front", "back"])
            self.count("set", how)
            i = 0 if how in ("front", "back") else (rng.below(n) if rng.chance(2, 3) else rng.choice([0, n - 1]))
            return f"set {r} {how} {i} {self.val()}"
        return f"obs {r}"

    def ctor(self, r, kind=None):
        rng = self.rng
        kind = kind if kind is not None else rng.below(7)
        self.count("ctor", str(kind))
        al = "a" if rng.chance(1, 4) else ""
        if kind == 0:
            self.sz[r] = self.cap[r] = 0
            return f"ctor {r} {al}default"
        if kind == 1:
            n = rng.choice([0, 1, 2, 3, 5, 8])
            self.sz[r] = self.cap[r] = n
            return f"ctor {r} {al}count {n} {self.val()}"
        if kind in (2, 3):
            n = rng.choice([0, 1, 2, 3, 4, 7])
            f = rng.choice(["fwd", "fwd", "ptr", "fl", "bidi"]) if kind == 2 else "inp"
            self.sz[r] = n
            if f != "inp":
                self.cap[r] = n
            else:
                c = 0
                for i in range(1, n + 1):
                    if i > c:
                        c = max(i, 2 * c)
                self.cap[r] = c
            return f"ctor {r} {al}range {f} {self.lst(self.vals(n))}"
        if kind == 4:
            n = rng.choice([0, 1, 2, 3, 4, 5, 6])
            self.sz[r] = self.cap[r] = n
            return f"ctor {r} {al}il {self.lst(self.vals(n))}"
        if kind == 5:
            s = (r + 1 + rng.below(NV - 1)) % NV
            self.sz[r], self.cap[r] = self.sz[s], self.cap[s]
            self.sz[s] = self.cap[s] = 0
            return f"ctor {r} move {s}"
        b = rng.below(NB)
        self.sz[r], self.cap[r] = self.brd[b], self.bcap[b]
        self.brd[b] = self.bws[b] = self.bcap[b] = 0
        return f"ctor {r} buf {b}"

    def bresize_sim(self, b, n):
        if self.bcap[b] - self.brd[b] >= n:
            self.count("bresize", "inplace")
        else:
            self.bcap[b] = max(n + self.brd[b], 2 * self.bcap[b])
            self.count("bresize", "realloc")
        self.bws[b] = n

    def bop(self):
        rng = self.rng
        b = rng.below(NB)
        k = rng.below(100)
        if k < 10:
            n = rng.choice([0, 1, 2, 4, 7])
            self.brd[b], self.bws[b], self.bcap[b] = 0, n, n
            self.count("bctor", "x")
            return f"b{'a' if rng.chance(1, 4) else ''}ctor {b} {n}"
        if k < 30:
            n = rng.choice([0, 1, 2, 3, 5, 9, self.bws[b]])
            self.bresize_sim(b, n)
            return f"bresize {b} {n}"
        if k < 50:
            c = rng.below(self.bws[b] + 1)
            if rng.chance(1, 4):
                c = self.bws[b]
            self.brd[b] += c
            self.bws[b] -= c
            self.count("bfill", "all" if self.bws[b] == 0 else "part")
            return f"bfill {b} {self.lst(self.vals(c))}"
        if k < 65:
            n = rng.choice([0, 1, 2, 3, 6])
            c = rng.below(n + 1)
            self.bresize_sim(b, n)
            self.brd[b] += c
            self.bws[b] = n - c
            return f"bappend {b} {n} {self.lst(self.vals(c))}"
        if k < 75:
            n = rng.choice([0, 1, 2, 3, 6])
            self.bresize_sim(b, n)
            if rng.chance(1, 3):
                self.count("bappendopt", "none")
                return f"bappendopt {b} {n} none"
            c = rng.below(n + 1)
            self.brd[b] += c
            self.bws[b] = n - c
            self.count("bappendopt", "some")
            return f"bappendopt {b} {n} {self.lst(self.vals(c))}"
        if k < 81:
            n = rng.choice([0, 1, 3, 5])
            c = rng.below(n + 1)
            self.brd[b], self.bws[b], self.bcap[b] = c, n - c, n
            self.count("bread", "x")
            return f"bread {b} {n} {self.lst(self.vals(c))}"
        if k < 85:
            n = rng.choice([0, 1, 3, 5])
            if rng.chance(1, 3):
                self.brd[b] = self.bws[b] = self.bcap[b] = 0
                self.count("breadopt", "none")
                return f"breadopt {b} {n} none"
            c = rng.below(n + 1)
            self.brd[b], self.bws[b], self.bcap[b] = c, n - c, n
            self.count("breadopt", "some")
            return f"breadopt {b} {n} {self.lst(self.vals(c))}"
        if k < 87:
            return f"bobs {b}"
        c = (b + 1) % NB
        if k >= 89 and rng.chance(1, 5):
            c = b       # self-swap / self-move-assignment
        if k < 89:
            self.brd[b], self.bws[b], self.bcap[b] = self.brd[c], self.bws[c], self.bcap[c]
            self.brd[c] = self.bws[c] = self.bcap[c] = 0
            self.count("bmovector", "x")
            return f"bmovector {b} {c}"
        for a in (self.brd, self.bws, self.bcap):
            a[b], a[c] = a[c], a[b]
        if k < 95:
            self.count("bswap", "self" if b == c else "x")
            return f"bswap {b} {c}"
        self.count("bmassign", "self" if b == c else "x")
        return f"bmassign {b} {c}"


def gen_op(sim, rng, buffer_share):
    """one random operation; now and then under `failat 1`: if the simulation predicts a reallocation for an operation
    that allocates once, the operation throws and leaves everything as it was"""
    inject = rng.chance(1, 14)
    snap = (list(sim.sz), list(sim.cap), list(sim.brd), list(sim.bws), list(sim.bcap))
    o = sim.bop() if rng.chance(buffer_share, 100) else sim.vop()
    if not o or not inject:
        return [o] if o else []
    w = o.split()
    single = w[0] in ("push", "ins1", "insn", "resize", "reserve", "shrink", "bresize", "bappend", "bappendopt") or \
        (w[0] == "insr" and w[3] != "inp")
    if not single:
        return [o]
    grew = snap[1] != sim.cap or snap[4] != sim.bcap or w[0] == "shrink"
    if grew:
        sim.sz, sim.cap, sim.brd, sim.bws, sim.bcap = snap
        sim.count("failat", w[0])
    return ["failat 1", o]


def histories(rng, count, length, stats, buffer_share):
    ops = []
    for i in range(count):
        sim = Sim(rng, stats)
        ops.append("reset")
        ops.append(sim.ctor(0, i % 7 if i % 7 < 5 else 0))       # every constructor that needs no other register
        n = rng.range(length // 2, length)
        for _ in range(n):
            ops += gen_op(sim, rng, buffer_share)
        ops.append("dump")
        ops.append("end")
    ops.append("reset")
    return ops


def buffer_histories(rng, count, length, stats):
    """buffer grown and filled in some pattern, converted, the resulting vector used further"""
    ops = []
    for _ in range(count):
        sim = Sim(rng, stats)
        ops.append("reset")
        ops.append(f"bctor 0 {rng.choice([0, 1, 2, 5])}")
        sim.bws[0] = sim.bcap[0] = int(ops[-1].split()[2])
        for _ in range(rng.range(2, length)):
            ops.append(sim.bop())
        b = rng.below(NB)
        # convert buffer b
        sim.sz[0], sim.cap[0] = sim.brd[b], sim.bcap[b]
        sim.brd[b] = sim.bws[b] = sim.bcap[b] = 0
        ops.append(f"ctor 0 buf {b}")
        ops.append("obs 0")
        for _ in range(rng.range(1, 8)):
            o = sim.vop() if rng.chance(3, 4) else sim.bop()
            if o:
                ops.append(o)
        ops.append("dump")
        ops.append("end")
    ops.append("reset")
    return ops


KINDS = ("fwd", "inp", "ptr", "fl", "bidi")


def single_cases(n, r=0, full=True):
    """every single operation on register r holding n elements: every valid position / count / aliased index /
    iterator kind / accessor; full=False: a reduced set (used as the second step of two-step sequences)"""
    o = (r + 1) % NV
    srcs = ["v99"] + [f"s{i}" for i in range(n)]
    cases = []
    for s in srcs:
        cases.append(f"push {r} {s}")
        for p in range(n + 1):
            cases.append(f"ins1 {r} {p} {s}")
            for c in ((0, 1, 2, 3) if full else (0, 2)):
                cases.append(f"insn {r} {p} {c} {s}")
        for m in range(n + 4) if full else (0, n, n + 2):
            cases.append(f"resize {r} {m} {s}")
    for p in range(n + 1):
        for xs in ("-", "70", "70,71,72") if full else ("70,71",):
            for k in KINDS if full else ("fwd", "inp"):
                cases.append(f"insr {r} {p} {k} {xs}")
        # a range of the vector itself: in front of the insertion point (specified), and elsewhere (model vs code only)
        for a in range(n + 1):
            for b in range(a, n + 1):
                if full or b <= p:
                    cases.append(f"insr {r} {p} self {a} {b}")
        if full:
            # long enough for the single-pass path to reallocate more than once
            for k in ("fwd", "inp"):
                cases.append(f"insr {r} {p} {k} 70,71,72,73,74,75")
    for p in range(n):
        cases.append(f"era1 {r} {p}")
        for how in ("idx", "it", "data"):
            cases.append(f"set {r} {how} {p} 88")
    cases += [f"set {r} front 0 88", f"set {r} back 0 88"]
    for a in range(n + 1):
        for b in range(a, n + 1):
            cases.append(f"erar {r} {a} {b}")
    cases += [f"ctor {r} adefault", f"ctor {r} acount 2 5", f"ctor {r} arange inp 5,6", f"ctor {r} arange fl 5,6", f"ctor {r} ail 5,6,7",
              f"ctor {r} ail -", f"ctor {r} default", f"ctor {r} count 0 5", f"ctor {r} range bidi -"]
    cases += [f"pop {r}", f"clear {r}", f"shrink {r}", f"reserve {r} {n + 5}", f"reserve {r} {n}", f"reserve {r} 0",
              f"ctor {o} move {r}", f"swap {r} {o}", f"swap {o} {r}", f"massign {o} {r}", f"massign {r} {o}",
              f"swap {r} {r}", f"massign {r} {r}", f"cmp {r} {r}", f"cmp {r} {o}"]
    return cases


def state_prefixes(sizes, extras, ways):
    """(prefix ops, n): register 0 holds 10..10+n-1, reached in different ways, with different spare capacity"""
    for n in sizes:
        base = list(range(10, 10 + n))
        lst = ",".join(map(str, base)) if base else "-"
        for extra in extras:
            for ck in ways:
                pre = ["reset"]
                if ck == 0:
                    pre.append(f"ctor 0 il {lst}")
                elif ck == 1:
                    pre.append(f"ctor 0 range inp {lst}")
                else:
                    # same contents, reached by erasing: capacity without reallocation history
                    pre.append(f"ctor 0 count {n + 2} 7")
                    pre.append(f"erar 0 0 2")
                    for i in range(n):
                        pre.append(f"era1 0 0")
                        pre.append(f"push 0 v{10 + i}")
                if extra is not None:
                    pre.append(f"reserve 0 {n + extra}")
                yield pre, n


def systematic(sizes, extras, thorough):
    """every single operation with every valid position/count/alias from every small (size, spare capacity) state"""
    ops = []
    for pre, n in state_prefixes(sizes, extras, (0, 1, 2)):
        for c in single_cases(n):
            ops += pre + [c, "obs 0", "push 0 v55", "obs 0", "end"]
    ops.append("reset")
    return ops


def first_steps(n):
    """(ops, size of register 0 afterwards, register that now holds the old contents or None): operations that leave
    register 0 in a special state — moved-from, swapped with a null vector, emptied, shrunk, self-assigned"""
    yield ["ctor 1 move 0"], 0, 1
    yield ["swap 0 1"], 0, 1
    yield ["massign 1 0"], 0, 1
    yield ["clear 0"], 0, None
    yield ["resize 0 0 v1"], 0, None
    yield [f"erar 0 0 {n}"], 0, None
    yield ["shrink 0"], n, None
    yield ["clear 0", "shrink 0"], 0, None
    yield [f"reserve 0 {n + 2}"], n, None
    yield ["massign 0 0"], n, None
    yield ["swap 0 0"], n, None
    yield ["ctor 0 buf 0"], 0, None                      # to_raw_vector of a released buffer
    yield ["bctor 0 2", "bfill 0 41", "ctor 0 buf 0"], 1, None
    if n > 0:
        yield ["pop 0"], n - 1, None
        yield ["set 0 back 0 77"], n, None


def two_step(sizes, extras, thorough):
    """first step (special state) x every second operation; and save - mutate - restore through swap / move"""
    ops = []
    for pre, n in state_prefixes(sizes, extras, (0, 2)):
        for first, n1, other in first_steps(n):
            for c in single_cases(n1, 0, full=thorough):
                ops += pre + first + [c, "obs 0", "push 0 v55", "obs 0", "obs 1", "end"]
            if other is not None:
                # the old contents now live in another register: mutate them there, bring them back
                for c in single_cases(n, other, full=False):
                    ops += pre + first + [c, f"swap 0 {other}", "obs 0", f"massign {other} 0", "obs 0", f"obs {other}",
                                          "push 0 v55", "end"]
    ops.append("reset")
    return ops


def buffer_systematic(depth, thorough):
    """every buffer program of `depth` steps over a small step alphabet from every initial write size, then observation,
    conversion, use of the vector, conversion of the released buffer"""
    ops = []
    sizes = (0, 1, 2, 3)

    def steps(rd, ws, counter):
        """(op text, new rd, new ws) for buffer 0"""
        res = []
        for k in sorted({0, 1, ws} & set(range(ws + 1))):
            res.append((f"bfill 0 {lstr(counter, k)}", rd + k, ws - k))
        for m in (0, 1, 2, 4) if thorough else (0, 1, 3):
            res.append((f"bresize 0 {m}", rd, m))
        for m in (0, 1, 3):
            for j in sorted({0, 1, m} & set(range(m + 1))):
                res.append((f"bappend 0 {m} {lstr(counter, j)}", rd + j, m - j))
                res.append((f"bappendopt 0 {m} {lstr(counter, j)}", rd + j, m - j))
            res.append((f"bappendopt 0 {m} none", rd, m))
        res.append(("bswap 0 0", rd, ws))
        res.append(("bmassign 0 0", rd, ws))
        res.append(("bswap 0 1|bswap 1 0", rd, ws))              # there and back
        res.append(("bmovector 1 0|bmassign 0 1", rd, ws))        # out and in again
        res.append(("bmovector 1 0|bswap 0 1", rd, ws))
        return res

    def lstr(counter, k):
        return ",".join(str(counter + i) for i in range(k)) if k else "-"

    def rec(prefix, rd, ws, d):
        if d == 0:
            ops.extend(["reset"] + prefix + ["bobs 0", "ctor 0 buf 0", "bobs 0", "obs 0", "push 0 v55", "shrink 0", "ctor 1 buf 0",
                                             "obs 1", "bresize 0 1", "bfill 0 5", "ctor 2 buf 0", "obs 2", "end"])
            return
        for text, rd2, ws2 in steps(rd, ws, 20 + 10 * d):
            rec(prefix + text.split("|"), rd2, ws2, d - 1)

    for n in sizes:
        for kind in ("bctor", "bread", "breadopt"):
            if kind == "bctor":
                rec([f"bctor 0 {n}"], 0, n, depth)
            elif kind == "bread":
                for j in sorted({0, n}):
                    rec([f"bread 0 {n} {lstr(60, j)}"], j, n - j, depth - 1)
            else:
                for j in sorted({0, n}):
                    rec([f"breadopt 0 {n} {lstr(60, j)}"], j, n - j, depth - 1)
                rec([f"breadopt 0 {n} none"], 0, 0, depth - 1)
    ops.append("reset")
    return ops


ALLOC_FIRST = ("reserve 0 {m}", "shrink 0", "push 0 v99", "ins1 0 0 v99", "insn 0 0 2 s0", "insr 0 0 fwd 70,71", "insr 0 0 inp 70,71,72",
               "resize 0 {m} v1", "ctor 0 count 3 5", "ctor 0 range inp 5,6,7", "ctor 0 il 5,6", "ctor 0 range fl 5,6")


def failing(sizes, extras, thorough):
    """fault injection: every single operation from every small state with the 1st / 2nd allocation of that operation failing
    (or every request above the current size failing), then observation and further use; two-step: special first step, then a
    failing second operation; a failing first operation, then any second operation"""
    ops = []
    tail = ["dump", "obs 0", "push 0 v55", "shrink 0", "obs 0", "end"]
    for pre, n in state_prefixes(sizes, extras, (0, 1, 2) if thorough else (0, 2)):
        for c in single_cases(n, 0, full=thorough):
            for inj in ("failat 1", "failat 2", f"failsize {n}"):
                if inj == "failat 2" and " inp " not in c:
                    continue            # only the single-pass paths allocate more than once
                ops += pre + [inj, c] + tail
    for pre, n in state_prefixes(sizes, extras, (0,)):
        for first, n1, other in first_steps(n):
            for c in single_cases(n1, 0, full=False):
                ops += pre + first + ["failat 1", c] + tail
        for f in ALLOC_FIRST:
            f = f.format(m=n + 5)
            if " s0" in f and n == 0:
                continue
            for k in (1, 2) if " inp " in f else (1,):
                for c in single_cases(n, 0, full=False):
                    # the second operation is valid whether or not the first one had an effect only if it does not depend on the
                    # size: invalid ones print `invalid` on both sides
                    ops += pre + [f"failat {k}", f, c] + tail
    ops.append("reset")
    return ops


def buffer_failing(thorough):
    ops = []
    tail = ["bobs 0", "ctor 0 buf 0", "obs 0", "push 0 v55", "bresize 0 1", "bfill 0 5", "ctor 2 buf 0", "obs 2", "dump", "end"]
    steps = ["bresize 0 {m}", "bappend 0 {m} -", "bappend 0 {m} 31", "bappendopt 0 {m} none", "bappendopt 0 {m} 31"]
    starts = []
    for n in (0, 1, 3):
        starts += [[f"bctor 0 {n}"], [f"bctor 0 {n}", "bresize 0 1", "bfill 0 9"], [f"bread 0 {n} -"], [f"breadopt 0 {n} none"]]
        if n:
            starts += [[f"bctor 0 {n}", f"bfill 0 {','.join(['8'] * n)}"], [f"bread 0 {n} 7"]]
    for n in (0, 1, 3):
        for k in (1, 2):
            for c in (f"bctor 0 {n}", f"bactor 0 {n}", f"bread 0 {n} -", f"breadopt 0 {n} none", f"breadopt 0 {n} -", f"dynarr {n} -"):
                ops += ["reset", "bctor 0 2", "bfill 0 4", f"failat {k}", c] + tail
            ops += ["reset", "failsize 0", f"bread 0 {n} -", f"bctor 1 {n}", "failsize off"] + tail
    for st in starts:
        for m in (0, 1, 2, 5):
            for c in steps:
                if " 31" in c and m == 0:
                    continue
                for inj in (["failat 1"], ["failsize 1"], ["failsize 3"]):
                    ops += ["reset"] + st + inj + [c.format(m=m), "failsize off"] + tail
                    ops += ["reset"] + st + inj + [c.format(m=m), "failsize off", "bswap 0 1", "bmovector 0 1"] + tail
    ops.append("reset")
    return ops


def cmp_states(alphabet, maxlen):
    """every pair of short sequences, each reached in three ways (exact capacity, a stale element behind the end, spare capacity)"""
    import itertools
    seqs = [list(t) for n in range(0, maxlen + 1) for t in itertools.product(alphabet, repeat=n)]

    def build(r, xs, way):
        l = ",".join(map(str, xs)) if xs else "-"
        if way == 0:
            return [f"ctor {r} il {l}"]
        if way == 1:
            # one more element (the largest / smallest value alternately) that is popped again: it stays behind the end
            return [f"ctor {r} il {','.join(map(str, xs + [9 if len(xs) % 2 else -9]))}", f"pop {r}"]
        return [f"ctor {r} il {l}", f"reserve {r} {len(xs) + 3}"]

    ops = []
    for a in seqs:
        for b in seqs:
            for wa in range(3):
                for wb in range(3):
                    ops += ["reset"] + build(0, a, wa) + build(1, b, wb) + ["cmp 0 1", "cmp 1 0", "cmp 0 0"]
    # longer operands: equal up to position k and then smaller / greater / ended, for every k
    for n in range(0, 7):
        a = [5 + (i % 2) for i in range(n)]
        others = [a[:k] for k in range(n)] + [a + [5]]
        for k in range(n):
            others.append(a[:k] + [a[k] - 1] + a[k + 1:])
            others.append(a[:k] + [a[k] + 1] + a[k + 1:])
            others.append(a[:k] + [a[k] + 1])
        for b in others + [a]:
            ops += ["reset"] + build(0, a, 0) + build(1, b, 1 if len(b) % 2 else 2) + ["cmp 0 1", "cmp 1 0"]
    # extreme values (a comparison by subtraction or through an unsigned type goes wrong only here)
    ext = [-2147483648, -1, 0, 1, 2147483647]
    eseqs = [[]] + [[x] for x in ext] + [[x, y] for x in (ext[0], ext[2], ext[4]) for y in (ext[0], ext[4])]
    for a in eseqs:
        for b in eseqs:
            ops += ["reset"] + build(0, a, 0) + build(1, b, 0) + ["cmp 0 1"]
    ops.append("reset")
    return ops


def dynarr_ops():
    ops = []
    for n in range(0, 6):
        for j in range(0, n + 1):
            ops.append(f"dynarr {n} " + (",".join(str(30 + i) for i in range(j)) if j else "-"))
    ops.append("dynarr 300 " + ",".join(str(i) for i in range(300)))
    return ops


def readchars_ops():
    ops = []
    for ln in range(0, 7):
        xs = ",".join(str(97 + i) for i in range(ln)) if ln else "-"
        for count in range(0, 9):
            ops.append(f"readchars {count} {xs}")
    for xs in ("0,255,128", "10,13,0,0", "255"):
        for count in range(0, 5):
            ops.append(f"readchars {count} {xs}")
    ops.append("readchars 300 " + ",".join(str(32 + i % 90) for i in range(300)))
    ops.append("readchars 301 " + ",".join(str(32 + i % 90) for i in range(300)))
    return ops


def fmt_stats(stats):
    return " ".join(f"{k}={v}" for k, v in sorted(stats.items()))


def batches(rng, tier):
    thorough = tier == "thorough"
    yield Batch("readchars", readchars_ops(), exhaustive=True, note="read_chars for every stream length 0..6 x count 0..8")
    sys_ops = systematic(range(0, 5) if thorough else range(0, 4), [None, 0, 1, 2, 3] if thorough else [None, 1, 3], thorough)
    yield Batch("systematic-single-ops", sys_ops, kind="history", exhaustive=True,
                note="all positions/counts/aliases for sizes 0..%d x spare capacity" % (4 if thorough else 3))
    yield Batch("two-step-sequences", two_step(range(0, 4) if thorough else range(0, 3), [None, 0, 2] if thorough else [None, 2], thorough),
                kind="history", exhaustive=True,
                note="special first step (moved-from, swapped away, emptied, shrunk, self-assigned, converted buffer) x every "
                     "second operation; save-mutate-restore through swap/move")
    yield Batch("cmp-all-pairs", cmp_states([-1, 0, 2] if thorough else [-1, 1], 3), kind="history", exhaustive=True,
                note="== != < > <= >= on every pair of vectors over a small alphabet up to length %d, each operand with exact "
                     "capacity / a stale element behind the end / spare capacity; prefixes / one differing position up to length 6; "
                     "extreme values" % 3)
    yield Batch("buffer-systematic", buffer_systematic(3 if thorough else 2, thorough), kind="history", exhaustive=True,
                note="every buffer program of %d steps from every initial write size 0..3 (ctor / read_from / read_from_opt), "
                     "observed through operator[], converted, the released buffer converted again" % (3 if thorough else 2))
    yield Batch("dynarr", dynarr_ops(), exhaustive=True, note="dynamic_array: every size 0..5 x stored prefix")
    yield Batch("allocation-failure", failing(range(0, 4) if thorough else range(0, 3), [None, 0, 2] if thorough else [None, 2], thorough),
                kind="history", exhaustive=True,
                note="fault injection: every single op from every small state x 1st / 2nd allocation of the op throws / every request "
                     "above the size throws; special first step then a failing op; a failing op then any op; all registers dumped")
    yield Batch("buffer-allocation-failure", buffer_failing(thorough), kind="history", exhaustive=True,
                note="constructors, read_from(_opt), resize_write_area, append_from(_opt), dynamic_array under a failing allocation, "
                     "then conversion and use")
    stats = {}
    ops = histories(rng.fork("vec"), 80000 if thorough else 6000, 60 if thorough else 30, stats, 8)
    yield Batch("vector-histories", ops, kind="history", note="random histories; generator distribution: " + fmt_stats(stats))
    stats = {}
    ops = buffer_histories(rng.fork("buf"), 40000 if thorough else 3000, 14 if thorough else 10, stats)
    yield Batch("buffer-histories", ops, kind="history", note="buffer histories ending in to_raw_vector; distribution: " + fmt_stats(stats))
    stats = {}
    ops = histories(rng.fork("long"), 8000 if thorough else 600, 120 if thorough else 60, stats, 30)
    yield Batch("mixed-long-histories", ops, kind="history", note="longer mixed vector/buffer histories; distribution: " + fmt_stats(stats))


# ---------------------------------------------------------------------------------------------------------------------
# API inventory: every public member of the anchored classes and the operation of the harness that reaches it.  A public
# member (or a header in the two directories) that is not listed here is not observed by the correspondence at all — the
# run reports that instead of staying silent about it.
API = {
    "raw_vector/object_decl.hpp:object": {
        "iterator begin() noexcept": "ins1/insn/insr/era1/erar/set it, obs",
        "const_iterator begin() const noexcept": "contents after every op, obs, cmp",
        "iterator end() noexcept": "obs",
        "const_iterator end() const noexcept": "contents after every op, obs, cmp",
        "reference operator[](size_type) noexcept": "set idx, aliased SRC s<i>, obs",
        "const_reference operator[](size_type) const noexcept": "obs",
        "reference front() noexcept": "set front, obs",
        "const_reference front() const noexcept": "obs",
        "reference back() noexcept": "set back, obs",
        "const_reference back() const noexcept": "obs",
        "pointer data() noexcept": "set data, poke after every op, obs",
        "const_pointer data() const noexcept": "obs, reok",
        "pointer data_end() noexcept": "poke after every op, obs",
        "const_pointer data_end() const noexcept": "obs",
        "object()": "ctor default",
        "explicit object(A const &)": "ctor adefault",
        "object(size_type sz, T const &value)": "ctor count",
        "object(size_type sz, T const &value, A const &)": "ctor acount",
        "template <typename In> object(In beg, In end)": "ctor range fwd|ptr|fl|bidi|inp",
        "template <typename In> object(In beg, In end, A const &)": "ctor arange",
        "explicit object(fcppt::container::raw_vector::rep<A> const &) noexcept": "ctor buf (to_raw_vector)",
        "object(std::initializer_list<value_type>)": "ctor il",
        "object(std::initializer_list<value_type>, A const &)": "ctor ail",
        "object(object &&) noexcept": "ctor move",
        "~object() noexcept": "end, every ctor",
        "object &operator=(object &&) noexcept": "massign (also r = r)",
        "void push_back(T const &)": "push (lvalue element / prvalue)",
        "void pop_back() noexcept": "pop",
        "void clear() noexcept": "clear",
        "size_type size() const noexcept": "every op",
        "bool empty() const noexcept": "obs",
        "size_type capacity() const noexcept": "every op (capok, reok, cpok, geo)",
        "void swap(object &) noexcept": "swap r s with r >= s",
        "void resize(size_type sz, T const &value)": "resize",
        "void reserve(size_type sz)": "reserve",
        "allocator_type get_allocator() const": "obs",
        "iterator insert(iterator position, T const &t)": "ins1",
        "void insert(iterator position, size_type sz, T const &value)": "insn",
        "template <typename In> void insert(iterator position, In beg, In end)": "insr (5 iterator kinds, own range)",
        "iterator erase(iterator position) noexcept": "era1",
        "iterator erase(iterator first, iterator last) noexcept": "erar",
        "void shrink_to_fit()": "shrink",
    },
    "raw_vector/rep_decl.hpp:rep": {
        "rep(A const &, pointer first, pointer last, pointer cap) noexcept": "ctor buf (buffer::release)",
        "A const &alloc() const noexcept": "ctor buf", "pointer first() const noexcept": "ctor buf",
        "pointer last() const noexcept": "ctor buf", "pointer cap() const noexcept": "ctor buf",
    },
    "buffer/object_decl.hpp:object": {
        "explicit object(size_type write_sz)": "bctor", "object(size_type write_sz, A)": "bactor",
        "object(object &&) noexcept": "bmovector, bappend, bappendopt", "object &operator=(object &&) noexcept": "bmassign (also b = b), bappend",
        "~object() noexcept": "end, bctor, bread", "const_iterator begin() const noexcept": "contents after every op, bobs",
        "const_iterator end() const noexcept": "contents after every op, bobs",
        "const_reference operator[](size_type) const noexcept": "bobs",
        "const_pointer read_data() const noexcept": "bobs, mv", "const_pointer read_data_end() const noexcept": "capok after every op, bobs",
        "pointer write_data() noexcept": "bfill, poke after every op", "pointer write_data_end() noexcept": "poke after every op, capok",
        "size_type read_size() const noexcept": "every op", "size_type write_size() const noexcept": "every op",
        "void written(size_type sz) noexcept": "bfill, bappend, bappendopt, bread, breadopt",
        "void resize_write_area(size_type sz)": "bresize, bappend, bappendopt, bread, breadopt",
        "allocator_type get_allocator() const": "bobs, ctor buf", "void swap(object &) noexcept": "bswap b c with b >= c, bmassign",
        "fcppt::container::raw_vector::rep<A> release() noexcept": "ctor buf",
    },
    "dynamic_array_decl.hpp:dynamic_array": {
        "explicit dynamic_array(size_type)": "dynarr (even n)", "dynamic_array(size_type, A)": "dynarr (odd n)",
        "~dynamic_array() noexcept": "dynarr", "pointer data() noexcept": "dynarr", "const_pointer data() const noexcept": "dynarr",
        "pointer data_end() noexcept": "dynarr", "const_pointer data_end() const noexcept": "dynarr", "size_type size() const noexcept": "dynarr",
    },
}
# headers of the two directories: free functions / operators and the op that reaches them
HEADERS = {
    "raw_vector": {"comparison.hpp": "cmp (== != < > <= >=)", "object.hpp": "-", "object_decl.hpp": "-", "object_fwd.hpp": "-",
                   "object_impl.hpp": "swap r s with r < s (free swap)", "rep_decl.hpp": "-", "rep_fwd.hpp": "-", "rep_impl.hpp": "-"},
    "buffer": {"append_from.hpp": "bappend", "append_from_opt.hpp": "bappendopt", "object.hpp": "-", "object_decl.hpp": "-",
               "object_fwd.hpp": "-", "object_impl.hpp": "bswap b c with b < c (free swap)", "read_from.hpp": "bread",
               "read_from_opt.hpp": "breadopt, readchars", "to_raw_vector.hpp": "ctor buf, readchars"},
}


def public_decls(path, cls):
    """normalised declarations in the public sections of `class cls` (comments, nested classes and bodies removed)"""
    import re
    s = open(path).read()
    s = re.sub(r"/\*.*?\*/", "", s, flags=re.S)
    s = re.sub(r"//[^\n]*", "", s)
    i = s.index("{", s.index("class " + cls))
    depth, j = 0, i
    while True:
        if s[j] == "{":
            depth += 1
        elif s[j] == "}":
            depth -= 1
            if depth == 0:
                break
        j += 1
    out, depth = [], 0
    for ch in s[i + 1:j]:
        if ch == "{":
            depth += 1
        elif ch == "}":
            depth -= 1
        elif depth == 0:
            out.append(ch)
    pub, access = [], "private"
    for part in re.split(r"\b(public|private|protected)\s*:", "".join(out)):
        if part in ("public", "private", "protected"):
            access = part
        elif access == "public":
            pub.append(part)
    decls = []
    for st in ";".join(pub).split(";"):
        st = " ".join(st.replace("[[nodiscard]]", "").split())
        if "(" in st and not st.startswith(("static_assert", "FCPPT_", "using ")):
            decls.append(st)
    return decls


def extra_checks(binp, rng, tier, ev):
    """API inventory against the current tree (see API above)"""
    import os
    from vlib import paths
    base = os.path.join(paths.REPO, "libs", "core", "include", "fcppt", "container")
    unknown, seen = [], 0
    for key, known in API.items():
        rel, cls = key.split(":")
        try:
            decls = public_decls(os.path.join(base, rel), cls)
        except (OSError, ValueError) as e:
            unknown.append(f"{rel}: cannot be read ({e})")
            continue
        seen += len(decls)
        unknown += [f"{rel}: `{d}`" for d in decls if d not in known]
    for d, known in HEADERS.items():
        try:
            unknown += [f"{d}/{f}" for f in sorted(os.listdir(os.path.join(base, d))) if f not in known]
        except OSError as e:
            unknown.append(f"{d}: cannot be listed ({e})")
    ev.setdefault("coverage", {})["api_inventory"] = {"public_members": seen, "not_harnessed": unknown}
    if not unknown:
        return []
    return [{"kind": "broken-correspondence",
             "what": "public API of the anchored classes that no operation of the harness reaches (add it to harness, driver, "
                     "model and props/c07.py:API): " + "; ".join(unknown)}]


MANIFEST = {
    "level_text": ("Machine-checked proof (Lean 4) over an executable two-layer model of raw_vector, buffer and dynamic_array (bounds- and "
                   "initialisation-checked heap with an allocation ledger; pointer triples; every public member mirrored path by path, "
                   "growth policy a parameter): for all histories of valid operations from every constructor the model never faults "
                   "(no access outside an allocation, no uninitialised read, no double free, no leak once the destructors ran), "
                   "capacity >= size, contents, returned iterator offsets and returned references (operator[], front, back, stores through "
                   "them) are those of the List specification of std::vector, including aliased arguments, self-swap, self-move-assignment "
                   "and own sub-ranges in front of the insertion point; storage is kept iff the new size fits the old capacity, the "
                   "capacity never shrinks except by shrink_to_fit (== size), reserve(n) gives >= n, growth at least doubles; the six "
                   "comparison operators are list equality / lexicographic order; a buffer hands exactly its read area to the raw_vector "
                   "it is converted into; read_chars equals the stream specification. "
                   "The model is tied to the code by a three-way differential correspondence (real templates vs std::vector vs model) "
                   "over systematic single-operation, two-step, comparison and buffer-program batches and random histories up to length 60 "
                   "under ASan/UBSan/LSan with a ledger allocator, plus an inventory of the public API against the operations of the harness."),
    "level_note": ("Trusted: Lean kernel + propext/Classical.choice/Quot.sound; fidelity of the hand-written model outside the "
                   "exercised inputs; harness, ledger allocator and line protocol; the standard algorithms' copy order. "
                   "No sorry/axiom/native_decide."),
    "technique": "Lean 4 proof (invariant + refinement over a checked heap model) + three-way differential correspondence (ASan/UBSan/LSan harness)",
    "design_ref": "DESIGN.md §5 C07, Appendix A.3",
}
