"""C13 — axis-aligned boxes behave as half-open point sets."""
import itertools

from vlib.runner import Batch

ID = "C13"
LEAN_PROPS = ["FcpptProofs.Props.C13"]
HARNESS = {"src": "harness/c13.cpp"}
TIE = ("hand-written model (FcpptModel/Model/C13.lean) mirroring the box headers index by index + differential "
       "correspondence against the real templates for int and unsigned, N = 1, 2, 3")
RULE = ("pairs T n A lo hi clo chi: digest over every box B with both corners in [clo,chi]^n of the pair observations "
        "(intersects, contains both ways, intersection, extend_bounding_box, == != <, distance both ways, and for every lattice "
        "point of [lo,hi]^n its membership in A, B, the intersection and the bounding box). thorough: every A with corners in "
        "[-3,3] (int) / [0,6] (unsigned) for n = 1 and n = 2 = all pairs of boxes x all lattice points; quick: all pairs for n = 1, "
        "all pairs with corners in [-2,2] / [0,4] and a seeded sample of A against all B for n = 2. unary: every box, digest over all "
        "shrink/stretch vectors and extend-by-point of the lattice. 3-D and large/extreme coordinates are seeded random. "
        "An op counts as non-trivial when its first box is non-empty; distinct = distinct op lines.")
ASSUMPTIONS = [
    "coordinate type T has rank >= int (int, unsigned): no integral promotion; int = 32-bit two's complement, unsigned = 32 bit",
    "signed overflow is undefined behaviour (model: fault), unsigned arithmetic wraps modulo 2^32",
    "std::min/std::max/std::swap/std::lexicographical_compare/std::pair operator< by their standard specifications",
    "vector::static_<T,N>/dim::static_<T,N> = Vector Int n; at<I>, init, binary_map, map are index-wise",
]
TRUSTED = ["harness/c13.cpp and the digest/line protocol (vh.hpp, Proto.lean)",
           "g++ 12 + ASan/UBSan as witness for memory safety / absence of UB of the instantiations on the exercised inputs"]

# corner range and lattice per coordinate type
RANGE = {"i": (-3, 3, -4, 4), "u": (0, 6, 0, 7)}
QRANGE = {"i": (-2, 2, -4, 4), "u": (0, 4, 0, 7)}


def vs(v):
    return ",".join(str(x) for x in v)


def cube(lo, hi, n):
    return list(itertools.product(range(lo, hi + 1), repeat=n))


def nonempty(mn, mx):
    return all(a < b for a, b in zip(mn, mx))


def parse(s):
    return [int(x) for x in s.split(",")]


def nontrivial(op, result):
    t = op.split()
    if t[0] == "idist":
        return True
    return nonempty(parse(t[3]), parse(t[4]))


def weight(op):
    t = op.split()
    if t[0] == "pairs":
        n = int(t[2])
        k = int(t[8]) - int(t[7]) + 1
        return (k ** n) ** 2
    return 1


def refine(op):
    t = op.split()
    if t[0] == "pairs":
        T, n, amin, amax, lo, hi, clo, chi = t[1], int(t[2]), t[3], t[4], t[5], t[6], int(t[7]), int(t[8])
        cs = cube(clo, chi, n)
        return [f"pair {T} {n} {amin} {amax} {vs(b0)} {vs(b1)} {lo} {hi}" for b0 in cs for b1 in cs]
    if t[0] == "pair":
        T, n, lo, hi = t[1], int(t[2]), int(t[7]), int(t[8])
        pts = cube(lo, hi, n)
        return [f"pt {T} {n} {t[3]} {t[4]} {t[5]} {t[6]} {vs(p)}" for p in pts]
    if t[0] == "unary":
        T, n, lo, hi = t[1], int(t[2]), int(t[5]), int(t[6])
        pts = cube(lo, hi, n)
        return [f"shr {T} {n} {t[3]} {t[4]} {vs(p)}" for p in pts] + [f"extp {T} {n} {t[3]} {t[4]} {vs(p)}" for p in pts]
    return None


BASES = {"i": [0, 0, 0, 1000, -1000, 1 << 29, -(1 << 29)], "u": [0, 0, 0, 1000, 1 << 31, (1 << 32) - 8]}


def rand_box(r, n, lo, hi, base):
    """corners drawn from a small range so that coordinates coincide often; sometimes forced non-empty / degenerate"""
    mn = [base + r.range(lo, hi) for _ in range(n)]
    k = r.below(8)
    if k < 4:
        mx = [base + r.range(lo, hi) for _ in range(n)]
    elif k < 6:
        mx = [base + r.range(x - base, hi) for x in mn]           # max >= min
    elif k < 7:
        mx = [min(base + hi, x + r.range(1, 3)) for x in mn]
    else:
        mx = list(mn)                                              # degenerate
    return mn, mx


def batches(rng, tier):
    thorough = tier == "thorough"
    # ---- idist: all quadruples
    for T, (clo, chi, lo, hi) in RANGE.items():
        ops = [f"idist {T} {a} {b} {c} {d}" for a in range(clo, chi + 1) for b in range(clo, chi + 1)
               for c in range(clo, chi + 1) for d in range(clo, chi + 1)]
        yield Batch(f"idist-{T}", ops, exhaustive=True, note="interval_distance on all quadruples of the corner range")
    # ---- unary: every box, n = 1, 2
    for T, (clo, chi, lo, hi) in RANGE.items():
        for n in (1, 2):
            cs = cube(clo, chi, n)
            ops = [f"unary {T} {n} {vs(a)} {vs(b)} {lo} {hi}" for a in cs for b in cs]
            yield Batch(f"unary-{T}{n}", ops, exhaustive=True,
                        note="every box: size/pos/max/sides/corner_points/center/null/constructors/init_max/init_dim; all shrink/stretch vectors and extend-by-point over the lattice")
    # ---- pairs, n = 1: all pairs
    for T, (clo, chi, lo, hi) in RANGE.items():
        cs = cube(clo, chi, 1)
        ops = [f"pairs {T} 1 {vs(a)} {vs(b)} {lo} {hi} {clo} {chi}" for a in cs for b in cs]
        yield Batch(f"pairs-{T}1", ops, exhaustive=True, note="all pairs of 1-D boxes x all lattice points")
    # ---- pairs, n = 2
    for T in ("i", "u"):
        clo, chi, lo, hi = RANGE[T]
        if thorough:
            cs = cube(clo, chi, 2)
            ops = [f"pairs {T} 2 {vs(a)} {vs(b)} {lo} {hi} {clo} {chi}" for a in cs for b in cs]
            yield Batch(f"pairs-{T}2", ops, exhaustive=True, note="all pairs of 2-D boxes with corners in the full range x all lattice points")
        else:
            qlo, qhi, _, _ = QRANGE[T]
            cs = cube(qlo, qhi, 2)
            ops = [f"pairs {T} 2 {vs(a)} {vs(b)} {lo} {hi} {qlo} {qhi}" for a in cs for b in cs]
            yield Batch(f"pairs-{T}2-inner", ops, exhaustive=True, note=f"all pairs of 2-D boxes with corners in [{qlo},{qhi}] x all lattice points")
            r = rng.fork("pairs2" + T)
            cs = cube(clo, chi, 2)
            ops = []
            for _ in range(300):
                a, b = r.choice(cs), r.choice(cs)
                if r.chance(1, 2):
                    b = tuple(min(chi, x + r.range(1, 3)) for x in a)
                ops.append(f"pairs {T} 2 {vs(a)} {vs(b)} {lo} {hi} {clo} {chi}")
            yield Batch(f"pairs-{T}2-sampledA", ops, note="seeded sample of boxes A (half of them non-empty) against every box B of the full range")
    # ---- pairs, n = 3: small corner range, all pairs (thorough) / sampled A (quick)
    for T, (clo, chi, lo, hi) in {"i": (-1, 1, -2, 2), "u": (0, 2, 0, 3)}.items():
        cs = cube(clo, chi, 3)
        if thorough:
            ops = [f"pairs {T} 3 {vs(a)} {vs(b)} {lo} {hi} {clo} {chi}" for a in cs for b in cs]
            yield Batch(f"pairs-{T}3-small", ops, exhaustive=True, note=f"all pairs of 3-D boxes with corners in [{clo},{chi}] x all lattice points of [{lo},{hi}]^3")
        else:
            r = rng.fork("pairs3" + T)
            ops = [f"pairs {T} 3 {vs(r.choice(cs))} {vs(r.choice(cs))} {lo} {hi} {clo} {chi}" for _ in range(60)]
            yield Batch(f"pairs-{T}3-small-sampledA", ops, note=f"seeded 3-D boxes A against every 3-D box B with corners in [{clo},{chi}]")
    # ---- 3-D and large coordinates: seeded random
    r = rng.fork("rand")
    cnt = 20000 if thorough else 4000
    ops = []
    for _ in range(cnt):
        T = r.choice(["i", "u"])
        n = 3 if r.chance(2, 3) else r.choice([1, 2])
        clo, chi, lo, hi = RANGE[T]
        base = r.choice(BASES[T])
        if r.chance(1, 6):
            base = 0
            clo_, chi_ = (-53, 53) if T == "i" else (0, 100)
            lat_lo = r.range(clo_, chi_ - 2)
            lat_hi = lat_lo + 2
        else:
            clo_, chi_ = clo, chi
            lat_lo, lat_hi = base + lo, base + hi
        a = rand_box(r, n, clo_, chi_, base)
        b = rand_box(r, n, clo_, chi_, base)
        k = r.below(10)
        if k < 6:
            ops.append(f"pair {T} {n} {vs(a[0])} {vs(a[1])} {vs(b[0])} {vs(b[1])} {lat_lo} {lat_hi}")
        else:
            ops.append(f"unary {T} {n} {vs(a[0])} {vs(a[1])} {lat_lo} {lat_hi}")
    yield Batch("random-3d-and-offsets", ops, note="2/3 three-dimensional; corners from a 7-value range around base offsets "
                "{0, +-1000, +-2^29} (int) / {0, 1000, 2^31, 2^32-8} (unsigned), 1/6 from a 100-wide range; 60% pair, 40% unary")
    # ---- extreme coordinates: only the comparison-based functions (no arithmetic on int)
    r = rng.fork("extreme")
    cnt = 8000 if thorough else 1500
    ext = {"i": [-(1 << 31), -(1 << 31) + 1, -1, 0, 1, (1 << 31) - 2, (1 << 31) - 1],
           "u": [0, 1, 2, (1 << 31) - 1, 1 << 31, (1 << 32) - 2, (1 << 32) - 1]}
    ops = []
    for _ in range(cnt):
        T = r.choice(["i", "u"])
        n = r.choice([1, 2, 3])
        pick = lambda: [r.choice(ext[T]) for _ in range(n)]
        if r.chance(1, 2) or T == "i":
            ops.append(f"pt {T} {n} {vs(pick())} {vs(pick())} {vs(pick())} {vs(pick())} {vs(pick())}")
        else:
            k = r.below(3)
            if k == 0:
                ops.append(f"shr u {n} {vs(pick())} {vs(pick())} {vs(pick())}")
            elif k == 1:
                ops.append(f"extp u {n} {vs(pick())} {vs(pick())} {vs(pick())}")
            else:
                ops.append(f"idist u {r.choice(ext['u'])} {r.choice(ext['u'])} {r.choice(ext['u'])} {r.choice(ext['u'])}")
    # extend-by-point at extreme int coordinates is comparison-only as well
    for _ in range(cnt // 4):
        n = r.choice([1, 2, 3])
        pick = lambda: [r.choice(ext["i"]) for _ in range(n)]
        ops.append(f"extp i {n} {vs(pick())} {vs(pick())} {vs(pick())}")
    yield Batch("extreme-coordinates", ops, note="coordinates at the ends of the type's range: contains_point/intersection/extend (int and unsigned), "
                "shrink/stretch/interval_distance with wrap-around (unsigned)")


MANIFEST = {
    "level_text": ("Machine-checked proof (Lean 4) over an executable model that mirrors the box headers index by index: for every dimension n "
                   "and all integer coordinates, contains_point is membership in the half-open point set, the intersection's points are exactly "
                   "the common points and it is the null box when intersects is false, intersects <-> common point and contains <-> subset for "
                   "non-empty boxes, extend_bounding_box is the least box containing both, and size/corner_points/center/shrink/stretch_absolute/"
                   "constructors/comparison are characterised coordinate-wise (signed: under the no-overflow guard with a separate fault theorem; "
                   "unsigned: modulo 2^bits). The model is tied to the code by a differential correspondence that is exhaustive over all pairs of "
                   "1-D and 2-D boxes with corners in [-3,3] (int) / [0,6] (unsigned) and all lattice points, and seeded random in 3-D."),
    "level_note": ("Trusted: Lean kernel + propext/Classical.choice/Quot.sound; the hand-written model's fidelity outside the exercised inputs; "
                   "harness and digest protocol; C++ integer semantics for int/unsigned as modelled by Ty.norm. No sorry/axiom/native_decide."),
    "technique": "Lean 4 proof over hand-written executable model + exhaustive differential correspondence (ASan/UBSan harness)",
    "design_ref": "DESIGN.md §5 C13",
}
