"""C13 — axis-aligned boxes behave as half-open point sets."""
import itertools

import os

from vlib import paths
from vlib.runner import Batch

ID = "C13"
LEAN_PROPS = ["FcpptProofs.Props.C13"]
# one translation unit per coordinate type (compiled in parallel); absolute paths because vlib/harness.py joins
# `repo_srcs` onto the fcppt tree (os.path.join keeps an absolute second argument)
HARNESS = {"src": "harness/c13.cpp",
           "repo_srcs": [os.path.join(paths.HARNESS, f"c13_{t}.cpp") for t in "iulm"]}
TIE = ("hand-written model (FcpptModel/Model/C13.lean) mirroring the box headers index by index + differential "
       "correspondence against the real templates for int, unsigned, long, unsigned long and N = 0 … 4")
RULE = ("pairs T n A lo hi clo chi: digest over every box B with both corners in [clo,chi]^n of the pair observations "
        "(intersects, contains both ways, intersection, extend_bounding_box, == != <, distance both ways, and for every lattice "
        "point of [lo,hi]^n its membership in A, B, the intersection and the bounding box). thorough: every A with corners in "
        "[-3,3] (int) / [0,6] (unsigned) for n = 1 and n = 2 = all pairs of boxes x all lattice points; quick: all pairs for n = 1, "
        "all pairs with corners in [-2,2] / [0,4] and a seeded sample of A against all B for n = 2. unary: every box, digest over all "
        "shrink/stretch vectors and extend-by-point of the lattice. 3-D and large/extreme coordinates are seeded random. "
        "progs T n A B V k: digest over all 30^k statement sequences of length k on the objects A, B, V (assignments through the mutable "
        "pos()/max(), aliasing, copies, swaps, A = f(A, ...)); exhaustive for k <= 2 over all 1-D states with corners in [-1,1] / [0,2]. "
        "cmp: the comparison-only functions on all quadruples of values at the ends of each type's range. foldp/foldb: accumulation loops. "
        "An op counts as non-trivial when its first box is non-empty; distinct = distinct op lines.")
ASSUMPTIONS = [
    "coordinate type T has rank >= int (int, unsigned, long, unsigned long): no integral promotion (box<short> does not compile: "
    "vector<short> + vector<short> is a vector<int>); int = 32-bit two's complement, long = 64 bit (static_assert in the harness)",
    "signed overflow is undefined behaviour (model: fault), unsigned arithmetic wraps modulo 2^bits; integer conversions "
    "(structure_cast through static_cast) are modular (C++20)",
    "std::min/std::max/std::swap/std::lexicographical_compare/std::pair operator< by their standard specifications",
    "vector::static_<T,N>/dim::static_<T,N> = Vector Int n; at<I>, init, binary_map, map are index-wise",
]
TRUSTED = ["harness/c13.cpp and the digest/line protocol (vh.hpp, Proto.lean)",
           "g++ 12 + ASan/UBSan as witness for memory safety / absence of UB of the instantiations on the exercised inputs"]

# corner range and lattice per coordinate type
RANGE = {"i": (-3, 3, -4, 4), "u": (0, 6, 0, 7), "l": (-3, 3, -4, 4), "m": (0, 6, 0, 7)}
QRANGE = {"i": (-2, 2, -4, 4), "u": (0, 4, 0, 7), "l": (-2, 2, -4, 4), "m": (0, 4, 0, 7)}
SIGNED = {"i": True, "u": False, "l": True, "m": False}
BITS = {"i": 32, "u": 32, "l": 64, "m": 64}
INSTRS = ["pv", "mv", "pm", "mp", "pb", "mb", "pbm", "sw", "ss", "sc", "cp", "sa", "mo", "sm",
          "xi", "xb", "xv", "xm", "sh", "st", "shp", "stm", "ni", "ps", "ce", "px", "vp", "vm", "xa", "xe"]


def vs(v):
    return ",".join(str(x) for x in v) if len(v) else "-"


def cube(lo, hi, n):
    return list(itertools.product(range(lo, hi + 1), repeat=n))


def nonempty(mn, mx):
    return all(a < b for a, b in zip(mn, mx))


def parse(s):
    return [] if s == "-" else [int(x) for x in s.split(",")]


def nontrivial(op, result):
    t = op.split()
    if t[0] == "idist":
        return True
    return nonempty(parse(t[3]), parse(t[4]))


def weight(op):
    t = op.split()
    if t[0] == "pairs":
        n = int(t[2])
        k = int(t[8]) - int(t[7]) + 1
        return (k ** n) ** 2
    if t[0] == "progs":
        return len(INSTRS) ** int(t[8])
    return 1


def refine(op):
    t = op.split()
    if t[0] == "pairs":
        T, n, amin, amax, lo, hi, clo, chi = t[1], int(t[2]), t[3], t[4], t[5], t[6], int(t[7]), int(t[8])
        cs = cube(clo, chi, n)
        return [f"pair {T} {n} {amin} {amax} {vs(b0)} {vs(b1)} {lo} {hi}" for b0 in cs for b1 in cs]
    if t[0] == "pair":
        T, n, lo, hi = t[1], int(t[2]), int(t[7]), int(t[8])
        pts = cube(lo, hi, n)
        return [f"pt {T} {n} {t[3]} {t[4]} {t[5]} {t[6]} {vs(p)}" for p in pts]
    if t[0] == "unary":
        T, n, lo, hi = t[1], int(t[2]), int(t[5]), int(t[6])
        pts = cube(lo, hi, n)
        flo, fhi = (-2, 2) if SIGNED[T] else (0, 3)
        return ([f"shr {T} {n} {t[3]} {t[4]} {vs(p)}" for p in pts] + [f"extp {T} {n} {t[3]} {t[4]} {vs(p)}" for p in pts]
                + [f"strel {T} {n} {t[3]} {t[4]} {vs(f)}" for f in cube(flo, fhi, n)])
    if t[0] == "progs":
        k = int(t[8])
        return [" ".join(["prog"] + t[1:8] + [",".join(pr) if pr else "-"]) for pr in itertools.product(INSTRS, repeat=k)]
    if t[0] == "prog" and t[8] != "-" and "," in t[8]:
        # the proper prefixes: the shortest differing one ends with the statement at fault
        pr = t[8].split(",")
        return [" ".join(t[:8] + [",".join(pr[:k])]) for k in range(1, len(pr))]
    return None


BASES = {"i": [0, 0, 0, 1000, -1000, 1 << 29, -(1 << 29)], "u": [0, 0, 0, 1000, 1 << 31, (1 << 32) - 8],
         "l": [0, 0, 0, 1000, -1000, 1 << 61, -(1 << 61), 1 << 31, (1 << 32) - 3],
         "m": [0, 0, 0, 1000, 1 << 63, (1 << 64) - 8, (1 << 32) - 3]}
# values at the ends of each type's range (64-bit types: also around 2^31 / 2^32, where a stray `int` would truncate)
EXT = {"i": [-(1 << 31), -(1 << 31) + 1, -1, 0, 1, (1 << 31) - 2, (1 << 31) - 1],
       "u": [0, 1, 2, (1 << 31) - 1, 1 << 31, (1 << 32) - 2, (1 << 32) - 1],
       "l": [-(1 << 63), -(1 << 63) + 1, -(1 << 32), -(1 << 31) - 1, -1, 0, 1, (1 << 31), (1 << 32) + 1, (1 << 63) - 2, (1 << 63) - 1],
       "m": [0, 1, 2, (1 << 31), (1 << 32) - 1, (1 << 32), (1 << 63) - 1, 1 << 63, (1 << 64) - 2, (1 << 64) - 1]}
# values of very different magnitude whose sums / differences of up to four terms are still representable in the signed
# types (unsigned: around the wrap points): large sizes, differences beyond 2^31 in the 64-bit types
MID = {"i": [-(1 << 28), -(1 << 16) - 1, -1, 0, 1, (1 << 16) + 1, 1 << 28],
       "u": [0, 1, (1 << 16) + 1, 1 << 28, 1 << 31, (1 << 32) - (1 << 28), (1 << 32) - 1],
       "l": [-(1 << 60), -(1 << 32) - 1, -(1 << 31), -1, 0, 1, 1 << 31, (1 << 32) + 1, 1 << 60],
       "m": [0, 1, 1 << 31, (1 << 32) + 1, 1 << 60, 1 << 63, (1 << 64) - (1 << 60), (1 << 64) - 1]}
TYPES = ["i", "u", "l", "m"]
# corner range / vector range of the statement-sequence batches
PRANGE = {"i": (-1, 1), "u": (0, 2), "l": (-1, 1), "m": (0, 2)}


def rand_box(r, n, lo, hi, base):
    """corners drawn from a small range so that coordinates coincide often; sometimes forced non-empty / degenerate"""
    mn = [base + r.range(lo, hi) for _ in range(n)]
    k = r.below(8)
    if k < 4:
        mx = [base + r.range(lo, hi) for _ in range(n)]
    elif k < 6:
        mx = [base + r.range(x - base, hi) for x in mn]           # max >= min
    elif k < 7:
        mx = [min(base + hi, x + r.range(1, 3)) for x in mn]
    else:
        mx = list(mn)                                              # degenerate
    return mn, mx


def all_states(T, n):
    lo, hi = PRANGE[T]
    cs = cube(lo, hi, n)
    return [(a0, a1, b0, b1, v) for a0 in cs for a1 in cs for b0 in cs for b1 in cs for v in cs]


def rand_state(r, T, n):
    lo, hi = PRANGE[T]
    a = rand_box(r, n, lo, hi, 0)
    b = rand_box(r, n, lo, hi, 0)
    return (a[0], a[1], b[0], b[1], [r.range(lo, hi) for _ in range(n)])


def progs_op(T, n, st, k):
    return f"progs {T} {n} {vs(st[0])} {vs(st[1])} {vs(st[2])} {vs(st[3])} {vs(st[4])} {k}"


def batches(rng, tier):
    """The per-type batches of one family are cheap; they are run as one batch (fewer process starts)."""
    import re
    merged, order = {}, []
    for b in _batches(rng, tier):
        heavy = re.match(r"pairs-[iulm][23]", b.name)
        key = b.name if heavy else re.sub(r"-[iulm](\d*)(?=-|$)", r"-T\1", b.name, count=1)
        if key not in merged:
            merged[key] = Batch(key, [], exhaustive=True, note=b.note)
            order.append(key)
        m = merged[key]
        m.ops += b.ops
        m.exhaustive = m.exhaustive and b.exhaustive
    for key in order:
        yield merged[key]


def _batches(rng, tier):
    thorough = tier == "thorough"
    # ---- idist: all quadruples
    for T, (clo, chi, lo, hi) in RANGE.items():
        ops = [f"idist {T} {a} {b} {c} {d}" for a in range(clo, chi + 1) for b in range(clo, chi + 1)
               for c in range(clo, chi + 1) for d in range(clo, chi + 1)]
        yield Batch(f"idist-{T}", ops, exhaustive=True, note="interval_distance on all quadruples of the corner range")
    # ---- unary: every box, n = 0, 1, 2 (64-bit types in quick: 2-D corners from the inner range)
    for T in TYPES:
        yield Batch(f"unary-{T}0", [f"unary {T} 0 - - 0 1"], exhaustive=True, note="the only 0-dimensional box (everything but corner_points compiles for N = 0)")
        for n in (1, 2):
            clo, chi, lo, hi = RANGE[T] if (thorough or n == 1 or T in "iu") else QRANGE[T]
            cs = cube(clo, chi, n)
            ops = [f"unary {T} {n} {vs(a)} {vs(b)} {lo} {hi}" for a in cs for b in cs]
            yield Batch(f"unary-{T}{n}", ops, exhaustive=True,
                        note="every box: size/pos/max/sides/corner_points/center/null/constructors/init_max/init_dim/interval/operator<</aliased arguments/"
                             "structure_cast; all shrink/stretch vectors and extend-by-point over the lattice; stretch_relative over the factor lattice")
    # ---- pairs, n = 0 and n = 1: all pairs
    for T in TYPES:
        clo, chi, lo, hi = RANGE[T]
        yield Batch(f"pairs-{T}0", [f"pairs {T} 0 - - {lo} {hi} {clo} {chi}", f"pair {T} 0 - - - - {lo} {hi}", f"cmp {T} 0 - - - -"],
                    exhaustive=True, note="the only pair of 0-dimensional boxes")
        cs = cube(clo, chi, 1)
        ops = [f"pairs {T} 1 {vs(a)} {vs(b)} {lo} {hi} {clo} {chi}" for a in cs for b in cs]
        yield Batch(f"pairs-{T}1", ops, exhaustive=True, note="all pairs of 1-D boxes x all lattice points")
    # ---- pairs, n = 2
    for T in TYPES:
        clo, chi, lo, hi = RANGE[T]
        if thorough:
            cs = cube(clo, chi, 2)
            ops = [f"pairs {T} 2 {vs(a)} {vs(b)} {lo} {hi} {clo} {chi}" for a in cs for b in cs]
            yield Batch(f"pairs-{T}2", ops, exhaustive=True, note="all pairs of 2-D boxes with corners in the full range x all lattice points")
        elif T in "iu":
            qlo, qhi, _, _ = QRANGE[T]
            cs = cube(qlo, qhi, 2)
            ops = [f"pairs {T} 2 {vs(a)} {vs(b)} {lo} {hi} {qlo} {qhi}" for a in cs for b in cs]
            yield Batch(f"pairs-{T}2-inner", ops, exhaustive=True, note=f"all pairs of 2-D boxes with corners in [{qlo},{qhi}] x all lattice points")
        if not thorough:
            r = rng.fork("pairs2" + T)
            cs = cube(clo, chi, 2)
            ops = []
            for _ in range(300 if T in "iu" else 30):
                a, b = r.choice(cs), r.choice(cs)
                if r.chance(1, 2):
                    b = tuple(min(chi, x + r.range(1, 3)) for x in a)
                ops.append(f"pairs {T} 2 {vs(a)} {vs(b)} {lo} {hi} {clo} {chi}")
            yield Batch(f"pairs-{T}2-sampledA", ops, note="seeded sample of boxes A (half of them non-empty) against every box B of the full range")
    # ---- pairs, n = 3: small corner range, all pairs (thorough) / sampled A (quick)
    for T in TYPES:
        clo, chi, lo, hi = (-1, 1, -2, 2) if SIGNED[T] else (0, 2, 0, 3)
        cs = cube(clo, chi, 3)
        if thorough:
            ops = [f"pairs {T} 3 {vs(a)} {vs(b)} {lo} {hi} {clo} {chi}" for a in cs for b in cs]
            yield Batch(f"pairs-{T}3-small", ops, exhaustive=True, note=f"all pairs of 3-D boxes with corners in [{clo},{chi}] x all lattice points of [{lo},{hi}]^3")
        else:
            r = rng.fork("pairs3" + T)
            cnt = 60 if T in "iu" else 12
            ops = [f"pairs {T} 3 {vs(r.choice(cs))} {vs(r.choice(cs))} {lo} {hi} {clo} {chi}" for _ in range(cnt)]
            yield Batch(f"pairs-{T}3-small-sampledA", ops, note=f"seeded 3-D boxes A against every 3-D box B with corners in [{clo},{chi}]")
    # ---- pairs and unary, n = 4: corners in {0,1} (B: all 256 boxes), A sampled
    for T in TYPES:
        clo, chi, lo, hi = (0, 1, -1, 2) if SIGNED[T] else (1, 2, 0, 3)
        cs = cube(clo, chi, 4)
        r = rng.fork("pairs4" + T)
        cnt = (10 if T in "iu" else 4) * (6 if thorough else 1)
        ops = [f"pairs {T} 4 {vs(r.choice(cs))} {vs(r.choice(cs))} {lo} {hi} {clo} {chi}" for _ in range(cnt)]
        ops += [f"unary {T} 4 {vs(r.choice(cs))} {vs(r.choice(cs))} {clo - 1} {chi}" for _ in range(cnt * 4)]
        yield Batch(f"pairs-unary-{T}4-sampledA", ops, note="seeded 4-D boxes A against every 4-D box B with corners in a 2-value range; 4-D unary observations (16 corner points)")
    # ---- comparison-only functions at the ends of the type's range: all quadruples in 1-D, seeded in 2-D / 3-D
    for T in TYPES:
        ev = EXT[T]
        ops = [f"cmp {T} 1 {a} {b} {c} {d}" for a in ev for b in ev for c in ev for d in ev]
        ops += [f"extp {T} 1 {a} {b} {c}" for a in ev for b in ev for c in ev]
        if not SIGNED[T]:
            # arithmetic wraps: every function can be observed there
            ops += [f"shr {T} 1 {a} {b} {c}" for a in ev for b in ev for c in ev]
            ops += [f"strel {T} 1 {a} {b} {c}" for a in ev for b in ev for c in ev]
            ops += [f"unary {T} 1 {a} {b} {c} {c + 1}" for a in ev for b in ev for c in (0, ev[-1] - 1)]
            ops += [f"pair {T} 1 {a} {b} {c} {d} 0 1" for a in ev for b in ev for c in ev for d in ev]
        yield Batch(f"cmp-extreme-{T}1", ops, exhaustive=True,
                    note="intersects / contains (both ways) / intersection / extend_bounding_box / interval for every pair of 1-D boxes with corners at the "
                         "ends of the type's range; contains_point / extend-by-point for every box and point there; unsigned types: also shrink / stretch / "
                         "stretch_relative / unary / pair (wrap-around)")
        r = rng.fork("cmpx" + T)
        ops = []
        for _ in range(4000 if thorough else 600):
            n = r.choice([2, 2, 3, 4])
            pick = lambda: [r.choice(ev) for _ in range(n)]
            ops.append(f"cmp {T} {n} {vs(pick())} {vs(pick())} {vs(pick())} {vs(pick())}")
        yield Batch(f"cmp-extreme-{T}234", ops, note="the same in 2, 3, 4 dimensions, seeded")
    # ---- one axis at a time in 2, 3, 4 dimensions: axis k runs over ALL pairs of 1-D intervals of the corner range while the other
    #      axes are held at a configuration in which every per-axis test passes (equal / nested / overlapping intervals), so
    #      the result of every all_of-style function is decided by axis k alone (an error confined to one index shows)
    for T in TYPES:
        clo, chi, _, _ = RANGE[T]
        o = 0 if SIGNED[T] else 1
        backgrounds = [((1 + o, 3 + o), (1 + o, 3 + o)), ((0 + o, 3 + o), (1 + o, 2 + o)), ((0 + o, 2 + o), (1 + o, 3 + o))]
        rng1 = range(clo, chi + 1)
        for n in (2, 3, 4):
            ops = []
            for k in range(n):
                for (a0, a1), (b0, b1) in backgrounds:
                    for x0 in rng1:
                        for x1 in rng1:
                            for y0 in rng1:
                                for y1 in rng1:
                                    amin = [x0 if j == k else a0 for j in range(n)]
                                    amax = [x1 if j == k else a1 for j in range(n)]
                                    bmin = [y0 if j == k else b0 for j in range(n)]
                                    bmax = [y1 if j == k else b1 for j in range(n)]
                                    ops.append(f"pair {T} {n} {vs(amin)} {vs(amax)} {vs(bmin)} {vs(bmax)} {1 + o} {2 + o}")
            yield Batch(f"axis-{T}{n}", ops, exhaustive=True,
                        note="every axis k: all pairs of 1-D intervals on axis k x three passing configurations on the other axes")
    # ---- mixed magnitudes: interval_distance on all quadruples; seeded pair / unary / shr / strel / single statements
    for T in TYPES:
        mv = MID[T]
        ops = [f"idist {T} {a} {b} {c} {d}" for a in mv for b in mv for c in mv for d in mv]
        yield Batch(f"idist-mid-{T}", ops, exhaustive=True, note="interval_distance on all quadruples of values of very different magnitude (differences beyond 2^31 / near 2^bits)")
        r = rng.fork("mid" + T)
        ops = []
        for _ in range(3000 if thorough else 400):
            n = r.choice([1, 1, 2, 2, 3])
            pick = lambda: [r.choice(mv) for _ in range(n)]
            c = r.choice(mv)
            lo, hi = max(c - 1, mv[0]), min(c + 1, mv[-1])
            k = r.below(10)
            if k < 4:
                ops.append(f"pair {T} {n} {vs(pick())} {vs(pick())} {vs(pick())} {vs(pick())} {lo} {hi}")
            elif k < 7:
                ops.append(f"unary {T} {n} {vs(pick())} {vs(pick())} {lo} {hi}")
            elif k < 8:
                ops.append(f"shr {T} {n} {vs(pick())} {vs(pick())} {vs(pick())}")
            elif k < 9:
                f = [r.range(-2, 2) if SIGNED[T] else r.choice([0, 1, 2, 3, mv[-1]]) for _ in range(n)]
                ops.append(f"strel {T} {n} {vs(pick())} {vs(pick())} {vs(f)}")
            else:
                ops.append(progs_op(T, n, (pick(), pick(), pick(), pick(), pick()), 1 if SIGNED[T] else 2))
        yield Batch(f"mid-{T}", ops, note="seeded boxes with corners of very different magnitude (large sizes): pair, unary, shrink/stretch, stretch_relative, "
                    "every single statement (unsigned: every sequence of two)")
    # ---- statement sequences on the objects A, B, V
    for T in TYPES:
        full = thorough or T in "iu"
        r = rng.fork("prog" + T)
        ops = [progs_op(T, 0, ([], [], [], [], []), k) for k in (0, 1, 2, 3)]
        sts = all_states(T, 1)
        if not full:
            sts = [r.choice(sts) for _ in range(30)]
        ops += [progs_op(T, 1, st, k) for st in sts for k in ((0, 1, 2) if full else (2,))]
        yield Batch(f"progs-{T}01", ops, exhaustive=full,
                    note="all statement sequences of length <= 2 (30 statements: assignment through the mutable pos()/max(), aliasing within the "
                         "object, copy/move/swap incl. self, A = f(A, ...), no_init, (pos,size) constructor) from every 1-D state "
                         "(A, B, V with coordinates in [-1,1] / [0,2])" + ("" if full else " - seeded sample of the states"))
        ops = []
        for n, cnt in ((2, 40 if T in "iu" else 10), (3, 10), (4, 6)):
            for _ in range(cnt * (30 if thorough else 1)):
                ops.append(progs_op(T, n, rand_state(r, T, n), 2))
        if thorough:
            sts = all_states(T, 1)
            ops += [progs_op(T, 1, r.choice(sts), 3) for _ in range(80)]
            ops += [progs_op(T, 2, rand_state(r, T, 2), 3) for _ in range(30)]
            ops += [progs_op(T, 3, rand_state(r, T, 3), 3) for _ in range(10)]
        yield Batch(f"progs-{T}234", ops, note="all statement sequences of length 2 (thorough: also 3) from seeded 2-D, 3-D, 4-D states")
    # ---- accumulation loops: b = extend_bounding_box(b, p_j); a = extend_bounding_box(a, b_j); a = intersection(a, b_j)
    for T in TYPES:
        clo, chi = (-2, 2) if SIGNED[T] else (0, 4)
        r = rng.fork("fold" + T)
        if thorough or T in "iu":
            pts = [str(x) for x in range(clo, chi + 1)]
            ops = [f"foldp {T} 1 {a} {b}" + "".join(" " + q for q in ps) for a in pts for b in pts
                   for k in (0, 1, 2, 3) for ps in itertools.product(pts, repeat=k)]
            bl, bh = PRANGE[T]
            boxes = [f"{a} {b}" for a in range(bl, bh + 1) for b in range(bl, bh + 1)]
            ops += [f"foldb {T} 1 " + " ".join(bs) for k in (1, 2, 3, 4) for bs in itertools.product(boxes, repeat=k)]
            yield Batch(f"fold-{T}1", ops, exhaustive=True,
                        note="extend-by-point loops over all point lists of length <= 3 from every 1-D box with corners in [-2,2] / [0,4]; "
                             "extend / intersection loops over all lists of <= 4 boxes with corners in [-1,1] / [0,2]")
        ops = []
        for _ in range(2000 if thorough else 300):
            n = r.choice([1, 2, 2, 3, 4, 0]) if T in "lm" else r.choice([2, 2, 3, 4, 0])
            base = r.choice(BASES[T])
            a = rand_box(r, n, clo, chi, base)
            if r.chance(1, 2):
                ps = [[max(base + r.range(clo - 1, chi + 1), 0 if not SIGNED[T] else -(1 << 62)) for _ in range(n)] for _ in range(r.range(0, 5))]
                ops.append(f"foldp {T} {n} {vs(a[0])} {vs(a[1])}" + "".join(" " + vs(q) for q in ps))
            else:
                bs = [rand_box(r, n, clo, chi, base) for _ in range(r.range(0, 4))]
                ops.append(f"foldb {T} {n} {vs(a[0])} {vs(a[1])}" + "".join(f" {vs(x)} {vs(y)}" for x, y in bs))
        yield Batch(f"fold-{T}-seeded", ops, note="seeded accumulation loops in 0 … 4 dimensions, also at base offsets")
    # ---- 3-D, other dimensions and large coordinates: seeded random
    r = rng.fork("rand")
    cnt = 20000 if thorough else 4000
    ops = []
    for _ in range(cnt):
        T = r.choice(["i", "u", "i", "u", "l", "m"])
        n = r.choice([3, 3, 3, 3, 3, 3, 3, 3, 3, 3, 1, 2, 1, 2, 2, 4, 4, 4, 4, 0])
        clo, chi, lo, hi = RANGE[T]
        if n == 4:
            lo, hi = (-1, 1) if SIGNED[T] else (0, 2)
        base = r.choice(BASES[T])
        if r.chance(1, 6):
            base = 0
            clo_, chi_ = (-53, 53) if SIGNED[T] else (0, 100)
            lat_lo = r.range(clo_, chi_ - 2)
            lat_hi = lat_lo + 2
        else:
            clo_, chi_ = clo, chi
            lat_lo, lat_hi = base + lo, base + hi
        a = rand_box(r, n, clo_, chi_, base)
        b = rand_box(r, n, clo_, chi_, base)
        k = r.below(10)
        if k < 6:
            ops.append(f"pair {T} {n} {vs(a[0])} {vs(a[1])} {vs(b[0])} {vs(b[1])} {lat_lo} {lat_hi}")
        else:
            ops.append(f"unary {T} {n} {vs(a[0])} {vs(a[1])} {lat_lo} {lat_hi}")
    yield Batch("random-3d-and-offsets", ops, note="half three-dimensional, rest 0/1/2/4-D; int, unsigned (2/3), long, unsigned long (1/3); corners from a 7-value "
                "range around base offsets {0, +-1000, +-2^29} (int) / {0, 1000, 2^31, 2^32-8} (unsigned) / {0, +-1000, +-2^61, 2^31, 2^32-3} (long) / "
                "{0, 1000, 2^63, 2^64-8, 2^32-3} (unsigned long), 1/6 from a 100-wide range; 60% pair, 40% unary")
    # ---- extreme coordinates: only the comparison-based functions (no arithmetic on signed types)
    r = rng.fork("extreme")
    cnt = 8000 if thorough else 1500
    ops = []
    for _ in range(cnt):
        T = r.choice(["i", "u", "i", "u", "l", "m"])
        U = "u" if T in "iu" else "m"
        n = r.choice([1, 2, 3])
        pick = lambda: [r.choice(EXT[T]) for _ in range(n)]
        picku = lambda: [r.choice(EXT[U]) for _ in range(n)]
        if r.chance(1, 2) or SIGNED[T]:
            ops.append(f"pt {T} {n} {vs(pick())} {vs(pick())} {vs(pick())} {vs(pick())} {vs(pick())}")
        else:
            k = r.below(4)
            if k == 0:
                ops.append(f"shr {U} {n} {vs(picku())} {vs(picku())} {vs(picku())}")
            elif k == 1:
                ops.append(f"extp {U} {n} {vs(picku())} {vs(picku())} {vs(picku())}")
            elif k == 2:
                ops.append(f"strel {U} {n} {vs(picku())} {vs(picku())} {vs(picku())}")
            else:
                ops.append(f"idist {U} {r.choice(EXT[U])} {r.choice(EXT[U])} {r.choice(EXT[U])} {r.choice(EXT[U])}")
    # extend-by-point at extreme signed coordinates is comparison-only as well
    for _ in range(cnt // 4):
        T = r.choice(["i", "i", "l"])
        n = r.choice([1, 2, 3])
        pick = lambda: [r.choice(EXT[T]) for _ in range(n)]
        ops.append(f"extp {T} {n} {vs(pick())} {vs(pick())} {vs(pick())}")
    yield Batch("extreme-coordinates", ops, note="coordinates at the ends of the type's range: contains_point/intersection/extend (all four types), "
                "shrink/stretch/stretch_relative/interval_distance with wrap-around (unsigned, unsigned long)")


MANIFEST = {
    "level_text": ("Machine-checked proof (Lean 4, 103 theorems) over an executable model that mirrors the box headers index by index: for every dimension n "
                   "and all integer coordinates, contains_point is membership in the half-open point set, the intersection's points are exactly "
                   "the common points and it is the null box when intersects is false, intersects <-> common point and contains <-> subset for "
                   "non-empty boxes, extend_bounding_box is the least box containing both (also accumulated over any list of boxes or points, in any "
                   "order), and size/corner_points/center/shrink/stretch_absolute/stretch_relative/structure_cast/constructors/comparison/operator<< "
                   "are characterised coordinate-wise (signed: under the no-overflow guard with a separate fault theorem; unsigned: modulo 2^bits, "
                   "including round trips and the strict total order for wrapped sizes); writes through the mutable pos()/max() and all statement "
                   "sequences over two box objects (aliasing, self-assignment, swap, move) are modelled as a state machine with theorems by induction "
                   "over the sequence. The model is tied to the code by a differential correspondence for int, unsigned, long, unsigned long and "
                   "N = 0..4 that is exhaustive over all pairs of 1-D and 2-D boxes with corners in [-3,3] (int) / [0,6] (unsigned) and all lattice "
                   "points, over all statement sequences of length <= 2 from every small 1-D state, over one axis at a time in 2-4 dimensions, over "
                   "all 1-D pairs at the ends of each type's range, and seeded random in 3-D / 4-D."),
    "level_note": ("Trusted: Lean kernel + propext/Classical.choice/Quot.sound; the hand-written model's fidelity outside the exercised inputs; "
                   "harness and digest protocol; C++ integer semantics for int/unsigned/long/unsigned long as modelled by Ty.norm / Ty.wrap. "
                   "No sorry/axiom/native_decide."),
    "technique": "Lean 4 proof over hand-written executable model + exhaustive differential correspondence (ASan/UBSan harness)",
    "design_ref": "DESIGN.md §5 C13",
}
