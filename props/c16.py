"""C16 — algorithm and container helpers equal their straightforward reference."""
from vlib.runner import Batch

ID = "C16"
LEAN_PROPS = ["FcpptProofs.Props.C16"]
import os as _os
_H = _os.path.join(_os.path.dirname(_os.path.dirname(_os.path.abspath(__file__))), "harness")
# the per-function evaluation is spread over eight translation units that the runner compiles in parallel; they are given
# as absolute paths in `repo_srcs` (os.path.join(REPO, <absolute>) is the absolute path itself)
HARNESS = {"src": "harness/c16.cpp", "repo_srcs": [_os.path.join(_H, f"c16_{p}.cpp") for p in "abcdefgh"]}
TIE = ("hand-written loop-level model (FcpptModel/Model/C16.lean) + differential correspondence against the real templates, "
       "exhaustive over sequences over {0,1,2} up to length 6 for every function, source kind and parameter table, with the "
       "dimensions aliasing (value / key / second container = part of the first argument, every position), value category of every "
       "argument (probe element with a moved-from marker: result and every source afterwards), reference identity of returned "
       "references, const / non-const instantiation, static arities, and all short histories of the map / index_map helpers")
RULE = ("`d fn src params len` = digest over all 3^len sequences of one function/source/parameter table (weight 3^len); "
        "`dsplit`/`djoin`/`dm`/`dset` likewise for strings, string lists, maps and set pairs. Thorough: every predicate (8), value (3), "
        "function table (27), optional table (64), concat table (64), break table (8), relation (512), every applicable source kind "
        "(vector list deque forward_list set map array tuple mpl int_range enum_range), lengths 0..6, strings to length 7. "
        "Quick: the same parameter spaces up to length 5 (large tables sampled per seed), strings to length 5. "
        "Plus seeded samples of longer sequences (7..12), longer strings, sets over 0..9 and index_map histories. "
        "Extension round: `…at` functions take the value from position i of the container itself; `vc…` functions take every argument as "
        "const lvalue / lvalue / rvalue over probe elements and print result|sources afterwards; target 4 of `map` logs reserve(); "
        "`atopt` indices 1000..1005 = 2^31, 2^32, 2^32+1, 2^63, 2^64-1, 2^33+2; `skip` = parameter not applicable to the sequence. "
        "An op is non-trivial unless its sequence/len is empty/0.")
ASSUMPTIONS = [
    "std::vector/list/deque/forward_list = List; std::set/std::map = strictly sorted (association) list; iterators = positions",
    "std::find/find_if, std::remove_if, std::unique, std::set_union/intersection/difference, std::inserter behave as specified by the standard "
    "(remove_if/unique: the tail behind the returned position is an arbitrary `junk` parameter of the model)",
    "std::equal_range/lower_bound/upper_bound: modelled as the libstdc++ bisection loops (so that unsorted inputs correspond as well)",
    "callbacks are the table functions of the driver protocol; captured state is threaded explicitly",
    "capacity is not observable on std containers: reserve only changes `Cont.cap`, which is compared through a probe target that logs reserve()",
    "a moved-from probe element is in the marker state 9 (copy leaves the source as it is); moved-from std containers are not inspected",
]
TRUSTED = ["harness/c16.cpp and the digest/line protocol (vh.hpp, Proto.lean)",
           "g++ 12 + ASan/UBSan as witness for memory safety of the instantiations (erase during iteration, references into maps)"]

RO = ["v", "l", "d", "f", "s", "m", "i", "e"]
SQ = ["v", "l", "d"]


def pw(b, e):
    return b ** e


def enum_tokens(k, ln):
    if k in ("i", "e"):
        return [f"{b}{e}" for b in range(4) for e in range(4) if max(e - b, 0) == ln and (k == "i" or b <= e)]
    out = []
    for n in range(3 ** ln):
        out.append("".join(str((n // 3 ** (ln - 1 - i)) % 3) for i in range(ln)) if ln else "-")
    return out


def all_strings(alpha, ln):
    k = len(alpha)
    return ["".join(alpha[(n // k ** (ln - 1 - i)) % k] for i in range(ln)) for n in range(k ** ln)]


PIECES = [s for l in range(3) for s in all_strings("ab", l)]


def piece_tuples(n):
    ts = [[]]
    for _ in range(n):
        ts = [t + [p] for t in ts for p in PIECES]
    return ts


def weight(op):
    t = op.split()
    if t[0] == "d":
        return max(1, len(enum_tokens(t[2], int(t[-1]))))
    if t[0] == "dsplit":
        return 3 ** int(t[2])
    if t[0] == "dsplitat":
        return 3 ** int(t[3])
    if t[0] in ("djoin", "djoinat"):
        return 7 ** int(t[2])
    if t[0] in ("dm", "dset"):
        return 64
    return 1


def nontrivial(op, result):
    t = op.split()
    if t[0] in ("d", "dsplit", "dsplitat"):
        return t[-1] != "0"
    if t[0] in ("s", "split"):
        return t[-1] != "-"
    return True


def refine(op):
    t = op.split()
    sh = lambda s: s if s else "-"
    if t[0] == "d":
        return [" ".join(["s"] + t[1:-1] + [tok]) for tok in enum_tokens(t[2], int(t[-1]))]
    if t[0] == "dsplit":
        return [f"split {t[1]} {sh(s)}" for s in all_strings("abc", int(t[2]))]
    if t[0] == "djoin":
        return [" ".join(["joinstr", t[1], t[2]] + [sh(p) for p in tu]) for tu in piece_tuples(int(t[2]))]
    if t[0] == "dsplitat":
        return [f"splitat {t[1]} {t[2]} {sh(s)}" for s in all_strings("abc", int(t[3]))]
    if t[0] == "djoinat":
        return [" ".join(["joinstrat", t[1], t[2]] + [sh(p) for p in tu]) for tu in piece_tuples(int(t[2]))]
    if t[0] == "dm":
        return [" ".join(["m"] + t[1:] + [str(M)]) for M in range(64)]
    if t[0] == "dset":
        ml = lambda m: ",".join(str(i) for i in range(3) if (m >> i) & 1) or "-"
        if t[1] in "NCnc":
            return [f"setop {t[1]} {ml(n // 8)} {n % 4}" for n in range(64)]
        return [f"setop {t[1]} {ml(n // 8)} {ml(n % 8)}" for n in range(64)]
    return None


# function -> (list of parameter ranges, source kinds, max length for that kind (None = default))
def fn_table():
    return [
        # name, param spaces, kinds
        ("map", [5, 27], RO),
        ("mapopt", [4, 64], RO),
        ("mapcat", [4, 64], RO),
        ("fold", [], RO + ["a", "t", "p"]),
        ("foldbrk", [8], RO),
        ("loopbrk", [8], RO + ["a", "t", "p"]),
        ("loop", [], RO + ["a", "t", "p"]),
        ("allof", [8], RO),
        ("containsif", [8], RO),
        ("contains", [3], [k for k in RO if k != "m"]),
        ("findopt", [3], [k for k in RO if k != "m"]),
        ("findifopt", [8], RO),
        ("findbyopt", [64], RO),
        ("indexof", [3], ["v", "d", "a"]),
        ("eqrange", [3], SQ + ["s"]),
        ("bsearch", [3], SQ + ["s"]),
        ("removeif", [8], SQ),
        ("remove", [3], SQ),
        ("unique", [], SQ),
        ("uniqueif", [512], SQ),
        ("reverse", [], SQ),
        ("seqiter", [16], SQ),
        ("atopt", [15], ["v", "d", "a"]),
        ("amap", [27], ["a"]),
        ("apush", [3], ["a"]),
        ("afrom", [5], ["v", "d"]),
        ("tmap", [27], ["t"]),
        ("tpush", [3], ["t"]),
        # aliasing / references / arities
        ("removeat", [6], SQ),
        ("containsat", [6], SQ + ["f", "s"]),
        ("findoptat", [6], SQ + ["f", "s"]),
        ("indexofat", [6], ["v", "d", "a"]),
        ("eqrangeat", [6], SQ + ["s"]),
        ("bsearchat", [6], SQ + ["s"]),
        ("apushat", [5], ["a"]),
        ("aappendself", [], ["a"]),
        ("ajoinself", [], ["a"]),
        ("tpushat", [2], ["t"]),
        ("tconcatself", [], ["t"]),
        ("loopmut", [9], SQ + ["a"]),
        ("singular", [7, 7], SQ + ["s"]),
        ("singularc", [], SQ + ["s", "f"]),
        ("ajoin1", [], ["a"]),
        ("ajoin2", [4], ["a"]),
        ("ajoin4", [16], ["a"]),
        ("tconcatn", [3, 4], ["t"]),
        # value categories (probe elements)
        ("vcmap", [3], SQ + ["a", "t"]),
        ("vcfold", [3], SQ),
        ("vcmapopt", [3], SQ),
        ("vcmapcat", [3], SQ),
        ("make", [4], ["v"]),
        ("mvrange", [], SQ),
        # erase-while-iterating on other associative containers
        ("mmiter", [8], ["v"]),
        ("setiter", [8], ["s"]),
        # user functions that observe the container they are called from / throw at their T-th call (T = 0: never)
        ("loopbrkx", [8, 8], RO + ["a", "t", "p"]),
        ("foldx", [1, 8], RO + ["a", "t", "p"]),
        ("foldbrkx", [8, 8], RO + ["a", "t", "p"]),
        ("mapx", [4, 8], RO),
        ("findbyoptx", [64, 8], RO),
        ("findifoptx", [8, 8], RO),
        ("seqiterx", [8, 8], SQ),
        ("removeifx", [8, 8], SQ),
        ("uniqueifx", [512, 8], SQ),
        ("amapx", [8], ["a"]),
        ("ainitx", [8], ["a"]),
        ("gennx", [3, 8], ["v"]),
        # remaining helpers of fcppt/algorithm and fcppt/container
        ("equal", [4, 7], SQ + ["f"]),
        ("equalself", [], SQ + ["f"]),
        ("csize", [], RO),
        ("mfront", [], SQ + ["f"]),
        ("mback", [], SQ),
        ("popback", [], SQ),
        ("popfront", [], ["l", "d", "f"]),
        ("data", [], ["v", "a"]),
        ("output", [], SQ + ["f", "s"]),
    ]

# functions whose parameters are not a plain product of ranges starting at 0: (name, list of parameter tuples, kinds)
def vc_table():
    cats3 = [0, 1, 2]
    cats2 = [1, 2]
    out = []
    out.append(("vcjoin", [[a, b, c] for a in cats3 for b in cats2 for c in cats2], SQ, "cut2"))
    out.append(("vcappend", [[a, b] for a in cats3 for b in cats3], ["a"], "cut1"))
    out.append(("vcpush", [[a, b, v] for a in cats3 for b in cats3 for v in range(3)], ["a"], None))
    out.append(("vcajoin", [[a, b, c] for a in cats3 for b in cats2 for c in cats2], ["a"], "cut2"))
    out.append(("vcfrom", [[a, n] for a in cats3 for n in range(4)], ["v", "d"], None))
    out.append(("vctpush", [[a, b, v] for a in cats3 for b in cats3 for v in range(3)], ["t"], None))
    out.append(("vctconcat", [[a, b, c] for a in cats2 for b in cats2 for c in cats2], ["t"], "cut2"))
    return out


VC_MAXLEN = {"vcjoin": None, "vcappend": 4, "vcpush": 3, "vcajoin": 3, "vcfrom": 4, "vctpush": 2, "vctconcat": 3}


def max_len(k, fn, top):
    if fn in ("make", "ajoin4", "amapx"):
        return 4
    if fn == "ainitx":
        return 5
    if fn in ("aappendself", "ajoinself"):
        return 3
    if fn == "tpushat":
        return 2
    if fn == "vcmap" and k in ("a", "t"):
        return 3
    if k == "t":
        return 2 if fn == "tpush" else 3
    if k == "p":
        return 3
    if k in ("i", "e"):
        return 3
    if fn == "apush":
        return min(top, 5)
    return top


def param_tuples(spaces, rng, limit):
    """all parameter tuples if there are at most `limit`, otherwise `limit` sampled ones (always containing the corners)"""
    total = 1
    for s in spaces:
        total *= s
    def nth(n):
        out = []
        for s in reversed(spaces):
            out.append(n % s)
            n //= s
        return list(reversed(out))
    if limit is None or total <= limit:
        return [nth(n) for n in range(total)]
    picks = {0, total - 1}
    while len(picks) < limit:
        picks.add(rng.below(total))
    return [nth(n) for n in sorted(picks)]


def batches(rng, tier):
    thorough = tier == "thorough"
    top = 6 if thorough else 5
    limit = None if thorough else 40
    r = rng.fork("params")
    for fn, spaces, kinds in fn_table():
        ops = []
        # the target kind of map-like functions is the first parameter: keep all four targets
        for k in kinds:
            if fn == "map" and k in ("a", "p"):
                continue
            pts = param_tuples(spaces, r, limit)
            if fn in ("map", "mapopt", "mapcat") and not thorough:
                # every target container (map: + the probe target that logs reserve()), sampled tables
                pts = [[t] + p for t in range(spaces[0]) for p in param_tuples(spaces[1:], r, 8)]
            if fn == "atopt":
                # indices 0..8 and six indices that differ from small ones only in the high bits (coded 1000..1005)
                pts = [[i] for i in range(9)] + [[1000 + i] for i in range(6)]
            for ps in pts:
                for ln in range(0, max_len(k, fn, top) + 1):
                    ops.append(" ".join(["d", fn, k] + [str(p) for p in ps] + [str(ln)]))
        yield Batch(f"exh-{fn}", ops, exhaustive=thorough,
                    note=f"{fn}: all sequences up to length {top}, kinds {''.join(kinds)}, " + ("all parameter tables" if thorough else "sampled tables"))
    # map over array / mpl sources (vector target only)
    ops = []
    for F in (range(27) if thorough else [0, 5, 13, 21, 26]):
        for t in (0, 4):
            for ln in range(0, top + 1):
                ops.append(f"d map a {t} {F} {ln}")
            for ln in range(0, 4):
                ops.append(f"d map p {t} {F} {ln}")
    yield Batch("exh-map-array-mpl", ops, exhaustive=thorough, note="algorithm::map from fcppt::array and mpl::list sources")
    # functions with cut positions: join, aappend, ajoin, tconcat
    ops = []
    for k in SQ + ["s"]:
        for ln in range(0, top + 1):
            ops.append(f"d join {k} 1 0 0 {ln}")
            ops.append(f"d join {k} 4 0 0 {ln}")
            ops.append(f"d join {k} 5 0 0 {ln}")
            for c1 in range(0, ln + 1):
                ops.append(f"d join {k} 2 {c1} {c1} {ln}")
                for c2 in range(c1, ln + 1):
                    ops.append(f"d join {k} 3 {c1} {c2} {ln}")
    for ln in range(0, 7):
        for c1 in range(0, ln + 1):
            if c1 <= 3 and ln - c1 <= 3:
                ops.append(f"d aappend a {c1} {ln}")
            for c2 in range(c1, ln + 1):
                if c1 <= 2 and c2 - c1 <= 2 and ln - c2 <= 2 and (thorough or ln <= 4):
                    ops.append(f"d ajoin a {c1} {c2} {ln}")
    for ln in range(0, 4):
        for c1 in range(0, ln + 1):
            for c2 in range(c1, ln + 1):
                ops.append(f"d tconcat t {c1} {c2} {ln}")
    yield Batch("exh-join-append-concat", ops, exhaustive=True, note="container::join (1-3 arguments, lvalue and rvalue), array::append/join, tuple::concat: all cut positions")
    # value categories of every argument (probe elements, 9 = moved-from)
    ops = []
    for fn, pts, kinds, cut in vc_table():
        for k in kinds:
            mx = VC_MAXLEN[fn]
            mx = min(top, 5) if mx is None else mx
            for ps in pts:
                for ln in range(0, mx + 1):
                    if cut is None:
                        cuts = [[]]
                    elif cut == "cut1":
                        cuts = [[c1] for c1 in range(0, ln + 1)]
                    else:
                        cuts = [[c1, c2] for c1 in range(0, ln + 1) for c2 in range(c1, ln + 1)]
                    if fn == "vcjoin" and not thorough:
                        # all cut positions for lengths <= 3, the extreme cuts beyond
                        cuts = [c for c in cuts if ln <= 3 or c[0] in (0, ln) or c[1] in (c[0], ln)]
                    for c in cuts:
                        ops.append(" ".join(["d", fn, k] + [str(p) for p in ps + c] + [str(ln)]))
    yield Batch("exh-value-categories", ops, exhaustive=thorough,
                note="container::join, array::append/push_back/join/from_range, tuple::push_back/concat: const lvalue / lvalue / rvalue for every argument, all cut positions; result and every source afterwards")
    # strings
    ops = [f"dsplit {K} {ln}" for K in "sv" for ln in range(0, (7 if thorough else 5) + 1)]
    for D in ["-", "c", "cc", "ab"]:
        for n in range(0, (4 if thorough else 3) + 1):
            ops.append(f"djoin {D} {n}")
    yield Batch("exh-strings", ops, exhaustive=True, note="split_string over {a,b,c}* (c = delimiter) incl. join_strings round trip; join_strings of up to 4 pieces of length <= 2")
    ops = []
    for ln in range(0, (7 if thorough else 5) + 1):
        for I in range(0, max(ln, 1)):
            ops += [f"dsplitat {K} {I} {ln}" for K in "sv"]
    for n in range(0, (4 if thorough else 3) + 1):
        ops += [f"djoinat {I} {n}" for I in range(0, max(n, 1))]
    yield Batch("exh-strings-aliased", ops, exhaustive=True,
                note="split_string(s, s[i]) and join_strings(r, r[i]): the delimiter is an element of the argument, every position i")
    # bisection beyond the exhaustive lengths: every sorted sequence over {0,1,2} up to length 16 (24)
    ops = []
    nmax = 24 if thorough else 16
    for n in range(7, nmax + 1):
        for c0 in range(n + 1):
            for c1 in range(n - c0 + 1):
                tok = "0" * c0 + "1" * c1 + "2" * (n - c0 - c1)
                for V in range(3):
                    k = "vlds"[(c0 + c1 + V) % 4] if not thorough else None
                    for kk in ([k] if k else list("vlds")):
                        ops.append(f"s eqrange {kk} {V} {tok}")
                        ops.append(f"s bsearch {kk} {V} {tok}")
    yield Batch("sorted-long", ops, exhaustive=True,
                note=f"equal_range / binary_search on every sorted sequence over {{0,1,2}} of length 7..{nmax} (all run-length triples), every value")
    # maps and sets
    ops = []
    for K in range(3):
        ops += [f"dm findmapped {K}", f"dm getorins {K}"]
    ops += ["dm keyset", "dm mapvals"]
    ops += [f"dm mapiter {R}" for R in range(64)] + [f"dm mapiter2 {R}" for R in range(8)]
    for K in range(4):
        ops += [f"dm contains {K}", f"dm findopt {K}", f"dm findit {K}"]
    ops += [f"dm insert {KV}" for KV in range(12)]
    ops += [f"dm valsref {D}" for D in range(3)]
    ops += [f"dm goicb {K} {T}" for K in range(4) for T in range(3)]
    ops += [f"dm {f} {R} {T}" for f in ("mapiterx", "mapiter2x") for R in range(8) for T in range(5)]
    for J in range(3):
        ops += [f"dm {f} {J}" for f in ("getorinsat", "getorinsatv", "findmappedat", "containsat", "insertat")]
    ops += [f"dset {o}" for o in "UIDuidNCnc"]
    yield Batch("exh-maps-sets", ops, exhaustive=True, note="all 64 maps {0,1,2}->{0,1,2} x keys / remove tables; all pairs of subsets of {0,1,2}")
    # scalars
    ops = [f"repeat {c}" for c in list(range(-3, 12)) + [100, 1000, -1000]]
    ops += [f"genn {t} {n}" for t in "vldr" for n in list(range(0, 10)) + [33, 64]]
    ops += [f"dyn {n}" for n in list(range(0, 10)) + [33, 64]]
    ops += [f"ainit {n}" for n in range(7)]
    yield Batch("scalars", ops, exhaustive=True, note="repeat (signed, unsigned), generate_n, array::init call order")

    # ------------------------------------------------------------ seeded samples beyond the exhaustive sizes
    r = rng.fork("long")
    cnt = 6000 if thorough else 1200
    ops = []
    tab = [f for f in fn_table() if f[0] not in ("amap", "apush", "tmap", "tpush", "afrom", "make")
           and any(x not in ("a", "t", "p", "i", "e") for x in f[2])]
    for _ in range(cnt):
        fn, spaces, kinds = r.choice(tab)
        k = r.choice([x for x in kinds if x not in ("a", "t", "p", "i", "e")])
        ln = r.range(7, 12)
        mode = r.below(4)
        if mode == 0:   # sorted
            xs = sorted(r.below(3) for _ in range(ln))
        elif mode == 1:  # runs
            xs = []
            while len(xs) < ln:
                xs += [r.below(3)] * r.range(1, 4)
            xs = xs[:ln]
        else:
            xs = [r.below(3) for _ in range(ln)]
        ps = [r.below(s) for s in spaces]
        if fn == "atopt":
            ps = [r.choice([0, 1, ln - 1, ln, ln + 1, 999, 1000, 1001, 1002, 1003, 1004, 1005])]
        if fn == "singular":
            i = r.range(0, ln)
            ps = [i, r.choice([i, min(i + 1, ln), r.range(i, ln)])]
        if fn == "equal":
            ps = [ps[0], r.choice([ln // 2, ln // 2, r.range(0, ln)])]
        ops.append(" ".join(["s", fn, k] + [str(p) for p in ps] + ["".join(map(str, xs))]))
    yield Batch("sampled-long", ops, note="sequences of length 7..12 (sorted / runs / random), all functions")

    r = rng.fork("strings")
    ops = []
    for _ in range(1500 if thorough else 300):
        ln = r.range(8, 24)
        s = "".join(r.choice("abc" if r.chance(1, 2) else "aabcc") for _ in range(ln))
        ops.append(f"split {r.choice('sv')} {s}")
        n = r.range(0, 8)
        ps = ["".join(r.choice("abc") for _ in range(r.range(0, 4))) or "-" for _ in range(n)]
        ops.append(" ".join(["joinstr", r.choice(["-", "c", "cc", "abc"]), str(n)] + ps))
    yield Batch("sampled-strings", ops, note="longer strings and piece lists, pieces may contain the delimiter")

    r = rng.fork("sets")
    ops = []
    for _ in range(1500 if thorough else 300):
        a = [r.below(10) for _ in range(r.range(0, 7))]
        b = [r.below(10) for _ in range(r.range(0, 7))]
        sh = lambda l: ",".join(map(str, l)) or "-"
        ops.append(f"setop {r.choice('UID')} {sh(a)} {sh(b)}")
    yield Batch("sampled-sets", ops, note="sets over 0..9 (given as unsorted lists with duplicates)")

    r = rng.fork("imap")
    ops = []
    for _ in range(300 if thorough else 60):
        ops.append("reset")
        for _ in range(r.range(1, 12)):
            ops.append(f"{r.choice(['imget', 'imget', 'imidx'])} {r.choice([0, 1, 2, 3, 5, 8, r.below(20)])}")
    yield Batch("index-map-histories", ops, kind="history", note="index_map::get / operator[] histories (growth by repeated insert())")

    # every history of up to 3 steps over a small alphabet (index_map), up to 3 (quick) / 4 (thorough) steps (std::map helpers)
    def words(alpha, n):
        ws = [[]]
        out = []
        for _ in range(n):
            ws = [w + [a] for w in ws for a in alpha]
            out += ws
        return out
    ops = []
    for w in words([f"{o} {i}" for o in ("imget", "imidx") for i in (0, 1, 2, 4)] + ["imgetx 2 1", "imgetx 4 2", "imgetx 3 0"], 3):
        ops += ["reset"] + w
    yield Batch("index-map-all-short-histories", ops, kind="history", exhaustive=True,
                note="all get / operator[] histories of length <= 3 over the indices 0 1 2 4 (growth, no growth, old elements kept), "
                     "incl. an insert() that records the size it sees and throws at its 1st / 2nd call (partial growth stays)")
    alpha = ["hgoi 0", "hgoi 1", "hgoi 2", "hins 1 2", "hins 0 0", "hset 1 1", "hiter 1", "hiter 6", "hfind 1", "hcont 0"]
    ops = []
    for w in words(alpha, 4 if thorough else 3):
        ops += ["reset"] + w
    yield Batch("map-all-short-histories", ops, kind="history", exhaustive=True,
                note="get_or_insert(_with_result) / insert / assignment through the returned reference / map_iteration_second / "
                     "find_opt_mapped / contains: all histories up to length 3 (4) — find after insert, insert after erase, second lookup of the same key")
    r = rng.fork("maphist")
    ops = []
    for _ in range(300 if thorough else 60):
        ops.append("reset")
        for _ in range(r.range(4, 14)):
            o = r.below(7)
            K = r.below(4)
            ops.append([f"hgoi {K}", f"hins {K} {r.below(3)}", f"hset {K} {r.below(3)}", f"hiter {r.below(8)}", f"hfind {K}", f"hcont {K}", f"hgoi {K}"][o])
    yield Batch("map-histories", ops, kind="history", note="longer random histories of the std::map helpers")


MANIFEST = {
    "level_text": ("Machine-checked proof (Lean 4) over an executable model that mirrors each helper's loop (loop_break with early return, "
                   "iterator loops of find_by_opt / split_string / join_strings, the libstdc++ bisection of equal_range, erase-while-iterating, "
                   "index_map growth, array::init index recursion): for all lists, tables and states the model equals the one-line List "
                   "specification (map, filterMap, flatMap, foldl, find?, idxOf?, filter, eraseReps, reverse, splitOn, intercalate, ...), visits "
                   "elements in order and stops at the documented element; join_strings inverts split_string; binary_search on sorted input "
                   "finds the unique equivalent element and on arbitrary input terminates in bounds and only ever returns an equivalent element; "
                   "lvalue sources are left untouched and rvalue sources are consumed element by element (map, container::join, array and tuple "
                   "helpers, make, move_range); the remaining helpers of fcppt/algorithm and fcppt/container (equal, find_opt(_iterator), contains, "
                   "insert, maybe_front/back, pop_front/back, size, data(_end), dynamic_array, output) equal their List specifications. "
                   "The model is tied to the code by a differential correspondence that is exhaustive over all sequences over {0,1,2} up to "
                   "length 6 for every function, container kind, parameter table, aliasing position and value category."),
    "level_note": ("Trusted: Lean kernel + propext/Classical.choice/Quot.sound; std algorithms/containers modelled by their specifications; "
                   "fidelity of the hand-written model outside the exercised inputs; harness and digest protocol. No sorry/axiom/native_decide."),
    "technique": "Lean 4 proof over hand-written executable model + exhaustive differential correspondence (ASan/UBSan harness)",
    "design_ref": "DESIGN.md §5 C16",
}
