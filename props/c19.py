"""C19 — fcppt::log: the level of a location / log object is the latest set on a prefix (else the root level),
a message is written exactly when its level is enabled, and the text is the composed formatter chain."""
from vlib.runner import Batch

ID = "C19"
LEAN_PROPS = ["FcpptProofs.Props.C19"]
HARNESS = {
    "src": "harness/c19.cpp",
    "repo_srcs": [
        # libs/log, public part
        "libs/log/src/log/context.cpp",
        "libs/log/src/log/detail/context_tree_node.cpp",
        "libs/log/src/log/detail/temporary_output.cpp",
        "libs/log/src/log/format/chain.cpp",
        "libs/log/src/log/format/default_level.cpp",
        "libs/log/src/log/format/inserter.cpp",
        "libs/log/src/log/format/prefix.cpp",
        "libs/log/src/log/level_stream.cpp",
        "libs/log/src/log/level_to_string.cpp",
        "libs/log/src/log/level_to_string_impl.cpp",
        "libs/log/src/log/location.cpp",
        "libs/log/src/log/object.cpp",
        "libs/log/src/log/out.cpp",
        "libs/log/src/log/parameters.cpp",
        "libs/log/src/log/parameters_no_function.cpp",
        "libs/log/src/log/level_from_string.cpp",
        "libs/log/src/log/level_input.cpp",
        "libs/log/src/log/level_output.cpp",
        "libs/log/src/log/default_level_streams.cpp",
        "libs/log/src/log/default_stream.cpp",
        "libs/log/src/log/format/time_stamp.cpp",
        # libs/log, impl part
        "libs/log/impl/src/log/impl/convert_level.cpp",
        "libs/log/impl/src/log/impl/find_child.cpp",
        "libs/log/impl/src/log/impl/find_child_const.cpp",
        "libs/log/impl/src/log/impl/find_or_create_child.cpp",
        "libs/log/impl/src/log/impl/tree_formatter.cpp",
        # what those need from libs/core
        "libs/core/src/exception.cpp",
        "libs/core/src/from_std_string.cpp",
        "libs/core/src/io/cerr.cpp",
        "libs/core/src/io/clog.cpp",
        "libs/core/src/time/localtime.cpp",
        "libs/core/src/time/std_time.cpp",
        "libs/core/src/to_std_string.cpp",
        "libs/core/src/assert/information.cpp",
        "libs/core/src/insert_extract_locale.cpp",
    ],
    # the library's CMake default is ENABLE_THREADS=ON: context.cpp takes its std::mutex only then
    "flags": ["-DENABLE_THREADS", "-pthread"],
    "libs": [],
}

# the second harness: the same library sources under ThreadSanitizer, several threads on one context
HARNESS_TSAN = {
    "src": "harness/c19_tsan.cpp",
    "repo_srcs": [x for x in HARNESS["repo_srcs"] if x != "libs/core/src/exception.cpp"],
    "flags": ["-DENABLE_THREADS", "-pthread"],
    "libs": [],
    "tsan": True,
}
# the third harness: k <= 3 threads, a handful of operations, every order of them (forced by a relaxed turn counter, or released together)
HARNESS_SCHED = dict(HARNESS_TSAN, src="harness/c19_sched.cpp")
EXTRA_HARNESSES = [HARNESS_TSAN, HARNESS_SCHED]

TIE = ("hand-written model (FcpptModel/Model/C19.lean) mirroring context.cpp / context_tree_node.cpp / find_or_create_child.cpp / "
       "object.cpp / level_stream.cpp / chain.cpp / tree_formatter.cpp / location.cpp / level names and io / format factories + "
       "differential correspondence against the real library (ASan/UBSan): EVERY history of <= 3 state-changing operations over the 15 "
       "locations of depth <= 3 over two names and three levels (4 operations over depth 2; digest lines with refine), exhaustive "
       "emission / text / API matrices, random histories; the interleaving model (Model/C19/Conc.lean) is tied to the code by (a) a "
       "schedule harness that forces every order of k <= 3 operations of k threads through a relaxed turn counter (exact comparison "
       "with the sequential model, ThreadSanitizer sees only the library's own synchronisation) and releases them together (joint "
       "result must be the joint result of one of the k! orders), hammer runs, and (b) sampled ThreadSanitizer runs of 2-6 threads "
       "whose observed levels are checked against the linearisation rule")
RULE = ("history batches: a case is one history (`reset`, `ctx <root> <streams>`, then operations on one context); the result line of "
        "every operation is compared with the model's. `small-histories`: one `enum` line stands for all histories with a given prefix "
        "over a given alphabet and counts as that many evaluations; its result is the number of histories and an FNV digest of every "
        "result line of every history. An op is non-trivial if it is an observation with a well-formed result; distinct = distinct "
        "(op line, result line) pairs. The concurrent runs are counted separately in coverage.tsan and coverage.sched.")
ASSUMPTIONS = [
    "a reference to a tree node is modelled by the node's location (children live in a std::list and are never erased, so references stay valid)",
    "the atomic level of a node is a natural number read/written in one step (single-copy atomicity); std::mutex = at most one owner",
    "formatters are total functions String -> String; narrow strings (fcppt::string = std::string)",
    "levels given to set / the context constructor are enumerators 0..5 or empty (History.Valid)",
    "concurrent claim is PARTIAL: proved for the transcribed interleaving model only; real schedulers, the C++ memory model and "
    "libstdc++'s mutex/atomic are outside the model, TSan is the sampled witness",
]
TRUSTED = ["harness/c19.cpp, harness/c19_tsan.cpp (its timestamp-based justification rule assumes x86-TSO), harness/c19_sched.cpp (forced orders through a "
           "relaxed turn counter: x86-TSO, no compiler motion of relaxed accesses across the library calls) and the line protocol (vh.hpp, Proto.lean)",
           "g++ 12 + ASan/UBSan (memory safety) and ThreadSanitizer (data races) as dynamic witnesses",
           "the transcription of the lock/atomic discipline in FcpptModel/Model/C19/Conc.lean (reviewed against context.cpp/object.cpp, not proved)"]
MANIFEST = {
    "level_text": ("Machine-checked proof (Lean 4) over an executable model of the fcppt::log context tree: for every root level and every history "
                   "of context::set calls and log-object constructions (all three constructors), context::get, object::level, "
                   "object::enabled and the emitted text equal the specification 'latest set on a prefix wins, else the root level' / "
                   "'object formatter . location prefixes root first . level-stream formatter' (get_eq_latest_prefix, "
                   "object_level_eq_latest_prefix, enabled_iff, emits_iff, prefix_order), by an invariant proved over all histories. A "
                   "small-step interleaving model of the lock/atomic discipline is proved race-free on the tree structure (lock_discipline, "
                   "no_conflicting_unsynchronised_accesses) and every level load is proved justified by a linearisation of the overlapping "
                   "sets (observed_level_justified, get_linearised; exact when no set is in progress). The rest of libs/log's public API "
                   "(location, level names and stream operators, format factories, level_stream, default streams, parameters, the FCPPT_LOG_* "
                   "macros' lazy evaluation) is modelled with its own theorems. The sequential model is tied to the code by differential "
                   "correspondence over ALL histories of <= 3 operations (depth 3) / 4 operations (depth 2) and random histories (length <= 60); "
                   "the concurrent one by forcing every order of k <= 3 operations under ThreadSanitizer, released rounds and sampled TSan runs."),
    "level_note": ("Concurrent claim partial: proved about the transcribed step system only (schedulers, C++ memory model, libstdc++ mutex/atomic not "
                   "modelled; unlocked reads of write-once node fields by tree_formatter are shown to hit existing nodes only). Trusted: Lean kernel + "
                   "propext/Classical.choice/Quot.sound; model fidelity outside exercised inputs; harnesses; TSan/ASan as sampled witnesses."),
    "technique": "Lean 4 proof (invariant over histories; interleaving semantics) + differential correspondence of all small and of random histories (ASan/UBSan) + forced-order schedule exploration and ThreadSanitizer stress harness with linearisation checks",
    "design_ref": "DESIGN.md §5 C19",
}


def extra_checks(binp, rng, tier, ev):
    """The concurrent tie: 2-6 threads hammer one context under ThreadSanitizer; any TSan report (exit code 96), crash, or
    observed level / emitted text that no linearisation justifies is a violation."""
    import os
    from vlib import harness as hb
    from vlib.runner import run_harness
    tbin, info = hb.build(HARNESS_TSAN)
    if tbin is None:
        return [{"kind": "broken-correspondence", "what": "TSan harness does not build against /repo: " + str(info.get("error", ""))[-1500:]}]
    thorough = tier == "thorough"
    # VERIF_C19_PART=sched|tsan runs only one of the two concurrent ties (for looking at one of them; the check runs both)
    part = os.environ.get("VERIF_C19_PART", "")
    if part == "sched":
        return sched_checks(thorough, ev)
    r = rng.fork("tsan")
    ops = []
    for k in range(6000 if thorough else 500):
        n = 2 + k % 5                                   # 2..6 threads, all counts equally often
        nops = r.range(120, 300) if r.chance(3, 4) else r.range(300, 700)   # many short runs: node creation races happen early
        root = "-" if r.chance(1, 7) else str(r.below(6))
        ops.append(f"run {r.below(1 << 30)} {n} {nops} {root} {k % 3}")
    lines, deaths = run_harness(tbin, ops, history=False, parts=8)
    cov = {"runs": len(ops), "threads": {}, "deaths": len(deaths), "harness": {k: info.get(k) for k in ("cached", "key", "seconds")}}
    viol = []
    for op, line in zip(ops, lines):
        t = op.split()
        cov["threads"][t[2]] = cov["threads"].get(t[2], 0) + 1
        if line is not None and line.startswith("ok "):
            for kv in line.split()[1:]:
                k, _, v = kv.partition("=")
                if k != "threads" and v.isdigit():
                    cov[k] = cov.get(k, 0) + int(v)
            continue
        if line in ("NOT-RUN", None):
            continue
        if len(viol) < 3:
            viol.append({"kind": "input", "batch": "tsan-threads", "batch_kind": "stateless", "ops": [op],
                         "expected": ["ok ... (no ThreadSanitizer report, every observed level justified by a linearisation, every text as documented)"],
                         "observed": [line],
                         "what": ("concurrent use of one context: " + line[:400] + f" -- rerun (schedule dependent): echo '{op}' | "
                                  f"TSAN_OPTIONS=exitcode=96:halt_on_error=1 {tbin}")})
    cov["violating_runs"] = sum(1 for l in lines if l is not None and not l.startswith("ok ") and l != "NOT-RUN")
    ev["coverage"]["tsan"] = cov
    ev["coverage"]["generator_op_mix"] = dict(GEN_STATS)
    if part != "tsan":
        viol += sched_checks(thorough, ev)
    return viol


# ---- small-scope schedule exploration (harness/c19_sched.cpp) ---------------------------------------------------
def interleavings(progs):
    """all merges of the per-thread programs (lists) that keep each program's order; items are (tid, op)"""
    if all(not p for p in progs):
        return [[]]
    out = []
    for t, p in enumerate(progs):
        if p:
            rest = [q if i != t else q[1:] for i, q in enumerate(progs)]
            out += [[(t, p[0])] + w for w in interleavings(rest)]
    return out

def is_ctor(op):
    return op.startswith("obj")

def static_ids(setup, progs, post):
    """static object index of every creating operation: setup, then the threads' programs in thread order, then post"""
    ids, n = {}, 0
    for key, ops in [("s", setup)] + [(t, p) for t, p in enumerate(progs)] + [("p", post)]:
        for i, op in enumerate(ops):
            if is_ctor(op):
                ids[(key, i)] = n
                n += 1
    return ids

def driver_history(root, setup, seq, post, locs, ids_of):
    """the sequential history for the Lean driver for one order `seq` = [(tid, index in program, op)];
    returns (lines, extractors): extractor(result line) -> the harness' text for that step"""
    lines = ["reset", f"ctx {root} D"]
    ex = [None, None]
    gid = {}          # static id -> driver id (creation order of THIS history)
    def tr(key, i, op):
        t = op.split(",")
        if t[0] in ("objr", "objl"):
            gid[ids_of[(key, i)]] = len(gid)
            return " ".join(t), (lambda r: "ok" if r.startswith("obj=") else r)
        if t[0] == "objc":
            line = f"objc {gid[int(t[1])]} {t[2]} {t[3]}"
            gid[ids_of[(key, i)]] = len(gid)
            return line, (lambda r: "ok" if r.startswith("obj=") else r)
        if t[0] == "lvl":
            return f"lvl {gid[int(t[1])]}", (lambda r: r.split()[0])
        if t[0] == "en":
            k = int(t[2])
            return f"lvl {gid[int(t[1])]}", (lambda r: "en=" + r.split()[1][3:][k] if r.startswith("lvl=") else r)
        if t[0] in ("log", "logm"):
            return f"{t[0]} {gid[int(t[1])]} {t[2]} {t[3]}", (lambda r: r.replace(" ", "\\s"))
        return " ".join(t), (lambda r: r)
    for i, op in enumerate(setup):
        l, e = tr("s", i, op); lines.append(l); ex.append(None)
    step_pos = {}
    for (tid, i, op) in seq:
        l, e = tr(tid, i, op); step_pos[(tid, i)] = len(lines); lines.append(l); ex.append(e)
    post_pos = []
    for i, op in enumerate(post):
        l, e = tr("p", i, op); post_pos.append(len(lines)); lines.append(l); ex.append(e)
    fin = len(lines)
    lines += [f"get {l}" for l in locs]
    ex += [None] * len(locs)
    return lines, ex, step_pos, post_pos, fin

def joint(results, off, ex, order, step_pos, post_pos, fin, nloc):
    """joint result text in the harness' format; `order` = [(tid, i)] in the order the line lists the steps; `off` = where this
    history starts in the driver's results"""
    steps = "@".join(ex[step_pos[k]](results[off + step_pos[k]]) for k in order)
    post = "@".join(ex[p](results[off + p]) for p in post_pos)
    final = ",".join(r[4:] if r.startswith("lvl=") else r for r in results[off + fin:off + fin + nloc])
    return f"{steps}!{post}!{final}"


SWEEP = ["-", "a", "b", "a.a", "a.b", "b.a", "a.b.a"]
SETUPS = [[], ["objl,a,b,-"], ["set,a,1", "objr,a,F"]]
COMMON = ["set,-,1", "set,-,-", "set,a,1", "set,a,-", "set,a.b,4", "set,b,1",
          "get,-", "get,a", "get,a.b", "get,a.b.a", "get,b",
          "objr,a,-", "objr,b,F", "objl,a,b,-", "objl,a.b,a,F", "objl,b,a,-"]
COMMON_SMALL = ["set,a,1", "set,-,-", "get,a.b", "objr,a,-", "objl,a,b,-"]

def owner_ops(tid, small=False):
    """operations on object 0 (created by main in the setup, handed to this thread)"""
    ops = ["lvl,0", f"log,0,{tid},m"] if small else ["lvl,0", "en,0,3", f"log,0,{tid},m", f"logm,0,{tid + 3},m", "objc,0,a,-"]
    return ops

def post_ops(nobj_static):
    look = [f"lvl,{i}" for i in range(nobj_static)]
    return look + ["set,a,2"] + look + ["set,b,5"] + look + ["set,a.b,0"] + look

def scenarios(thorough):
    """(kind, setup, progs, post): kind 'single' = one operation per thread (forced in every order and released), 'multi' =
    two operations per thread (forced in every interleaving)"""
    out = []
    for setup in SETUPS:
        has_obj = any(is_ctor(o) for o in setup)
        a0 = COMMON + (owner_ops(0) if has_obj else [])
        for x in a0:
            for y in COMMON:
                out.append(("single", setup, [[x], [y]]))
        small0 = COMMON_SMALL + (owner_ops(0, True) if has_obj else [])
        t0, t12 = (a0, COMMON) if thorough else (small0, COMMON_SMALL)
        for x in t0:
            for y in t12:
                for z in t12:
                    out.append(("single", setup, [[x], [y], [z]]))
        # two steps per thread: the second step of a thread uses what its first one made (# = its own object)
        n0 = sum(1 for o in setup if is_ctor(o))
        p0 = [["objr,a,-", "lvl,#"], ["objl,a,b,F", "log,#,0,m"], ["objl,a.b,a,-", "en,#,3"], ["get,a.b", "get,a"], ["set,a,1", "get,a.b"], ["set,a.b,-", "set,a,4"]]
        if has_obj:
            p0 += [["lvl,0", "lvl,0"], ["log,0,0,m", "lvl,0"], ["objc,0,b,-", "lvl,#"]]
        p1 = [["set,a,1", "set,a.b,-"], ["set,-,-", "set,a,4"], ["objr,a,F", "logm,#,1,m"], ["objl,a,b,-", "en,#,1"], ["get,a", "set,a,1"], ["set,a,-", "get,a.b.a"], ["objl,a,b,G", "lvl,#"]]
        for x in p0:
            for y in p1:
                # static ids: setup objects, then thread 0's, then thread 1's
                c0 = sum(1 for o in x if is_ctor(o))
                xs = [o.replace("#", str(n0)) for o in x]
                ys = [o.replace("#", str(n0 + c0)) for o in y]
                out.append(("multi", setup, [xs, ys]))
    return out

def plan(thorough, repeat):
    """-> (sched lines, driver ops, checks); a check = (line index, [ (driver offset, ex, order, step_pos, post_pos, fin) per allowed order ])"""
    lines, dops, checks = [], [], []
    for kind, setup, progs in scenarios(thorough):
        ids = static_ids(setup, progs, [])
        nstatic = len(ids)
        post = post_ops(nstatic)
        ids = static_ids(setup, progs, post)
        listed = [(t, i) for t, p in enumerate(progs) for i in range(len(p))]          # thread order
        tagged = [[(t, i, op) for i, op in enumerate(p)] for t, p in enumerate(progs)]
        allowed = []
        for seq in interleavings(tagged):
            seq = [x[1] for x in seq]                                                     # (tid, i, op)
            hist, ex, step_pos, post_pos, fin = driver_history("3", setup, seq, post, SWEEP, ids)
            entry = (len(dops), ex, step_pos, post_pos, fin)
            dops += hist
            allowed.append(entry)
            # forced: this very order
            steps = ";".join(f"{t}:{op}" for (t, i, op) in seq)
            lines.append(f"sched f 1 3 {';'.join(setup) or '-'} {steps} {';'.join(post)} {','.join(SWEEP)}")
            checks.append((len(lines) - 1, [(t, i) for (t, i, op) in seq], [entry]))
        # the macros are `if (enabled) log`: two loads, not one atomic step - forced orders only
        if kind == "single" and not any(p[0].startswith("logm,") for p in progs):
            steps = ";".join(f"{t}:{p[0]}" for t, p in enumerate(progs))
            lines.append(f"sched r {repeat} 3 {';'.join(setup) or '-'} {steps} {';'.join(post)} {','.join(SWEEP)}")
            checks.append((len(lines) - 1, listed, allowed))
    return lines, dops, checks

def verdicts(lines, out, dres, checks):
    """compare; returns list of (line, observed, allowed texts)"""
    bad = []
    for li, order, allowed in checks:
        texts = []
        for off, ex, step_pos, post_pos, fin in allowed:
            texts.append(joint(dres, off, ex, order, step_pos, post_pos, fin, len(SWEEP)))
        o = out[li]
        if o is None or not o.startswith("ok "):
            bad.append((lines[li], o, texts)); continue
        for got in o[3:].split("#"):
            if got not in texts:
                bad.append((lines[li], got, texts)); break
    return bad


def sched_checks(thorough, ev):
    """Every order of k <= 3 operations on one context, executed by k threads: forced (exact comparison with the sequential
    model of that order, ThreadSanitizer sees only the library's own synchronisation) and released together (the joint result
    must be the joint result of one of the k! orders)."""
    import sys
    import time
    from vlib import harness as hb
    from vlib.runner import run_driver, run_harness
    t0 = time.time()
    sbin, info = hb.build(HARNESS_SCHED)
    if sbin is None:
        return [{"kind": "broken-correspondence", "what": "schedule harness does not build against /repo: " + str(info.get("error", ""))[-1500:]}]
    lines, dops, checks = plan(thorough, 16 if thorough else 8)
    dres = run_driver(sys.modules[__name__], dops, history=True)
    # maximal contention on one subtree: a setter alternating two levels, an unlocked loader and a locked getter below it
    n = 20000 if thorough else 4000
    hammers = [f"hammer {n} {root} {loc} {v1} {v2} {below}"
               for root, loc, v1, v2, below in (("3", "a", "1", "4", "b"), ("-", "-", "0", "5", "a.b"), ("2", "a.b", "-", "3", "-"),
                                                ("5", "-", "1", "-", "a"), ("0", "a", "5", "2", "-"), ("3", "a", "4", "1", "b.a"))
               for _ in range(4 if thorough else 2)]
    hout, hdeaths = run_harness(sbin, hammers, history=False, parts=6)
    out, deaths = run_harness(sbin, lines, history=False, parts=8)
    deaths = deaths + hdeaths
    viol = []
    for line, got in zip(hammers, hout):
        if got != "NOT-RUN" and not (got or "").startswith("ok hammer") and len(viol) < 2:
            viol.append({"kind": "input", "batch": "sched-hammer", "batch_kind": "stateless", "ops": [line],
                         "expected": ["ok hammer … (every level seen is the root level or one of the two levels being set)"],
                         "observed": [str(got)],
                         "what": f"a level that no order of the calls produces was observed (or ThreadSanitizer reported a race): {str(got)[:300]} "
                                 f"-- rerun (schedule dependent): echo '{line}' | TSAN_OPTIONS=exitcode=96:halt_on_error=1 {sbin}"})
    bad = verdicts(lines, out, dres, checks)
    for line, got, allowed in bad:
        if got == "NOT-RUN":
            continue
        if len(viol) < 3:
            mode = "forced order" if line.split()[1] == "f" else "released together"
            viol.append({"kind": "input", "batch": "sched-orders", "batch_kind": "stateless", "ops": [line],
                         "expected": ["ok " + " | ".join(allowed[:6])], "observed": [str(got)],
                         "what": (f"{mode}: the joint result is not the sequential model's result for "
                                  + ("this order" if mode == "forced order" else "any order of the steps")
                                  + f", or ThreadSanitizer reported a race: {str(got)[:300]} -- rerun: echo '{line}' | "
                                  f"TSAN_OPTIONS=exitcode=96:halt_on_error=1 {sbin}")})
    forced = sum(1 for l in lines if l.split()[1] == "f")
    ev["coverage"]["sched"] = {
        "lines": len(lines), "forced_orders": forced, "released_scenarios": len(lines) - forced,
        "released_rounds": (len(lines) - forced) * (16 if thorough else 8),
        "released_with_several_joint_results": sum(1 for l, o in zip(lines, out) if l.split()[1] == "r" and o and o.startswith("ok ") and "#" in o),
        "hammer_runs": len(hammers), "hammer_sets_per_run": n,
        "hammer_observers_seeing_3_values": sum((o or "").count("3") for o in hout if (o or "").startswith("ok hammer")),
        "driver_lines": len(dops), "deaths": len(deaths), "disagreeing": len([b for b in bad if b[1] != "NOT-RUN"]),
        "seconds": round(time.time() - t0, 1), "harness": {k: info.get(k) for k in ("cached", "key", "seconds")}}
    return viol


# ---- generators --------------------------------------------------------------------------------------------
NAMES = ["a", "b", "c"]          # the same three names at every depth
CFGS = ["D", "N", "M"]
TAGS = ["F", "G", "Hx"]
OBSERVATIONS = ("get", "lvl", "objr", "objl", "objc", "log", "logm", "logp", "loga", "fmt", "sink", "cstr", "enum", "case",
                "lfs", "lts", "lout", "lin", "loc", "chain", "fn", "ts", "ls", "dstream", "dls", "params", "pnf")
MAX_OPS = 60
DEPTHS = [0, 1, 1, 2, 2, 2, 3, 3]   # depth of a freshly drawn location (the root wipes everything: keep it rarer)

# op kind -> number of generated lines, filled while `batches` is consumed (last generation only)
GEN_STATS = {}
# batch name -> {op kind -> count}
GEN_STATS_BY_BATCH = {}


def op_mix(ops):
    """op kind (first token of the line) -> number of lines"""
    d = {}
    for o in ops:
        t = o.split()
        k = t[0] if t else ""
        d[k] = d.get(k, 0) + 1
    return d


def _account(name, ops):
    m = op_mix(ops)
    GEN_STATS_BY_BATCH[name] = m
    for k, v in m.items():
        GEN_STATS[k] = GEN_STATS.get(k, 0) + v


def nontrivial(op, model_line):
    """observations count, state changes (`reset`, `ctx`, `set` -> ok) and rejected lines do not"""
    t = op.split()
    return bool(t) and t[0] in OBSERVATIONS and model_line != "bad-op" and not model_line.startswith(("fault:", "MODEL-"))


def loc_str(loc):
    return ".".join(loc) if loc else "-"


# names that are related to each other: prefix, suffix, same first / last character, different case (a lookup that compares
# less than the whole name finds the wrong child)
RELATED_NAMES = ["ab", "aa", "ba", "A", "abc"]


def rand_name(r):
    if r.chance(3, 100):
        return "_"
    return r.choice(RELATED_NAMES) if r.chance(1, 8) else r.choice(NAMES)


def rand_level(r):
    return "-" if r.chance(1, 7) else str(r.below(6))


def rand_fmt(r):
    return "-" if r.chance(1, 2) else r.choice(TAGS + ["P:p", "I:[:]", "L:2"])


FMTX = ["-", "-", "F", "P:p", "P:", "I:<:>", "I::", "L:0", "L:3", "L:5"]


def rand_fmtx(r):
    """formatter descriptions incl. the library's own formatter factories (prefix / inserter / default_level)"""
    return r.choice(FMTX)


def rand_loc(r, used, max_depth=4):
    """depth 0..3 over NAMES; half of the time a prefix / an extension / a copy of a location used earlier in the case"""
    if used and r.chance(1, 2):
        base = list(r.choice(used))
        k = r.below(5)
        if k < 2 and len(base) >= 2:             # truncate (now and then down to the root)
            loc = [] if r.chance(1, 6) else base[: r.range(1, len(base) - 1)]
        elif k < 4 and len(base) < max_depth:    # extend
            loc = base + [rand_name(r) for _ in range(r.range(1, min(2, max_depth - len(base))))]
        else:
            loc = base
    else:
        loc = [rand_name(r) for _ in range(r.choice(DEPTHS))]
    used.append(loc)
    return loc


def ctx_line(r):
    return f"ctx {rand_level(r)} {r.choice(CFGS)}"


def random_case(r):
    ops = ["reset"]
    if not r.chance(1, 20):
        ops.append(ctx_line(r))
    used = []       # locations used so far in this case
    objs = []       # node location of every object, by id
    alive = []      # ids of the objects not destroyed yet
    n = r.range(3, MAX_OPS)

    def new_obj():
        k = r.below(100)
        name = rand_name(r)
        if alive and k < 30:
            pid = r.choice(alive)
            node = objs[pid] + [name]
            line = f"objc {pid} {name} {rand_fmt(r)}"
        elif k < 55:
            node = [name]
            line = f"objr {name} {rand_fmt(r)}"
        else:
            loc = rand_loc(r, used, 3)
            node = loc + [name]
            line = f"objl {loc_str(loc)} {name} {rand_fmt(r)}"
        alive.append(len(objs))
        objs.append(node)
        used.append(node)
        return line

    for _ in range(n):
        k = r.below(100)
        if k < 25:
            loc = [] if r.chance(1, 25) else rand_loc(r, used)     # a set on the root rewrites the whole tree
            ops.append(f"set {loc_str(loc)} {rand_level(r)}")
        elif k < 43:
            ops.append(f"get {loc_str(rand_loc(r, used))}")
        elif k < 45:
            ops.append(f"cstr {r.below(6)} {rand_fmtx(r)} m{r.below(1000)}")
        elif k < 63 or not alive:
            ops.append(new_obj())
        elif k < 65:
            # destroy a log object: its node stays in the tree, its children (objects and nodes) are unaffected
            i = r.choice(alive)
            alive.remove(i)
            ops.append(f"del {i}")
        elif k < 73:
            ops.append(f"lvl {r.choice(alive)}")
        elif k < 76:
            ops.append(f"fmt {r.choice(alive)} t{r.below(100)}")
        elif k < 79:
            ops.append(f"sink {r.choice(alive)} {r.below(6)} {rand_fmtx(r)} m{r.below(1000)}")
        elif k < 82:
            ops.append(f"logp {r.choice(alive)} {r.below(6)} p{r.below(100)} {'q' * r.below(12)}x")
        else:
            op = "log" if r.chance(1, 2) else "logm"
            ops.append(f"{op} {r.choice(alive)} {r.below(6)} m{r.below(1000)}")
    return ops


def subtree(r, base, depth, full):
    """locations of a tree of that depth below `base` in pre-order; 2-3 children per node (3 everywhere when full),
    children in a random order (the creation order is the order context::set walks them in)"""
    out = []

    def go(loc, d):
        if d == 0:
            return
        kids = list(NAMES)
        r.shuffle(kids)
        if not full and r.chance(1, 2):
            kids = kids[:2]
        for k in kids:
            child = loc + [k]
            out.append(child)
            go(child, d - 1)

    go(list(base), depth)
    return out


def deep_case(r):
    ops = ["reset", ctx_line(r)]
    base = [] if r.chance(1, 2) else [rand_name(r)] if r.chance(2, 3) else [rand_name(r), rand_name(r)]
    full = r.chance(1, 4)
    nodes = subtree(r, base, 3, full)
    order = list(nodes)
    how = r.below(4)
    if how == 1:
        order.reverse()                           # leaves before their parents
    elif how == 2:
        r.shuffle(order)
    elif how == 3:
        order = [n for n in nodes if len(n) == len(base) + 3]   # leaves only; inner nodes come into being implicitly
        r.shuffle(order)
    objs = []            # node location by id
    obj_at = {}          # location -> an object id sitting there
    for loc in order:
        parent, name = loc[:-1], loc[-1]
        if r.chance(1, 2):
            ops.append(f"set {loc_str(loc)} {rand_level(r)}")
            continue
        pid = obj_at.get(tuple(parent))
        if pid is not None and r.chance(2, 3):
            ops.append(f"objc {pid} {name} {rand_fmt(r)}")
        elif not parent and r.chance(1, 2):
            ops.append(f"objr {name} {rand_fmt(r)}")
        else:
            ops.append(f"objl {loc_str(parent)} {name} {rand_fmt(r)}")
        obj_at[tuple(loc)] = len(objs)
        objs.append(loc)
    # every location that exists now (creating a leaf creates its ancestors), root and the base's prefixes included
    existing = [list(base[:i]) for i in range(len(base) + 1)] + nodes
    inner = [list(base)] + [n for n in nodes if len(n) < len(base) + 3]
    for _ in range(r.range(1, 3)):
        k = r.below(10)
        target = [] if k == 0 else list(base) if k == 1 else r.choice(inner)
        ops.append(f"set {loc_str(target)} {rand_level(r)}")
        for loc in existing:
            ops.append(f"get {loc_str(loc)}")
        # a location that does not exist answers with its deepest existing ancestor
        ghost = r.choice(existing) + ["zz"]
        ops.append(f"get {loc_str(ghost)}")
        for i in range(len(objs)):
            ops.append(f"lvl {i}")
        if objs:
            for _ in range(r.range(1, 4)):
                op = "log" if r.chance(1, 2) else "logm"
                ops.append(f"{op} {r.below(len(objs))} {r.below(6)} m{r.below(1000)}")
    return ops


DOCS_EXAMPLE = [
    # /repo/examples/log/context.cpp
    "reset",
    "ctx 1 D",                          # context{optional_level{level::debug}, default_level_streams()}
    "objr root -",                      # root_log{make_ref(context), parameters(root_name, optional_function{})}
    "objc 0 child -",                   # child_log{root_log, parameters(child_name, ...)}
    "get root",
    "get root.child",
    "logm 0 2 Printfromroot",           # FCPPT_LOG_INFO(root_log, ...)
    "logm 1 2 Printfromchild",
    "set root.child 3",                 # context.set(location{root_name} / child_name, warning)
    "get root",
    "get root.child",
    "lvl 0",
    "lvl 1",
    "logm 1 2 shouldntbeshown",
    "logm 0 2 rootstillshown",
    "logm 1 3 warningisshown",
    "set root 1",                       # context.set(location{root_name}, debug): every location below as well
    "get root.child",
    "lvl 1",
    "logm 1 2 Thisisnowshown",
    "logm 1 0 verbosenot",
    # the same through object::log and with formatters on the objects (examples/log/formatting.cpp style)
    "reset",
    "ctx 1 D",
    "objr root F",
    "objc 0 child G",
    "log 0 2 Printfromroot",
    "log 1 2 Printfromchild",
    "set root.child 3",
    "log 1 2 shouldntbeshown",
    "set root 1",
    "log 1 2 Thisisnowshown",
    # the same on the state a bare reset gives (root warning)
    "reset",
    "objr root -",
    "objc 0 child -",
    "logm 1 2 notshown",
    "logm 1 3 shown",
    "set - 1",
    "logm 1 2 nowshown",
]


# ---- systematic small-scope batches ------------------------------------------------------------------------------
def paths(names, depth):
    """all locations over `names` up to that depth, shortest first"""
    out, layer = [[]], [[]]
    for _ in range(depth):
        layer = [p + [n] for p in layer for n in names]
        out += layer
    return out


def alphabet(names, depth, levels, ids=(0, 1)):
    """state-changing operations over a small scope (tokens joined by `,`): every set(loc, lvl) with |loc| <= depth, the
    three constructors wherever the new node has depth <= `depth` (objc: the parent's depth is not limited), formatter tied
    to the name so that both kinds occur"""
    fmt = {names[0]: "F", names[-1]: "-"}
    ops = [f"set,{loc_str(l)},{v}" for l in paths(names, depth) for v in levels]
    ops += [f"objr,{n},{fmt.get(n, 'G')}" for n in names]
    ops += [f"objl,{loc_str(l)},{n},{fmt.get(n, 'G')}" for l in paths(names, depth - 1) for n in names]
    ops += [f"objc,{i},{n},{fmt.get(n, 'G')}" for i in ids for n in names]
    return ops


def creates(op):
    return op.startswith("obj")


def op_valid(op, nobjs):
    return not op.startswith("objc,") or int(op.split(",")[1]) < nobjs


def count_words(alpha, k, nobjs, memo=None):
    """number of accepted words of length k (an objc needs its parent)"""
    memo = {} if memo is None else memo
    cap = 1 + max([int(o.split(",")[1]) for o in alpha if o.startswith("objc,")] + [-1])
    key = (k, min(nobjs, cap))
    if k == 0:
        return 1
    if key not in memo:
        memo[key] = sum(count_words(alpha, k - 1, min(nobjs, cap) + (1 if creates(o) else 0), memo) for o in alpha if op_valid(o, nobjs))
    return memo[key]


def prefixes_of(alpha, n):
    """all accepted words of length n, as lists"""
    out = [[]]
    for _ in range(n):
        out = [w + [o] for w in out for o in alpha if op_valid(o, sum(1 for x in w if creates(x)))]
    return out


def enum_lines(k, split, mode, root, cfg, alpha, locs, keep=None):
    """`enum` lines covering every history of exactly k operations over `alpha`, one line per prefix of `split` operations
    (keep(i) -> bool selects a sample of the prefixes)"""
    a, l = ";".join(alpha), ",".join(loc_str(x) for x in locs)
    out = []
    for i, w in enumerate(prefixes_of(alpha, min(split, k))):
        if keep is None or keep(i):
            out.append(f"enum {k - len(w)} {mode} {root} {cfg} {';'.join(w) if w else '-'} {a} {l}")
    return out


def _case_lines(root, cfg, pre, mode, locs):
    """the single observations the digest of one history is made of, as `case` lines"""
    out = []
    nobj = 0
    for i in range(1, len(pre) + 1):
        head = ";".join(pre[: i - 1]) if i > 1 else "-"
        out.append(f"case {root} {cfg} {head} {pre[i - 1]}")
        nobj += 1 if creates(pre[i - 1]) else 0
        if mode == "e" or i == len(pre):
            cur = ";".join(pre[:i])
            out += [f"case {root} {cfg} {cur} get,{l}" for l in locs]
            for j in range(nobj):
                out.append(f"case {root} {cfg} {cur} lvl,{j}")
                out.append(f"case {root} {cfg} {cur} {'log' if (j + i) % 2 == 0 else 'logm'},{j},{(j + i) % 6},m")
    if not pre:
        out += [f"case {root} {cfg} - get,{l}" for l in locs]
    return out


def refine(op):
    """enum k -> the enum k-1 lines of its one-operation extensions; enum 0 -> the `case` lines of that one history"""
    t = op.split()
    if not t or t[0] != "enum" or len(t) != 8:
        return []
    k, mode, root, cfg, pre, alpha, locs = int(t[1]), t[2], t[3], t[4], t[5], t[6].split(";"), t[7]
    pre = [] if pre == "-" else pre.split(";")
    if k > 0:
        nobjs = sum(1 for x in pre if creates(x))
        return [f"enum {k - 1} {mode} {root} {cfg} {';'.join(pre + [o])} {t[6]} {locs}" for o in alpha if op_valid(o, nobjs)]
    return _case_lines(root, cfg, pre, mode, locs.split(","))


_WEIGHT_MEMO = {}


def weight(op):
    """an `enum` line counts as the histories it runs"""
    t = op.split()
    if t and t[0] == "enum" and len(t) == 8:
        key = (t[1], t[5], t[6])
        if key not in _WEIGHT_MEMO:
            pre = [] if t[5] == "-" else t[5].split(";")
            _WEIGHT_MEMO[key] = count_words(t[6].split(";"), int(t[1]), sum(1 for x in pre if creates(x)))
        return _WEIGHT_MEMO[key]
    return 1


AB = ["a", "b"]
OBS3 = paths(AB, 3)                                   # what is looked at after every step: all 15 locations of depth <= 3
OBS2 = paths(AB, 2) + [["a", "a", "a"], ["a", "b", "a"], ["b", "a", "b"], ["b", "b", "b"]]
FULL = alphabet(AB, 3, ["1", "3", "-"])               # 45 sets + 2 + 14 + 4 = 65 operations
MID = alphabet(AB, 2, ["1", "3", "-"])                # 21 sets + 2 + 6 + 4 = 33 operations
SMALL = alphabet(AB, 2, ["1", "-"])                   # 14 sets + 2 + 6 + 4 = 26 operations
EMPTY = alphabet(["a", "_"], 2, ["1", "-"])           # the same with the empty name in place of b (tree_formatter skips it)
PREFIX = alphabet(["a", "ab"], 2, ["1", "-"])         # a name that is a proper prefix of the other one
CASE = alphabet(["a", "A"], 2, ["1", "-"])            # names that differ in case only
SUFFIX = alphabet(["a", "ba"], 2, ["1", "-"])         # a name that is a proper suffix of the other one
CHAIN_LOCS = [["a"] * d for d in range(7)]            # -, a, a.a, … down to depth 6
CHAIN = ([f"set,{loc_str(l)},{v}" for l in CHAIN_LOCS[:6] for v in ("1", "-")] + ["objr,a,F"]
         + [f"objl,{loc_str(l)},a,-" for l in CHAIN_LOCS[:5]] + ["objc,0,a,F", "objc,1,a,-"])   # one deep chain (depth <= 5, objc beyond)


def small_history_lines(rng, thorough):
    """ALL histories of <= 3 operations over FULL (depth 3, three levels, root warning; observed after every step), ALL of
    exactly 4 over MID (depth 2; observed at the end - every shorter history is there as well), of <= 3 over EMPTY, other root
    levels / stream configurations over SMALL; a seeded 1/64 sample of the 4-operation histories over FULL (thorough: all of
    them, the 3-operation ones without reads in between, and all 5-operation histories over SMALL)"""
    out = []
    for k in (0, 1, 2):
        out += enum_lines(k, 1, "e", "3", "D", FULL, OBS3)
        out += enum_lines(k, 1, "f", "3", "M", FULL, OBS3)        # observed at the end only (no reads in between)
    out += enum_lines(3, 2, "e", "3", "D", FULL, OBS3)
    for k in (3, 4):
        out += enum_lines(k, 2, "f", "3", "D", MID, OBS2)
    for root, cfg in (("-", "N"), ("1", "M")):
        out += enum_lines(3, 1, "e", root, cfg, SMALL, OBS2)
    out += enum_lines(3, 1, "e", "3", "D", EMPTY, paths(["a", "_"], 2) + [["a", "_", "a"], ["_", "_", "_"]])
    out += enum_lines(3, 1, "e", "3", "D", PREFIX, paths(["a", "ab"], 2) + [["ab", "a", "ab"], ["a", "ab", "a"], ["b"], ["abc"], ["a", "b"]])
    for alpha, names in ((CASE, ["a", "A"]), (SUFFIX, ["a", "ba"])):
        out += enum_lines(3, 1, "e", "3", "D", alpha, paths(names, 2) + [[names[1], names[0], names[1]], ["b"], [names[1] + "a"]])
    out += enum_lines(3, 1, "e", "3", "D", CHAIN, CHAIN_LOCS)
    r = rng.fork("enum-sample")
    if thorough:
        out += enum_lines(3, 2, "f", "3", "M", FULL, OBS3)
        out += enum_lines(4, 2, "e", "3", "D", FULL, OBS3)
        out += enum_lines(5, 2, "f", "3", "D", SMALL, OBS2)
    else:
        pick = r.below(64)
        out += enum_lines(4, 2, "e", "3", "D", FULL, OBS3, keep=lambda i: i % 64 == pick)
    # the runner cuts a stateless batch into contiguous parts: mix heavy and light lines
    r.shuffle(out)
    return out


def api_lines():
    """the rest of libs/log's public API, every small input"""
    out = []
    names = ["verbose", "debug", "info", "warning", "error", "fatal"]
    words = names + [n.upper() for n in names[:2]] + [n.capitalize() for n in names[:2]] + [n[:-1] for n in names] + [n + "s" for n in names[:2]] \
        + ["_", "x", "0", "3", "size", "fcppt_maximum", "warn", "inf", "debuginfo", "fatal.", "level::debug"]
    out += [f"lfs {w}" for w in words]
    out += [f"lts {k}" for k in range(6)] + [f"lout {k}" for k in range(6)]
    for w in names + ["x", "Debug", "debu", "debugx"]:
        out += [f"lin {w}$", f"lin _{w}$", f"lin {w}_$", f"lin __{w}_rest$", f"lin ~{w}~next_more$", f"lin {w}_{names[0]}$", f"lin {w},x$"]
    out += ["lin $", "lin _$", "lin __~$", "lin _x_debug$"]
    # location algebra: every program of <= 3 steps
    firsts = ["e", "n:a", "n:b", "n:_"]
    steps = ["d:a", "d:b", "d:_", "s:a", "s:b", "a:a", "m:b", "x"]
    progs = [[f] for f in firsts]
    for _ in range(3):
        out += ["loc " + ",".join(p) for p in progs]
        progs = [p + [s] for p in progs for s in steps]
    out += ["loc " + ",".join(p) for p in progs]
    out += ["loc n:root,d:child", "loc n:root,s:child", "loc e,d:root,d:child", "loc n:ab,d:c", "loc n:a,d:bc"]
    # format::chain on every pair (the same object on both sides when equal), each formatter alone
    fm = ["-", "F", "G", "P:a", "P:", "I:x:y", "I::", "I:x:", "L:0", "L:5"]
    for f in fm:
        out += [f"fn {f} t", f"fn {f} _"]
        for g in fm:
            out.append(f"chain {f} {g} t")
    out += ["ts hello", "ts _"]
    for own in ("-", "F", "L:2"):
        for add in ("-", "G", "P:p"):
            for redirect in "01":
                out.append(f"ls {own} {add} {redirect} msg")
    for k in range(6):
        out += [f"dstream {k}", f"dls {k} msg"]
    for n in ("a", "_", "child"):
        out += [f"pnf {n} t"] + [f"params {n} {f} t" for f in ("-", "F", "P:p")]
    return out


def object_api_case(r):
    """one context; objects through all constructors with every kind of formatter; formatter(), level_sink, level_streams,
    context::level_streams, multi-part messages, macros (evaluation count), destruction in every order"""
    ops = ["reset", ctx_line(r)]
    kinds = ["-", "F", "P:p", "I:[:]", "L:1"]
    nodes = []
    for i, f in enumerate(kinds):
        which = (i + r.below(3)) % 3
        name = r.choice(["a", "b", "_"])
        if which == 0 or not nodes:
            ops.append(f"objr {name} {f}")
            nodes.append([name])
        elif which == 1:
            loc = r.choice(paths(AB, 2))
            ops.append(f"objl {loc_str(loc)} {name} {f}")
            nodes.append(loc + [name])
        else:
            pid = r.below(len(nodes))
            ops.append(f"objc {pid} {name} {f}")
            nodes.append(nodes[pid] + [name])
    ops.append(f"set {loc_str(r.choice(nodes)[:1])} {rand_level(r)}")
    alive = list(range(len(nodes)))
    order = list(alive)
    r.shuffle(order)
    for victim in order:
        for i in alive:
            ops.append(f"fmt {i} t")
            ops.append(f"lvl {i}")
            k = r.below(6)
            ops += [f"logm {i} {k} m", f"log {i} {k} m", f"logp {i} {k} p {'q' * r.below(11)}x", f"loga {i} {k} first second{r.below(10)}",
                    f"sink {i} {k} {rand_fmtx(r)} m", f"sink {i} {r.below(6)} @ m"]
        ops.append(f"cstr {r.below(6)} {rand_fmtx(r)} m")
        ops.append(f"del {victim}")
        alive.remove(victim)
        if alive and r.chance(1, 2):
            ops.append(f"set {loc_str(nodes[r.choice(alive)])} {rand_level(r)}")
    ops.append("get " + loc_str(nodes[0]))
    return ops


def matrix_cases():
    """emission: every (level of the location) x (level of the message) x (stream configuration) x (log | FCPPT_LOG_*), the
    level given by the context's root level, by a set before the object exists and by a set after it exists;
    text: every location of depth <= 3 over the names a and the empty name x object formatter x stream configuration x
    constructor"""
    ops = []
    levels = ["-"] + [str(k) for k in range(6)]
    for cfg in CFGS:
        for lv in levels:
            for how in range(3):
                ops += ["reset"]
                if how == 0:
                    ops += [f"ctx {lv} {cfg}", "objr a F"]
                elif how == 1:
                    ops += [f"ctx 3 {cfg}", f"set a {lv}", "objl - a F"]
                else:
                    ops += [f"ctx 3 {cfg}", "objr a F", f"set - {lv}"]
                ops.append("lvl 0")
                for k in range(6):
                    ops += [f"log 0 {k} m{k}", f"logm 0 {k} m{k}"]
    for cfg in CFGS:
        for loc in paths(["a", "_"], 2):
            for name in ("a", "_"):
                for f in ("-", "F"):
                    ops += ["reset", f"ctx 0 {cfg}", f"objl {loc_str(loc)} {name} {f}", "log 0 5 m", "logm 0 0 m", "fmt 0 t"]
                    if loc:
                        # the same node through the other two constructors
                        ops += [f"objl {loc_str(loc[:-1])} {loc[-1]} G", f"objc 1 {name} {f}", "log 2 4 m", "fmt 2 t"]
                    else:
                        ops += [f"objr {name} {f}", "log 1 4 m", "fmt 1 t"]
    return ops


def batches(rng, tier):
    thorough = tier == "thorough"
    GEN_STATS.clear()
    GEN_STATS_BY_BATCH.clear()

    def mk(name, ops, note):
        _account(name, ops)
        return Batch(name, ops, kind="history", note=note)

    yield mk("docs-example", DOCS_EXAMPLE, "examples/log/context.cpp step by step (macros, object::log, object formatters, bare reset)")

    def mks(name, ops, note):
        _account(name, ops)
        return Batch(name, ops, kind="stateless", exhaustive=True, note=note)

    yield mks("small-histories", small_history_lines(rng, thorough),
              "digest lines: EVERY history of <= 3 state-changing operations (45 sets over the 15 locations of depth <= 3 over a,b x "
                     "levels 1,3,-; objr; objl; objc on the first two objects) on a context with root warning, observed after every step "
                     "(get of all 15 locations, level/enabled of every object, one log or FCPPT_LOG_* per object); the same observed only at "
                     "the end; every history of exactly 4 operations over the depth-2 alphabet (33 operations); root - / 1 and stream "
                     "configurations N / M over the 26-operation alphabet; the alphabets with the empty name, with the name pairs a/ab, a/A, a/ba and with one chain a.a.a.a.a (depth 5, observed to depth 6); quick: 1/64 of the 4-operation "
                     "histories over the full alphabet (thorough: all, plus all 5-operation histories over the 26-operation alphabet)")
    yield mks("api-exhaustive", api_lines(),
              "level_from_string / level_to_string / operator<< / operator>> on every name and near-miss; every location program of "
                     "<= 3 steps (ctor, /=, /, string(), begin/end); format::chain on all pairs of 10 formatters (same object on both sides "
                     "when equal), prefix / inserter / default_level / time_stamp; level_stream ctor, sink(), get(), formatter(), log; "
                     "default_stream, default_level_streams; parameters, parameters_no_function")

    yield Batch("emit-and-text-matrix", matrix_cases(), kind="history", exhaustive=True,
                note="emission: all 7 levels of the location (from the root level / a set before / a set after the object exists) x all 6 "
                     "message levels x stream formatters D,N,M x object::log and FCPPT_LOG_*; text: every location of depth <= 3 over a and "
                     "the empty name x object formatter none/tag x D,N,M, the node reached through each of the three constructors")
    _account("emit-and-text-matrix", matrix_cases())

    r = rng.fork("object-api")
    ops = []
    for _ in range(300 if thorough else 40):
        ops += object_api_case(r)
    yield mk("object-api", ops,
             "five objects (formatter none / tag / prefix / inserter / default_level) through all constructors, then formatter(), level, "
             "FCPPT_LOG_* (evaluation count), log, a multi-part message, level_sink().log, context::level_streams() on every live object, "
             "destroying the objects one by one in a random order")

    r = rng.fork("histories")
    ops = []
    for _ in range(6000 if thorough else 400):
        ops += random_case(r)
    yield mk("random-histories", ops,
             "reset, ctx <root> <D|N|M>, then 3..60 ops: set 25% / get 20% / objr,objl,objc 20% / lvl 10% / log,logm 25%; "
             "locations of depth 0..3 over a,b,c (empty name 3%), half of them prefixes/extensions of earlier ones")

    r = rng.fork("deep")
    ops = []
    for _ in range(600 if thorough else 60):
        ops += deep_case(r)
    yield mk("deep-subtrees", ops,
             "a depth-3 tree with 2-3 children per node (a quarter: full ternary) built by sets and objects in pre/post/shuffled/leaf-only "
             "order, then 1-3 rounds of: set an inner node, get every existing location, lvl every object, a few logs")
