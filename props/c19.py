"""C19 — fcppt::log: the level of a location / log object is the latest set on a prefix (else the root level),
a message is written exactly when its level is enabled, and the text is the composed formatter chain."""
from vlib.runner import Batch

ID = "C19"
LEAN_PROPS = ["FcpptProofs.Props.C19"]
HARNESS = {
    "src": "harness/c19.cpp",
    "repo_srcs": [
        # libs/log, public part
        "libs/log/src/log/context.cpp",
        "libs/log/src/log/detail/context_tree_node.cpp",
        "libs/log/src/log/detail/temporary_output.cpp",
        "libs/log/src/log/format/chain.cpp",
        "libs/log/src/log/format/default_level.cpp",
        "libs/log/src/log/format/inserter.cpp",
        "libs/log/src/log/format/prefix.cpp",
        "libs/log/src/log/level_stream.cpp",
        "libs/log/src/log/level_to_string.cpp",
        "libs/log/src/log/level_to_string_impl.cpp",
        "libs/log/src/log/location.cpp",
        "libs/log/src/log/object.cpp",
        "libs/log/src/log/out.cpp",
        "libs/log/src/log/parameters.cpp",
        # libs/log, impl part
        "libs/log/impl/src/log/impl/convert_level.cpp",
        "libs/log/impl/src/log/impl/find_child.cpp",
        "libs/log/impl/src/log/impl/find_child_const.cpp",
        "libs/log/impl/src/log/impl/find_or_create_child.cpp",
        "libs/log/impl/src/log/impl/tree_formatter.cpp",
        # what those need from libs/core
        "libs/core/src/exception.cpp",
        "libs/core/src/from_std_string.cpp",
        "libs/core/src/io/cerr.cpp",
        "libs/core/src/assert/information.cpp",
        "libs/core/src/insert_extract_locale.cpp",
    ],
    # the library's CMake default is ENABLE_THREADS=ON: context.cpp takes its std::mutex only then
    "flags": ["-DENABLE_THREADS", "-pthread"],
    "libs": [],
}

# the second harness: the same library sources under ThreadSanitizer, several threads on one context
HARNESS_TSAN = {
    "src": "harness/c19_tsan.cpp",
    "repo_srcs": [x for x in HARNESS["repo_srcs"] if x != "libs/core/src/exception.cpp"] + ["libs/log/src/log/parameters_no_function.cpp"],
    "flags": ["-DENABLE_THREADS", "-pthread"],
    "libs": [],
    "tsan": True,
}
EXTRA_HARNESSES = [HARNESS_TSAN]

TIE = ("hand-written model (FcpptModel/Model/C19.lean) mirroring context.cpp / context_tree_node.cpp / find_or_create_child.cpp / "
       "object.cpp / level_stream.cpp / chain.cpp / tree_formatter.cpp + differential correspondence of whole operation histories "
       "against the real library (ASan/UBSan); the interleaving model (Model/C19/Conc.lean) is tied to the code by a sampled "
       "ThreadSanitizer run of 2-6 threads on one context whose observed levels are checked against the linearisation rule")
RULE = ("a case is one history (`reset`, `ctx <root> <streams>`, then up to 60 operations on one context: set / get / object "
        "construction through the three constructors / level+enabled of an object / log through object::log and through the "
        "FCPPT_LOG_<LEVEL> macros); the result line of every operation is compared with the model's. evaluations counts operation "
        "lines. An op is non-trivial if it is an observation (get, lvl, objr/objl/objc, log, logm) with a well-formed result; "
        "distinct = distinct (op line, result line) pairs. The TSan runs are counted separately in coverage.tsan.")
ASSUMPTIONS = [
    "a reference to a tree node is modelled by the node's location (children live in a std::list and are never erased, so references stay valid)",
    "the atomic level of a node is a natural number read/written in one step (single-copy atomicity); std::mutex = at most one owner",
    "formatters are total functions String -> String; narrow strings (fcppt::string = std::string)",
    "levels given to set / the context constructor are enumerators 0..5 or empty (History.Valid)",
    "concurrent claim is PARTIAL: proved for the transcribed interleaving model only; real schedulers, the C++ memory model and "
    "libstdc++'s mutex/atomic are outside the model, TSan is the sampled witness",
]
TRUSTED = ["harness/c19.cpp, harness/c19_tsan.cpp (its timestamp-based justification rule assumes x86-TSO) and the line protocol (vh.hpp, Proto.lean)",
           "g++ 12 + ASan/UBSan (memory safety) and ThreadSanitizer (data races) as dynamic witnesses",
           "the transcription of the lock/atomic discipline in FcpptModel/Model/C19/Conc.lean (reviewed against context.cpp/object.cpp, not proved)"]
MANIFEST = {
    "level_text": ("Machine-checked proof (Lean 4) over an executable model of the fcppt::log context tree: for every root level and every history "
                   "of context::set calls and log-object constructions (all three constructors), context::get, object::level, "
                   "object::enabled and the emitted text equal the specification 'latest set on a prefix wins, else the root level' / "
                   "'object formatter . location prefixes root first . level-stream formatter' (get_eq_latest_prefix, "
                   "object_level_eq_latest_prefix, enabled_iff, emits_iff, prefix_order), by an invariant proved over all histories. A "
                   "small-step interleaving model of the lock/atomic discipline is proved race-free on the tree structure (lock_discipline, "
                   "no_conflicting_unsynchronised_accesses) and every level load is proved justified by a linearisation of the overlapping "
                   "sets (observed_level_justified, get_linearised). The sequential model is tied to the code by differential "
                   "correspondence over random histories (length <= 60, depth <= 3, 3 names per level); the concurrent one by TSan runs."),
    "level_note": ("Concurrent claim partial: proved about the transcribed step system only (schedulers, C++ memory model, libstdc++ mutex/atomic not "
                   "modelled; unlocked reads of write-once node fields by tree_formatter are shown to hit existing nodes only). Trusted: Lean kernel + "
                   "propext/Classical.choice/Quot.sound; model fidelity outside exercised inputs; harnesses; TSan/ASan as sampled witnesses."),
    "technique": "Lean 4 proof (invariant over histories; interleaving semantics) + differential correspondence of random histories (ASan/UBSan) + ThreadSanitizer stress harness with linearisation check",
    "design_ref": "DESIGN.md §5 C19",
}


def extra_checks(binp, rng, tier, ev):
    """The concurrent tie: 2-6 threads hammer one context under ThreadSanitizer; any TSan report (exit code 96), crash, or
    observed level / emitted text that no linearisation justifies is a violation."""
    import os
    from vlib import harness as hb
    from vlib.runner import run_harness
    tbin, info = hb.build(HARNESS_TSAN)
    if tbin is None:
        return [{"kind": "broken-correspondence", "what": "TSan harness does not build against /repo: " + str(info.get("error", ""))[-1500:]}]
    thorough = tier == "thorough"
    r = rng.fork("tsan")
    ops = []
    for k in range(6000 if thorough else 500):
        n = 2 + k % 5                                   # 2..6 threads, all counts equally often
        nops = r.range(120, 300) if r.chance(3, 4) else r.range(300, 700)   # many short runs: node creation races happen early
        root = "-" if r.chance(1, 7) else str(r.below(6))
        ops.append(f"run {r.below(1 << 30)} {n} {nops} {root} {k % 3}")
    lines, deaths = run_harness(tbin, ops, history=False, parts=8)
    cov = {"runs": len(ops), "threads": {}, "deaths": len(deaths), "harness": {k: info.get(k) for k in ("cached", "key", "seconds")}}
    viol = []
    for op, line in zip(ops, lines):
        t = op.split()
        cov["threads"][t[2]] = cov["threads"].get(t[2], 0) + 1
        if line is not None and line.startswith("ok "):
            for kv in line.split()[1:]:
                k, _, v = kv.partition("=")
                if k != "threads" and v.isdigit():
                    cov[k] = cov.get(k, 0) + int(v)
            continue
        if line in ("NOT-RUN", None):
            continue
        if len(viol) < 3:
            viol.append({"kind": "input", "batch": "tsan-threads", "batch_kind": "stateless", "ops": [op],
                         "expected": ["ok ... (no ThreadSanitizer report, every observed level justified by a linearisation, every text as documented)"],
                         "observed": [line],
                         "what": ("concurrent use of one context: " + line[:400] + f" -- rerun (schedule dependent): echo '{op}' | "
                                  f"TSAN_OPTIONS=exitcode=96:halt_on_error=1 {tbin}")})
    cov["violating_runs"] = sum(1 for l in lines if l is not None and not l.startswith("ok ") and l != "NOT-RUN")
    ev["coverage"]["tsan"] = cov
    ev["coverage"]["generator_op_mix"] = dict(GEN_STATS)
    return viol


# ---- generators --------------------------------------------------------------------------------------------
NAMES = ["a", "b", "c"]          # the same three names at every depth
CFGS = ["D", "N", "M"]
TAGS = ["F", "G", "Hx"]
OBSERVATIONS = ("get", "lvl", "objr", "objl", "objc", "log", "logm")
MAX_OPS = 60
DEPTHS = [0, 1, 1, 2, 2, 2, 3, 3]   # depth of a freshly drawn location (the root wipes everything: keep it rarer)

# op kind -> number of generated lines, filled while `batches` is consumed (last generation only)
GEN_STATS = {}
# batch name -> {op kind -> count}
GEN_STATS_BY_BATCH = {}


def op_mix(ops):
    """op kind (first token of the line) -> number of lines"""
    d = {}
    for o in ops:
        t = o.split()
        k = t[0] if t else ""
        d[k] = d.get(k, 0) + 1
    return d


def _account(name, ops):
    m = op_mix(ops)
    GEN_STATS_BY_BATCH[name] = m
    for k, v in m.items():
        GEN_STATS[k] = GEN_STATS.get(k, 0) + v


def nontrivial(op, model_line):
    """observations count, state changes (`reset`, `ctx`, `set` -> ok) and rejected lines do not"""
    t = op.split()
    return bool(t) and t[0] in OBSERVATIONS and model_line != "bad-op" and not model_line.startswith(("fault:", "MODEL-"))


def loc_str(loc):
    return ".".join(loc) if loc else "-"


def rand_name(r):
    return "_" if r.chance(3, 100) else r.choice(NAMES)


def rand_level(r):
    return "-" if r.chance(1, 7) else str(r.below(6))


def rand_fmt(r):
    return "-" if r.chance(1, 2) else r.choice(TAGS)


def rand_loc(r, used, max_depth=4):
    """depth 0..3 over NAMES; half of the time a prefix / an extension / a copy of a location used earlier in the case"""
    if used and r.chance(1, 2):
        base = list(r.choice(used))
        k = r.below(5)
        if k < 2 and len(base) >= 2:             # truncate (now and then down to the root)
            loc = [] if r.chance(1, 6) else base[: r.range(1, len(base) - 1)]
        elif k < 4 and len(base) < max_depth:    # extend
            loc = base + [rand_name(r) for _ in range(r.range(1, min(2, max_depth - len(base))))]
        else:
            loc = base
    else:
        loc = [rand_name(r) for _ in range(r.choice(DEPTHS))]
    used.append(loc)
    return loc


def ctx_line(r):
    return f"ctx {rand_level(r)} {r.choice(CFGS)}"


def random_case(r):
    ops = ["reset"]
    if not r.chance(1, 20):
        ops.append(ctx_line(r))
    used = []       # locations used so far in this case
    objs = []       # node location of every object, by id
    n = r.range(3, MAX_OPS)

    def new_obj():
        k = r.below(100)
        name = rand_name(r)
        if objs and k < 30:
            pid = r.below(len(objs))
            node = objs[pid] + [name]
            line = f"objc {pid} {name} {rand_fmt(r)}"
        elif k < 55:
            node = [name]
            line = f"objr {name} {rand_fmt(r)}"
        else:
            loc = rand_loc(r, used, 3)
            node = loc + [name]
            line = f"objl {loc_str(loc)} {name} {rand_fmt(r)}"
        objs.append(node)
        used.append(node)
        return line

    for _ in range(n):
        k = r.below(100)
        if k < 25:
            loc = [] if r.chance(1, 25) else rand_loc(r, used)     # a set on the root rewrites the whole tree
            ops.append(f"set {loc_str(loc)} {rand_level(r)}")
        elif k < 45:
            ops.append(f"get {loc_str(rand_loc(r, used))}")
        elif k < 65 or not objs:
            ops.append(new_obj())
        elif k < 75:
            ops.append(f"lvl {r.below(len(objs))}")
        else:
            op = "log" if r.chance(1, 2) else "logm"
            ops.append(f"{op} {r.below(len(objs))} {r.below(6)} m{r.below(1000)}")
    return ops


def subtree(r, base, depth, full):
    """locations of a tree of that depth below `base` in pre-order; 2-3 children per node (3 everywhere when full),
    children in a random order (the creation order is the order context::set walks them in)"""
    out = []

    def go(loc, d):
        if d == 0:
            return
        kids = list(NAMES)
        r.shuffle(kids)
        if not full and r.chance(1, 2):
            kids = kids[:2]
        for k in kids:
            child = loc + [k]
            out.append(child)
            go(child, d - 1)

    go(list(base), depth)
    return out


def deep_case(r):
    ops = ["reset", ctx_line(r)]
    base = [] if r.chance(1, 2) else [rand_name(r)] if r.chance(2, 3) else [rand_name(r), rand_name(r)]
    full = r.chance(1, 4)
    nodes = subtree(r, base, 3, full)
    order = list(nodes)
    how = r.below(4)
    if how == 1:
        order.reverse()                           # leaves before their parents
    elif how == 2:
        r.shuffle(order)
    elif how == 3:
        order = [n for n in nodes if len(n) == len(base) + 3]   # leaves only; inner nodes come into being implicitly
        r.shuffle(order)
    objs = []            # node location by id
    obj_at = {}          # location -> an object id sitting there
    for loc in order:
        parent, name = loc[:-1], loc[-1]
        if r.chance(1, 2):
            ops.append(f"set {loc_str(loc)} {rand_level(r)}")
            continue
        pid = obj_at.get(tuple(parent))
        if pid is not None and r.chance(2, 3):
            ops.append(f"objc {pid} {name} {rand_fmt(r)}")
        elif not parent and r.chance(1, 2):
            ops.append(f"objr {name} {rand_fmt(r)}")
        else:
            ops.append(f"objl {loc_str(parent)} {name} {rand_fmt(r)}")
        obj_at[tuple(loc)] = len(objs)
        objs.append(loc)
    # every location that exists now (creating a leaf creates its ancestors), root and the base's prefixes included
    existing = [list(base[:i]) for i in range(len(base) + 1)] + nodes
    inner = [list(base)] + [n for n in nodes if len(n) < len(base) + 3]
    for _ in range(r.range(1, 3)):
        k = r.below(10)
        target = [] if k == 0 else list(base) if k == 1 else r.choice(inner)
        ops.append(f"set {loc_str(target)} {rand_level(r)}")
        for loc in existing:
            ops.append(f"get {loc_str(loc)}")
        # a location that does not exist answers with its deepest existing ancestor
        ghost = r.choice(existing) + ["zz"]
        ops.append(f"get {loc_str(ghost)}")
        for i in range(len(objs)):
            ops.append(f"lvl {i}")
        if objs:
            for _ in range(r.range(1, 4)):
                op = "log" if r.chance(1, 2) else "logm"
                ops.append(f"{op} {r.below(len(objs))} {r.below(6)} m{r.below(1000)}")
    return ops


DOCS_EXAMPLE = [
    # /repo/examples/log/context.cpp
    "reset",
    "ctx 1 D",                          # context{optional_level{level::debug}, default_level_streams()}
    "objr root -",                      # root_log{make_ref(context), parameters(root_name, optional_function{})}
    "objc 0 child -",                   # child_log{root_log, parameters(child_name, ...)}
    "get root",
    "get root.child",
    "logm 0 2 Printfromroot",           # FCPPT_LOG_INFO(root_log, ...)
    "logm 1 2 Printfromchild",
    "set root.child 3",                 # context.set(location{root_name} / child_name, warning)
    "get root",
    "get root.child",
    "lvl 0",
    "lvl 1",
    "logm 1 2 shouldntbeshown",
    "logm 0 2 rootstillshown",
    "logm 1 3 warningisshown",
    "set root 1",                       # context.set(location{root_name}, debug): every location below as well
    "get root.child",
    "lvl 1",
    "logm 1 2 Thisisnowshown",
    "logm 1 0 verbosenot",
    # the same through object::log and with formatters on the objects (examples/log/formatting.cpp style)
    "reset",
    "ctx 1 D",
    "objr root F",
    "objc 0 child G",
    "log 0 2 Printfromroot",
    "log 1 2 Printfromchild",
    "set root.child 3",
    "log 1 2 shouldntbeshown",
    "set root 1",
    "log 1 2 Thisisnowshown",
    # the same on the state a bare reset gives (root warning)
    "reset",
    "objr root -",
    "objc 0 child -",
    "logm 1 2 notshown",
    "logm 1 3 shown",
    "set - 1",
    "logm 1 2 nowshown",
]


def batches(rng, tier):
    thorough = tier == "thorough"
    GEN_STATS.clear()
    GEN_STATS_BY_BATCH.clear()

    def mk(name, ops, note):
        _account(name, ops)
        return Batch(name, ops, kind="history", note=note)

    yield mk("docs-example", DOCS_EXAMPLE, "examples/log/context.cpp step by step (macros, object::log, object formatters, bare reset)")

    r = rng.fork("histories")
    ops = []
    for _ in range(6000 if thorough else 400):
        ops += random_case(r)
    yield mk("random-histories", ops,
             "reset, ctx <root> <D|N|M>, then 3..60 ops: set 25% / get 20% / objr,objl,objc 20% / lvl 10% / log,logm 25%; "
             "locations of depth 0..3 over a,b,c (empty name 3%), half of them prefixes/extensions of earlier ones")

    r = rng.fork("deep")
    ops = []
    for _ in range(600 if thorough else 60):
        ops += deep_case(r)
    yield mk("deep-subtrees", ops,
             "a depth-3 tree with 2-3 children per node (a quarter: full ternary) built by sets and objects in pre/post/shuffled/leaf-only "
             "order, then 1-3 rounds of: set an inner node, get every existing location, lvl every object, a few logs")
