"""C08 — grid positions, offsets and ranges form an exact row-major bijection."""
import itertools

from vlib.runner import Batch

ID = "C08"
LEAN_PROPS = ["FcpptProofs.Props.C08"]
HARNESS = {"src": "harness/c08.cpp"}
TIE = ("hand-written model (FcpptModel/Model/C08.lean) + differential correspondence against the real grid templates, "
       "instantiated for N in {1,2,3} with std::size_t (u) and long (s) positions and object<long,N>")
RULE = ("digest ops enumerate a sub-domain on both sides: offs/ats (all positions in a margin of 3 around the grid), ranges (all sup in a "
        "window for one min), nexts (all current positions in a window for one (min,sup)), refsubs/clamps (all signed positions from -1 "
        "to extent+1), interps (all integral parts with every neighbour in range x all quarter fractions); exhaustive over N in {1,2,3} and all "
        "sizes with extents 0..4 in both tiers (thorough: refsubs with margin 2, histories of 3 calls on every configuration, more sampled ops); "
        "single ops (mk, mkc, all, refall, fill, out, map, resize, apply, rows, cmp) over all sizes / pairs of sizes; regs = every legal history of "
        "<= 3 special-member calls over three objects; random larger sizes (extents to 9) sampled. The harness additionally demands (result line "
        "replaced by a *-mismatch token): const = mutable ranges / at_optional, lvalue = rvalue overloads on a cell type with a visible move "
        "(each source cell moved exactly once, lvalue sources untouched), pos_range::size() = range_size, iterator protocol (post-increment, "
        "copies, equality), call counts / call order of the user functions, same-object operands. "
        "weight = number of enumerated inputs of an op; an op is non-trivial unless it visits/produces no cell (n=0 / cells=-).")
ASSUMPTIONS = [
    "integers: the std::size_t instantiation of offset / contents is modelled modulo 2^64 (offsetW, contentsW; offsetW_exact: no visible "
    "wrap for in-range positions of a grid whose content is representable); everything else uses Int — next_stays_within shows the iteration "
    "never leaves [min, sup], so its increments cannot overflow; range_dim / contents of the long instantiation are exercised without overflow only",
    "std::vector<long> is a List; vector::operator[] outside [0,size()) is Fault.oob (witnessed by _GLIBCXX_ASSERTIONS / ASan)",
    "positions/dims/min/sup of static size N are lists of length N, index 0 = x",
    "a moved-from grid is observed only through size() (the standard leaves the moved-from vector unspecified after move assignment)",
    "interpolate: the decomposition of the floating-point position into integral part (float_to_int, position not negative) and fractional part "
    "(fmod(x, 1)) is an input of the model; the harness uses positions fl + q/4, exact in binary floating point",
]
TRUSTED = ["harness/c08.cpp and the digest/line protocol (vh.hpp, Proto.lean)",
           "g++ 12 + ASan/UBSan + libstdc++ assertions as witness for memory safety of the instantiations"]

EXT = [0, 1, 2, 3, 4]


def L(v):
    return ",".join(str(x) for x in v)


def P(s):
    return [int(x) for x in s.split(",")]


def tuples(lo, hi):
    """all tuples lo_i <= x_i < hi_i, index 0 fastest"""
    rs = [range(a, b) for a, b in zip(lo, hi)]
    for t in itertools.product(*reversed(rs)):
        yield list(reversed(t))


def dims(n, exts=EXT):
    return list(tuples([exts[0]] * n, [exts[-1] + 1] * n))


def count(lo, hi):
    c = 1
    for a, b in zip(lo, hi):
        c *= max(0, b - a)
    return c


def nontrivial(op, result):
    if op.startswith("cmp ") or op.startswith("regs "):
        return result != "bad-op"
    if op.startswith("out ") or op.startswith("interp"):
        return result != "bad-op"
    return " n=0 " not in result and not result.endswith("cells=-") and result != "bad-op"


def weight(op):
    t = op.split()
    k = t[0]
    if k == "offs":
        d, m = P(t[2]), int(t[3])
        return count([0 if t[1] == "u" else -m] * len(d), [x + m for x in d])
    if k == "ats":
        d, m = P(t[1]), int(t[3])
        return count([0] * len(d), [x + m for x in d])
    if k == "nexts":
        return (int(t[5]) - int(t[4]) + 1) ** len(P(t[2]))
    if k == "ranges":
        return (int(t[4]) - int(t[3]) + 1) ** len(P(t[2]))
    if k == "refsubs":
        d, m = P(t[1]), int(t[4])
        return count([-m] * len(d), [x + m + 1 for x in d])
    if k == "clamps":
        d, m = P(t[1]), int(t[2])
        return count([-m] * len(d), [x + m + 1 for x in d])
    if k == "interps":
        d = P(t[1])
        return count([0] * len(d), [x - 1 for x in d]) * 4 ** len(d)
    return 1


def refine(op):
    t = op.split()
    k = t[0]
    if k == "offs":
        d, m = P(t[2]), int(t[3])
        return [f"off {t[1]} {t[2]} {L(p)}" for p in tuples([0 if t[1] == "u" else -m] * len(d), [x + m for x in d])]
    if k == "ats":
        d, m = P(t[1]), int(t[3])
        return [f"at {t[1]} {t[2]} {L(p)}" for p in tuples([0] * len(d), [x + m for x in d])]
    if k == "nexts":
        n = len(P(t[2]))
        return [f"next {t[1]} {L(c)} {t[2]} {t[3]}" for c in tuples([int(t[4])] * n, [int(t[5]) + 1] * n)]
    if k == "ranges":
        n = len(P(t[2]))
        return [f"range {t[1]} {t[2]} {L(s)}" for s in tuples([int(t[3])] * n, [int(t[4]) + 1] * n)]
    if k == "refsubs":
        d, m = P(t[1]), int(t[4])
        return [f"refsub {t[1]} {t[2]} {t[3]} {L(s)}" for s in tuples([-m] * len(d), [x + m + 1 for x in d])]
    if k == "clamps":
        d, m = P(t[1]), int(t[2])
        return [f"clamp {t[1]} {L(p)}" for p in tuples([-m] * len(d), [x + m + 1 for x in d])]
    if k == "interps":
        d = P(t[1])
        return [f"interp {t[1]} {t[2]} {L(fl)} {L(q)}" for fl in tuples([0] * len(d), [x - 1 for x in d])
                for q in tuples([0] * len(d), [4] * len(d))]
    return None


def rdims(r, n, hi=9):
    """random size: small extents, zero and one-wide dimensions frequent"""
    return [r.choice([0, 1, 1, 2, 3, 4, 5, r.range(0, hi)]) for _ in range(n)]


REG_KINDS = ["cc", "mc", "ca", "ma", "sm", "sf"]


def reg_apply(moved, op):
    """the legality rule of a special-member call (which objects are moved-from); returns the new flags or None"""
    m = list(moved)
    if op[:2] == "dc":
        m[int(op[2])] = False
        return m
    k, d, s = op[:2], int(op[2]), int(op[3])
    if k in ("cc", "mc") and d == s:
        return None
    if k in ("cc", "ca"):
        if m[s]:
            return None
        m[d] = False
    elif k == "mc" or (k == "ma" and d != s):
        if m[s]:
            return None
        m[d], m[s] = False, True
    elif k in ("sm", "sf"):
        m[d], m[s] = m[s], m[d]
    return m


REG_OPS = [f"{k}{d}{s}" for k in REG_KINDS for d in range(3) for s in range(3)] + [f"dc{d}" for d in range(3)]


def reg_programs(length):
    """all legal histories of exactly `length` special-member calls over three objects"""
    def go(prefix, moved, n):
        if n == 0:
            yield prefix
            return
        for op in REG_OPS:
            m = reg_apply(moved, op)
            if m is not None:
                yield from go(prefix + [op], m, n - 1)
    yield from go([], [False] * 3, length)


def cmp_cells(n):
    """cell lists of length n that differ from 1..n at the first / a middle / the last cell by +-1, and 1..n itself"""
    base = list(range(1, n + 1))
    out = [base]
    for j in sorted({0, n // 2, n - 1} & set(range(n))):
        for dlt in (-1, 1):
            c = list(base)
            c[j] += dlt
            out.append(c)
    if n >= 2:
        # two differences in opposite directions (the first one decides, not the last) and a transposition
        for a, b in ((1, -1), (-1, 1)):
            c = list(base)
            c[0] += a
            c[-1] += b
            out.append(c)
        out.append([base[-1]] + base[1:-1] + [base[0]])
    return out


def batches(rng, tier):
    thorough = tier == "thorough"
    wide = True  # the cheap batches run their widest windows in both tiers (quick has the time)
    alld = {n: dims(n) for n in (1, 2, 3)}
    everyd = alld[1] + alld[2] + alld[3]

    bigd = (dims(1, range(0, 7)) + dims(2, range(0, 7))) if wide else []
    mg = 3 if wide else 2
    # ---- offset / in_range_dim / contents: every size, every position in a margin, both instantiations
    ops = [f"offs {t} {L(d)} {mg}" for t in "us" for d in everyd + bigd]
    yield Batch("offset-all-sizes", ops, exhaustive=True, note=f"offset, in_range_dim, contents: all sizes 0..4^N and 0..6 for N<=2, all positions with margin {mg} (signed: also below 0)")

    # ---- std::size_t wrap-around: extents and positions around 2^16, 2^31, 2^32, 2^62, 2^63 (model: arithmetic mod 2^64)
    big = [1, 2, 3, 65536, 2 ** 31, 2 ** 32 - 1, 2 ** 32, 2 ** 32 + 1, 2 ** 62, 2 ** 63 - 1]
    ops = []
    for n in (1, 2, 3):
        for d in itertools.product(big, repeat=n):
            d = list(d)
            for p in ([x - 1 for x in d], [1] * n, [min(x, 2 ** 20 + 3) for x in d], d):
                ops.append(f"off u {L(d)} {L(p)}")
    yield Batch("offset-unsigned-wrap", ops, exhaustive=True,
                note="offset / contents / in_range_dim of the std::size_t instantiation with extents in {1,2,3,2^16,2^31,2^32-1,2^32,2^32+1,2^62,2^63-1}^N: "
                     "products beyond 2^64 wrap, the model computes modulo 2^64 (offsetW / contentsW)")

    # ---- at_optional / in_range: every size, every position in a margin
    ops = [f"ats {L(d)} {i % 3} {mg}" for i, d in enumerate(everyd + bigd)]
    yield Batch("at-optional-all-sizes", ops, exhaustive=True, note=f"in_range + at_optional (const and mutable) for all positions 0 <= p_i < d_i + {mg}")

    # ---- whole-grid operations, one op per size
    ops = []
    for i, d in enumerate(everyd + bigd):
        s = L(d)
        ops += [f"mk {s} {i % 7}", f"mkc {s} {i % 5 - 2}", f"all {s}", f"refall {s} {i % 4}", f"fill {s} {-i} {i % 6}", f"out {s} {i % 3}",
                f"map {s} {i % 3} {i % 5 - 2} {i % 7 - 3}", f"apply {s} 1 {s} 2", f"apply {s} 1 {s} 2 {s} 3"]
        ops += [f"fillself {s} {i % 5} {mode}" for mode in range(5)]
    yield Batch("whole-grid-all-sizes", ops, exhaustive=True, note="function/value constructor, make_pos_range, make_pos_ref_(c)range, fill (also with a function reading the grid's own first / last / previous / next / current cell), operator<<, map, apply(2,3 equal sizes) on every size 0..4^N and 0..6^N for N<=2")

    # ---- pos_range: every (min, sup) in a window
    ops = []
    for n in (1, 2, 3):
        if n < 3:
            wu, ws = ((0, 8), (-3, 5)) if wide else ((0, 6), (-2, 4))
        else:
            wu, ws = ((0, 6), (-3, 3)) if wide else ((0, 5), (-2, 3))
        for t, (lo, hi) in (("u", wu), ("s", ws)):
            ops += [f"ranges {t} {L(mn)} {lo} {hi}" for mn in tuples([lo] * n, [hi + 1] * n)]
    yield Batch("pos-range-all-min-sup", ops, exhaustive=True,
                note="min_less_sup, range_dim, range_size = size(), end_position, visited positions for every (min,sup) in the window "
                     "(N<=2 u 0..8, s -3..5, N=3 u 0..6, s -3..3) - empty and inverted ranges included; iterator protocol and accessors demanded")

    # ---- small boxes far from the origin (coordinates around 2^31, 2^32, 2^62; signed also around -2^62)
    ops = []
    far_u = [2 ** 31 - 1, 2 ** 32 - 1, 2 ** 32, 2 ** 62, 2 ** 63 - 4]
    far_s = far_u + [-2 ** 31, -2 ** 32 - 1, -2 ** 62]
    for n in (1, 2, 3):
        for t, far in (("u", far_u), ("s", far_s)):
            for base in itertools.product(far, repeat=n):
                if n == 3 and len(set(base)) == 3:
                    continue
                for ext in ([2] * n, [1, 3, 2][:n], [2, 0, 1][:n]):
                    mn = list(base)
                    sp = [b + e for b, e in zip(base, ext)]
                    ops.append(f"range {t} {L(mn)} {L(sp)}")
                    ops.append(f"next {t} {L([x - 1 for x in sp])} {L(mn)} {L(sp)}")
    yield Batch("ranges-far-from-origin", ops, exhaustive=True,
                note="pos_range / next_position on small boxes whose coordinates are around 2^31, 2^32, 2^62, 2^63-4 (long: also negative): "
                     "no intermediate of the iteration leaves [min, sup] (next_stays_within), so nothing wraps or overflows")

    # ---- next_position on arbitrary current positions (also outside the range: the carry test at every index)
    ops = []
    for n in (1, 2, 3):
        w = (5 if wide else 4) if n < 3 else (4 if wide else 3)
        for t, lo in (("u", 0), ("s", -1)):
            hi = lo + w
            prs = [(mn, sp) for mn in tuples([lo] * n, [hi + 1] * n) for sp in tuples([lo] * n, [hi + 1] * n)]
            ops += [f"nexts {t} {L(mn)} {L(sp)} {lo} {hi}" for mn, sp in prs]
    yield Batch("next-position-window", ops, exhaustive=True, note="next_position (model: the literal fold nextFold) for every current/min/sup in a window (6 values per coordinate for N<=2, 5 for N=3), current also outside the box")

    # ---- sub-ranges of a grid through the clamp helpers: every size, every signed (min, sup) from -1 to extent+1
    ops = []
    for n in (1, 2, 3):
        ds = alld[n]
        m = 2 if thorough else 1
        for i, d in enumerate(ds):
            ops += [f"refsubs {L(d)} {i % 3} {L(mn)} {m}" for mn in tuples([-m] * n, [x + m + 1 for x in d])]
    yield Batch("sub-range-clamped-all", ops, exhaustive=True,
                note="pos_ref_range(grid, clamped_min smin, clamped_sup_signed ssup) for all signed smin, ssup in [-1, extent+1]^N on every size "
                     "(thorough: margin 2): positions and cells read, const = mutable range, and the cells after writing through the references")
    # ---- clamp helpers on every size
    ops = [f"clamps {L(d)} {mg}" for d in everyd + bigd]
    yield Batch("clamp-all-sizes", ops, exhaustive=True, note=f"clamped_min, clamped_sup_signed, clamped_sup for all signed positions in [-{mg}, extent+{mg}]^N")

    # ---- resize: every (old size, new size)
    ops = []
    for n in (1, 2):
        ops += [f"resize {L(a)} 1 {L(b)} 2" for a in alld[n] for b in alld[n]]
    ops += [f"resize {L(a)} 1 {L(b)} 2" for a in alld[3] for b in alld[3]]
    yield Batch("resize-all-pairs", ops, exhaustive=True, note="resize for every pair (old size, new size) with extents 0..4, N in {1,2,3}, lvalue and rvalue overloads")

    # ---- apply with different sizes: every pair for N<=2, sampled for N=3 and for three grids
    ops = []
    for n in (1, 2):
        ops += [f"apply {L(a)} 1 {L(b)} 2" for a in alld[n] for b in alld[n]]
    yield Batch("apply-all-pairs-n12", ops, exhaustive=True, note="apply on two grids of every pair of sizes (result empty unless equal)")
    ops = []
    for n in (1, 2):
        small = dims(n, [0, 1, 2])
        ops += [f"apply {L(a)} 1 {L(b)} 2 {L(c)} 3" for a in small for b in small for c in small]
    yield Batch("apply-all-triples-small", ops, exhaustive=True,
                note="apply on three grids, every triple of sizes with extents 0..2 (N<=2): only the first / only the last / only the middle "
                     "differs, two differ, all equal; with lvalue and mixed rvalue arguments of a cell type whose move is visible")
    r = rng.fork("apply")
    ops = []
    for _ in range(6000 if thorough else 1000):
        n = r.choice([1, 2, 3, 3])
        a = [r.range(0, 4) for _ in range(n)]

        def other():
            if r.chance(1, 2):
                return list(a)
            b = list(a)
            j = r.below(n)
            b[j] = r.range(0, 4)
            if r.chance(1, 4):
                b = list(reversed(b))
            return b
        if r.chance(1, 2):
            ops.append(f"apply {L(a)} {r.below(4)} {L(other())} {r.below(4)}")
        else:
            ops.append(f"apply {L(a)} {r.below(4)} {L(other())} {r.below(4)} {L(other())} {r.below(4)}")
    yield Batch("apply-sampled", ops, note="2 and 3 grids, sizes equal / differing in one extent / permuted")

    # ---- interpolate: every size with extents 2..4 (N<=2: 2..6), every integral part with all neighbours in range, quarters
    ops = []
    for n in (1, 2, 3):
        exts = [2, 3, 4, 5, 6] if (wide and n < 3) else [2, 3, 4]
        ops += [f"interps {L(d)} {i % 4}" for i, d in enumerate(dims(n, exts))]
    yield Batch("interpolate-all", ops, exhaustive=True,
                note="interpolate with an argument-recording interpolator at every position fl + q/4, 0 <= fl_i <= extent-2, q in {0,1,2,3}^N, "
                     "every size with extents 2..4 (2..6 for N<=2)")

    # ---- static_row constructor (two-dimensional only): every row length and row count 1..4
    ops = [f"rows {w} {h} {k}" for w in range(1, 5) for h in range(1, 5) for k in (0, 3)]
    yield Batch("static-rows-all", ops, exhaustive=True, note="object(static_row...) for every row length and number of rows in 1..4 (non-square: the transposed size is visible)")

    # ---- special members: copy/move constructor, copy/move assignment (also self), member and free swap (also self)
    regcfg = [
        "2 1 1 2 3 3", "0 1 2 2 2 3",
        "2,1 1 1,2 2 0,3 3", "2,2 1 1,4 2 4,1 3",
        "1,2,1 1 2,1,1 2 1,1,2 3",
    ]
    ops = []
    for cfg in regcfg:
        ops.append(f"regs {cfg} -")
        for ln in (1, 2):
            ops += [f"regs {cfg} {'.'.join(pr)}" for pr in reg_programs(ln)]
    yield Batch("special-members-all-histories-2", ops, exhaustive=True,
                note="three objects of different sizes (same content, different shape included), every legal history of <= 2 calls out of "
                     "default ctor, copy ctor, move ctor, copy assignment, move assignment, member swap, free swap over all (dst, src) incl. dst = src")
    if wide:
        ops = [f"regs {cfg} {'.'.join(pr)}" for cfg in (regcfg if thorough else regcfg[2:3]) for pr in reg_programs(3)]
        yield Batch("special-members-all-histories-3", ops, exhaustive=True,
                    note="every legal history of exactly 3 calls on the 2-D configuration (thorough: on all five configurations)")
    r = rng.fork("regs")
    ops = []
    for _ in range(8000 if thorough else 1500):
        cfg = r.choice(regcfg)
        moved, pr = [False] * 3, []
        for _ in range(r.range(3, 8)):
            for _try in range(20):
                op = r.choice(REG_OPS)
                m = reg_apply(moved, op)
                if m is not None:
                    moved = m
                    pr.append(op)
                    break
        ops.append(f"regs {cfg} {'.'.join(pr)}")
    yield Batch("special-members-sampled", ops, note="random legal histories of 3..8 special-member calls")

    # ---- comparison: every pair of sizes, cells equal / differing at the first, a middle, the last cell
    ops = []
    for n, exts in ((1, [0, 1, 2, 3, 4]), (2, [0, 1, 2, 3]), (3, [0, 1, 2])):
        ds = dims(n, exts)
        for a in ds:
            ca = list(range(1, count([0] * n, a) + 1))
            for b in ds:
                for cb in cmp_cells(count([0] * n, b)):
                    ops.append(f"cmp {L(a)} {L(ca) if ca else '-'} {L(b)} {L(cb) if cb else '-'}")
    # equal sizes: every pair of cell lists over a small alphabet
    for d in ([2], [3], [2, 1], [1, 2], [3, 1], [1, 3], [2, 2], [1, 2, 1], [2, 1, 2]):
        n = count([0] * len(d), d)
        alpha = [0, 1, 2] if n <= 3 else [0, 1]
        lists = [list(t) for t in itertools.product(alpha, repeat=n)]
        ops += [f"cmp {L(d)} {L(x)} {L(d)} {L(y)}" for x in lists for y in lists]
    yield Batch("comparison-all-size-pairs", ops, exhaustive=True,
                note="== != < > <= >= for every pair of sizes (N=1: extents 0..4, N=2: 0..3, N=3: 0..2), second operand's cells equal to "
                     "1..n or differing by +-1 at the first / middle / last cell, at the first and the last in opposite directions, or "
                     "first and last exchanged: same flattened cells with different shape, empty grids of different sizes, one cell list a prefix of the "
                     "other; for nine equal-size shapes with <= 4 cells every pair of cell lists over {0,1,2} ({0,1} for 4 cells)")

    # ---- larger sizes, sampled
    r = rng.fork("large")
    ops = []
    for _ in range(20000 if thorough else 1500):
        n = r.choice([1, 2, 2, 3, 3])
        d = rdims(r, n)
        s = L(d)
        k = r.below(16)
        if k == 12:
            ops.append(f"out {s} {r.below(9)}")
        elif k == 13:
            d2 = [max(2, x) for x in d]
            fl = [r.range(0, x - 2) for x in d2]
            ops.append(f"interp {L(d2)} {r.below(9)} {L(fl)} {L([r.below(4) for _ in d2])}")
        elif k == 14:
            d1 = [r.range(0, 5) for _ in range(n)]
            d2 = list(d1) if r.chance(2, 3) else [r.range(0, 5) for _ in range(n)]
            c1 = [r.range(-2, 2) for _ in range(count([0] * n, d1))]
            c2 = [r.range(-2, 2) for _ in range(count([0] * n, d2))]
            if len(c1) == len(c2) and r.chance(1, 2):
                c2 = list(c1)
                if c2 and r.chance(2, 3):
                    c2[r.below(len(c2))] += r.choice([-1, 1])
            ops.append(f"cmp {L(d1)} {L(c1) if c1 else '-'} {L(d2)} {L(c2) if c2 else '-'}")
        elif k == 15:
            ds = [[r.range(0, 5) for _ in range(n)] for _ in range(3)]
            moved, pr = [False] * 3, []
            for _ in range(r.range(1, 6)):
                op = r.choice(REG_OPS)
                m = reg_apply(moved, op)
                if m is not None:
                    moved = m
                    pr.append(op)
            ops.append(f"regs {L(ds[0])} 1 {L(ds[1])} 2 {L(ds[2])} 3 {'.'.join(pr) if pr else '-'}")
        elif k == 0:
            ops.append(f"offs {r.choice('us')} {s} 1")
        elif k == 1:
            ops.append(f"ats {s} {r.below(5)} 1")
        elif k == 2:
            ops += [f"mk {s} {r.below(9)}", f"all {s}", f"refall {s} {r.below(9)}"]
        elif k == 3:
            ops += [f"fill {s} {r.range(-5, 5)} {r.below(9)}", f"map {s} {r.below(9)} {r.range(-3, 3)} {r.range(-9, 9)}"]
        elif k == 4:
            ops.append(f"resize {s} {r.below(5)} {L(rdims(r, n))} {5 + r.below(5)}")
        elif k in (5, 6):
            t = r.choice("us")
            lo = 0 if t == "u" else -3
            mn = [r.range(lo, 6) for _ in range(n)]
            sp = [r.range(lo, 9) if r.chance(1, 4) else m + r.range(0, 5) for m in mn]
            ops.append(f"range {t} {L(mn)} {L(sp)}")
        elif k == 7:
            t = r.choice("us")
            lo = 0 if t == "u" else -3
            mn = [r.range(lo, 5) for _ in range(n)]
            sp = [m + r.range(0, 4) for m in mn]
            cur = [r.choice([m, x - 1, x, r.range(lo, 8)]) for m, x in zip(mn, sp)]
            if t == "u":
                cur = [max(0, c) for c in cur]
            ops.append(f"next {t} {L(cur)} {L(mn)} {L(sp)}")
        elif k in (8, 9):
            mn = [r.range(-2, x + 1) for x in d]
            sp = [r.range(-2, x + 2) for x in d]
            ops.append(f"refsub {s} {r.below(5)} {L(mn)} {L(sp)}")
        elif k == 10:
            ops.append(f"clamps {s} 1")
        else:
            ops.append(f"apply {s} 1 {s} 2")
    yield Batch("larger-sizes-sampled", ops, note="extents up to 9 (cmp, regs: up to 5), every op kind, ~1/16 each (range and refsub 2/16)")


MANIFEST = {
    "level_text": ("Machine-checked proof (Lean 4) over an executable model that mirrors the grid templates (stride-accumulating offset fold, "
                   "next_position carry fold — also in its literal indexed form, proved equal —, end_position sentinel, iterator loop, cell-wise "
                   "constructors incl. static rows, special members, comparison, operator<<, interpolate): for every static size N >= 1 and "
                   "every grid size, offset is a bijection between the in-range positions and [0, content) (also computed modulo 2^64); the position "
                   "range of (min, sup) terminates and visits exactly the box min <= p < sup once each in row-major order, size() many (none iff "
                   "some min_i >= sup_i), never leaving [min, sup]; the whole-grid range is in storage order; at_optional, resize, map, apply, fill, "
                   "writes through sub-ranges and the clamp helpers are characterised cell by cell; copy/move/swap histories act on whole grid "
                   "values; == is equality of size and cells, < a strict total order; operator<< prints the nested row-major form; interpolate reads "
                   "exactly the 2^N neighbouring cells. The model is tied to the code by a differential correspondence that is exhaustive for "
                   "N in {1,2,3}, extents 0..4."),
    "level_note": ("Trusted: Lean kernel + propext/Classical.choice/Quot.sound; fidelity of the hand-written model outside the exercised inputs; "
                   "Int models long without overflow (size_t products modulo 2^64); harness and digest protocol. No sorry/axiom/native_decide."),
    "technique": "Lean 4 proof over hand-written executable model + exhaustive differential correspondence (ASan/UBSan harness)",
    "design_ref": "DESIGN.md §5 C08",
}
