"""C10 — bitfield is observationally a set of enumerators."""
import os

from vlib import paths
from vlib.runner import Batch

ID = "C10"
LEAN_PROPS = ["FcpptProofs.Props.C10"]
# the instantiations of the real templates are split over four translation units (one per storage word type) so that
# they compile in parallel; os.path.join(REPO, <absolute path>) is the absolute path, so they can be listed here
HARNESS = {"src": "harness/c10.cpp",
           "repo_srcs": [os.path.join(paths.ROOT, "harness", f"c10_w{w}.cpp") for w in (8, 16, 32, 64)],
           "flags": ["-g1"]}
TIE = "hand-written model (FcpptModel/Model/C10.lean) + differential correspondence against the real templates"
RULE = ("pairs n w A: digest over all 2^n subsets B of the observations (members AND storage words of | & ^ ~, is_subset_eq == != , "
        "exact hash values, assigning forms, the same object on both sides of every operator, operands unchanged, canonical "
        "rebuild through init) for subset A; exhaustive over all A for n in {1,3,5,8,9} x words {8,16,32,64}. "
        "bits n w A: every way of writing every single bit (set, operator[]=, copied/moved/re-bound proxy, |= e, | e) to true "
        "and false, words after each, save-mutate-restore; all A for n <= 9, structured A for n in {17,33,64}. "
        "n in {17,33,64}: all pairs of a structured family of subsets (empty, full, every single bit, every co-single bit, runs "
        "ending at word boundaries, alternating) plus one-bit-difference pairs, random pairs. expr: all two-step programs over "
        "the whole interface on small scopes, all raw one-byte arrays (dirty padding), random expression trees <= depth 6. "
        "An op is non-trivial if it is not the empty-set/empty-set pair; distinct = distinct op lines.")
ASSUMPTIONS = [
    "storage word of the C++ unsigned type with w value bits = BitVec w",
    "theorems: hash_combine and std::hash of a word are uninterpreted functions (hold for any); the driver runs the concrete "
    "instance of this platform (fcppt::hash_combine on a 64-bit size_t, libstdc++'s identity hash of unsigned integers) so "
    "hash values are compared exactly",
    "enumerator = its index (static_cast of the enum), enum_::size = fcppt_maximum + 1",
    "raw arrays given to object(array_type const&) / written through array() have clean padding (Expr.Valid); with dirty "
    "padding get/~/init are still right (not_any_array, init_spec) but == and hash see the padding — modelled and compared, "
    "outside the property's statement",
]
TRUSTED = ["harness/c10.cpp, c10_iface.hpp, c10_inst.hpp, c10_w*.cpp and the digest/line protocol (vh.hpp, Proto.lean)",
           "g++ 12 + ASan/UBSan as witness for memory safety of the instantiations"]

SIZES = [1, 3, 5, 8, 9]
BIG = [17, 33, 64]
WORDS = [8, 16, 32, 64]


def nontrivial(op, result):
    t = op.split()
    if t[0] in ("mask", "test"):
        return True
    return not (t[0] in ("pair", "pairs") and t[3] == "0" and (len(t) < 5 or t[4] == "0"))


def weight(op):
    t = op.split()
    if t[0] in ("mask", "test"):
        return 1
    if t[0] == "pairs":
        return 1 << int(t[1])
    if t[0] == "bits":
        return int(t[1])
    return 1


def refine(op):
    t = op.split()
    if t[0] == "pairs":
        n = int(t[1])
        return [f"pair {t[1]} {t[2]} {t[3]} {b}" for b in range(1 << n)]
    if t[0] == "bits":
        return [f"bit {t[1]} {t[2]} {t[3]} {i}" for i in range(int(t[1]))]
    return None


def nwords(n, w):
    return (n + w - 1) // w


def raw_token(n, w, m, dirty=0):
    """A<x0>.<x1>... for the set m; `dirty` is or-ed into the padding of the last word."""
    ws = [(m >> (k * w)) & ((1 << w) - 1) for k in range(nwords(n, w))]
    if n % w:
        pad = ((1 << w) - 1) ^ ((1 << (n % w)) - 1)
        ws[-1] |= dirty & pad
    return "A" + ".".join(str(x) for x in ws)


def positions(n):
    """first / last position, both sides of every storage word boundary"""
    return sorted({p for p in (0, 1, 6, 7, 8, 9, 15, 16, 17, 31, 32, 33, 62, 63, n - 2, n - 1) if 0 <= p < n})


def family(n, full_family, rng=None):
    """structured subsets of an n-element enum"""
    full = (1 << n) - 1
    alt = int("55" * 8, 16) & full
    pos = list(range(n)) if full_family else positions(n)
    s = [0, full, alt, full ^ alt]
    s += [1 << i for i in pos]
    s += [full ^ (1 << i) for i in pos]
    s += [(1 << k) - 1 for k in pos if k > 0]
    s += [full ^ ((1 << k) - 1) for k in pos if k > 0]
    s += [(0xFF << (8 * k)) & full for k in range((n + 7) // 8)]
    if rng is not None:
        s += [rng.below(1 << n) for _ in range(6)]
    out, seen = [], set()
    for x in s:
        if x not in seen:
            seen.add(x)
            out.append(x)
    return out


def rand_leaf(rng, n, w):
    k = rng.below(12)
    if k < 4:
        return [f"L{rng.below(1 << n)}"]
    if k < 7:
        return [f"I{rng.below(1 << n)}"]
    if k < 9:
        return ["D" + ".".join(str(rng.below(n)) for _ in range(rng.range(1, 8) if rng.chance(2, 3) else rng.range(9, 64)))]
    if k < 11:
        return [raw_token(n, w, rng.below(1 << n), rng.below(1 << w) if rng.chance(1, 4) else 0)]
    return [rng.choice(["N", "Z"])]


def rand_unary(rng, n, w):
    k = rng.below(16)
    i = rng.below(n)
    if k < 3:
        return "~"
    if k < 9:
        return rng.choice("SUTFOo") + str(i)
    if k < 10:
        return f"M{i}.{rng.below(2)}"
    if k < 11:
        return f"C{i}.{rng.below(n)}.{rng.below(2)}"
    if k < 12:
        kk = rng.below(nwords(n, w))
        x = rng.below(1 << w)
        if kk == nwords(n, w) - 1 and n % w and not rng.chance(1, 4):
            x &= (1 << (n % w)) - 1
        return f"W{kk}.{x}"
    return rng.choice(["|@", "&@", "^@", "|2", "&2", "^2", "=@"])


def rand_expr(rng, n, w, depth):
    """RPN tokens of a random expression tree."""
    if depth == 0 or rng.chance(1, 5):
        return rand_leaf(rng, n, w)
    k = rng.below(10)
    if k < 4:
        return rand_expr(rng, n, w, depth - 1) + [rand_unary(rng, n, w)]
    op = rng.choice(["|", "&", "^", "|=", "&=", "^="])
    return rand_expr(rng, n, w, depth - 1) + rand_expr(rng, n, w, depth - 1) + [op]


def equivalent_variant(rng, n, w, toks):
    """An expression denoting the same set, computed differently (De Morgan, double complement, xor with all, self-or ...)."""
    k = rng.below(7)
    full = (1 << n) - 1
    if k == 0:
        return toks + ["~", "~"]
    if k == 1:
        return toks + ["~", f"L{full}", "^"]          # ~x ^ all = x
    if k == 2:
        return toks + [f"I{full}", "&="]
    if k == 3:
        return toks + ["L0", "|"]
    if k == 4:
        return toks + ["|@", "&2"]
    if k == 5:
        return toks + [raw_token(n, w, full), "&"]
    return ["N"] + toks + ["^="]


def two_step_programs(n, w, small):
    """all programs  leaf op op  over the whole interface (op = unary operation, or binary operator with a second leaf)"""
    full = (1 << n) - 1
    alt = int("55" * 8, 16) & full
    pos = positions(n)
    if small:
        pos = sorted({0, min(w, n) - 1, min(w, n - 1), n - 1})
    last = n - 1
    leaves = ["N", f"L{full}", f"I{alt}", f"D{last}.{last}.0", raw_token(n, w, full ^ alt)]
    if n > 8:
        leaves.append("D" + ".".join(str(i) for i in reversed(range(n))))   # the whole enum, descending, one initializer list
    if n % w:
        leaves.append(raw_token(n, w, alt, (1 << w) - 1))   # dirty padding
    un = ["~", "|@", "&@", "^@", "|2", "&2", "^2", "=@"]
    for p in pos:
        un += [f"S{p}", f"U{p}", f"T{p}", f"F{p}", f"O{p}", f"o{p}", f"M{p}.0", f"M{p}.1"]
        q = pos[(pos.index(p) + 1) % len(pos)]
        un += [f"C{p}.{q}.0", f"C{p}.{q}.1"]
    un += [f"W{nwords(n, w) - 1}.{(1 << (n % w or w)) - 1}", "W0.0"]
    steps = [[u] for u in un] + [[l, b] for l in (leaves if not small else leaves[:3] + leaves[-1:]) for b in ("|", "&", "^", "|=", "&=", "^=")]
    progs = []
    for l in leaves:
        for s1 in steps:
            for s2 in steps:
                progs.append([l] + s1 + s2)
    return progs


def batches(rng, tier):
    thorough = tier == "thorough"
    # fcppt::bit::shifted_mask / test for every shift count of every word type
    ops = [f"mask {w} {k}" for w in WORDS for k in range(w)]
    for w in WORDS:
        allw = (1 << w) - 1
        for k in range(w):
            for x in (0, allw, 1 << k, allw ^ (1 << k), int("55" * 8, 16) & allw, int("AA" * 8, 16) & allw):
                ops.append(f"test {w} {x} {k}")
    yield Batch("bit-mask-test", ops, exhaustive=True, note="shifted_mask<W>(k), test(x, shifted_mask<W>(k)) for all k < digits(W)")
    # exhaustive pairs of subsets
    for n in SIZES:
        words = WORDS if (thorough or n <= 5) else [8, 32] if n == 8 else [8, 64]
        ops = [f"pairs {n} {w} {a}" for w in words for a in range(1 << n)]
        yield Batch(f"pairs-n{n}", ops, exhaustive=True, note=f"all pairs of subsets, words {words}")
    # every single-bit write on every subset
    for n in SIZES:
        ops = [f"bits {n} {w} {a}" for w in WORDS for a in range(1 << n)]
        yield Batch(f"bits-n{n}", ops, exhaustive=True, note="every way of writing every bit to true/false on every subset, restore")
    # large enums: structured families
    r = rng.fork("big")
    for n in BIG:
        fam = family(n, thorough, r)
        ops = [f"bits {n} {w} {a}" for w in WORDS for a in (fam if thorough else family(n, False))]
        yield Batch(f"bits-n{n}", ops, note="single-bit writes on the structured family")
        ops = [f"pair {n} {w} {a} {b}" for w in WORDS for a in fam for b in fam]
        full = (1 << n) - 1
        bases = [0, full, int("55" * 8, 16) & full, r.below(1 << n)]
        for w in WORDS:
            for base in bases:
                for i in range(n):
                    ops.append(f"pair {n} {w} {base} {base ^ (1 << i)}")
                    ops.append(f"pair {n} {w} {base ^ (1 << i)} {base}")
        yield Batch(f"pair-n{n}-family", ops, note=f"all pairs of {len(fam)} structured subsets + one-bit differences at every position")
    # sampled pairs
    r = rng.fork("n17")
    cnt = 6000 if thorough else 900
    ops = []
    for _ in range(cnt):
        n = r.choice(BIG)
        full = (1 << n) - 1
        a = r.below(1 << n) if r.chance(3, 4) else r.choice([0, full, 1 << (n - 1), (1 << (n - 1)) - 1, 0xFF, 0xFF00, 0x10000])
        b = r.below(1 << n) if r.chance(3, 4) else r.choice([0, full, a, a ^ full])
        ops.append(f"pair {n} {r.choice(WORDS)} {a} {b}")
    yield Batch("pair-big-sampled", ops, note="random and boundary subsets of 17-, 33- and 64-element enums")
    # raw arrays: every one-byte array (all padding patterns) against every set; two-word arrays with every last word
    ops = []
    for x in range(256):
        for m in ([x & 7] if not thorough else range(8)):
            ops.append(f"expr 3 8 A{x} ; L{m}")
        ops.append(f"expr 3 8 A{x} ~ ~ ; A{x} N |")
        ops.append(f"expr 5 8 A{x} ; I{x & 31} W0.{x}")
        ops.append(f"expr 8 8 A{x} ; L{x}")
        for x0 in (0, 255, 0x55):
            ops.append(f"expr 9 8 A{x0}.{x} ; L{x0 | ((x & 1) << 8)}")
            ops.append(f"expr 9 8 A{x0}.{x} ~ ; L{x0 | ((x & 1) << 8)} ~")
    yield Batch("expr-raw-arrays", ops, exhaustive=True, note="every byte as raw array / array() write, clean and dirty padding")
    # all two-step programs on small scopes
    cfgs = [(3, 8), (9, 8), (17, 16), (33, 32), (64, 64), (64, 8), (33, 64), (9, 64)]
    if not thorough:
        # rotate with the seed: two configurations per quick run, reduced position set
        k = r.below(len(cfgs))
        cfgs = [(9, 8), cfgs[k] if cfgs[k] != (9, 8) else (33, 32)]
    for (n, w) in cfgs:
        progs = two_step_programs(n, w, small=not thorough)
        if len(progs) % 2:
            progs.append(progs[0])
        ops = [f"expr {n} {w} " + " ".join(progs[i]) + " ; " + " ".join(progs[i + 1]) for i in range(0, len(progs), 2)]
        yield Batch(f"expr-two-step-n{n}w{w}", ops, exhaustive=True, note="all programs leaf.op.op over the whole interface")
    # random expression trees to depth 6, second operand either independent or an equivalent variant
    r = rng.fork("expr")
    cnt = 8000 if thorough else 1600
    ops = []
    for _ in range(cnt):
        n = r.choice([1, 3, 5, 8, 9, 17, 33, 64])
        w = r.choice(WORDS)
        e1 = rand_expr(r, n, w, r.range(1, 6))
        e2 = equivalent_variant(r, n, w, e1) if r.chance(1, 2) else rand_expr(r, n, w, r.range(1, 6))
        ops.append(f"expr {n} {w} " + " ".join(e1) + " ; " + " ".join(e2))
    yield Batch("expr-trees", ops, note="random expression trees, depth <= 6; half of the right-hand sides are equal sets computed differently")

MANIFEST = {
    "level_text": ("Machine-checked proof (Lean 4) over an executable model that mirrors the bitfield templates word by word: for every enum "
                   "size n, every word width w >= 1 and every expression built from initializer lists, init, raw arrays, set / operator[] / "
                   "|= index, array() writes and | & ^ ~ (and assigning forms), the model's get/==/!=/is_subset_eq/hash/underlying_value/"
                   "operator<< are those of the denoted set (eval_spec, eq_iff_same_set, hash_eq_of_same_set, isSubsetEq_iff, "
                   "underlyingValue_spec, output_spec); the padding invariant is proved preserved by every operation and re-established by ~ "
                   "and init from any array; same object on both sides, set/restore and write commutation are theorems. The model is tied to "
                   "the code by a differential correspondence that compares storage words and exact hash values, exhaustive over all pairs "
                   "of subsets and all single-bit writes for n in {1,3,5,8,9}, structured for n in {17,33,64}, plus all two-step programs."),
    "level_note": ("Trusted: Lean kernel + propext/Classical.choice/Quot.sound; the hand-written model's fidelity outside the exercised "
                   "inputs; harness and digest protocol; hash_combine/std::hash uninterpreted in the theorems. No sorry/axiom/native_decide."),
    "technique": "Lean 4 proof over hand-written executable model + exhaustive differential correspondence (ASan/UBSan harness)",
    "design_ref": "DESIGN.md §5 C10",
}
