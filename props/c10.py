"""C10 — bitfield is observationally a set of enumerators."""
from vlib.runner import Batch

ID = "C10"
LEAN_PROPS = ["FcpptProofs.Props.C10"]
HARNESS = {"src": "harness/c10.cpp"}
TIE = "hand-written model (FcpptModel/Model/C10.lean) + differential correspondence against the real templates"
RULE = ("pairs n w A: digest over all 2^n subsets B of the observations (| & ^ ~ is_subset_eq == != hash, assigning forms, "
        "canonical rebuild through init) for subset A; exhaustive over all A for n in {1,3,5,8,9} x words {8,16,32,64} "
        "(thorough; quick: all A for n<=5, every A for n=8,9 on two word sizes); n=17 and expression trees sampled. "
        "An op is non-trivial if it is not the empty-set/empty-set pair; distinct = distinct op lines.")
ASSUMPTIONS = [
    "storage word of the C++ unsigned type with w value bits = BitVec w",
    "hash_combine and std::hash of a word are uninterpreted functions (theorems hold for any)",
    "enumerator = its index (static_cast of the enum), enum_::size = fcppt_maximum + 1",
]
TRUSTED = ["harness/c10.cpp and the digest/line protocol (vh.hpp, Proto.lean)", "g++ 12 + ASan/UBSan as witness for memory safety of the instantiations"]

SIZES = [1, 3, 5, 8, 9]
WORDS = [8, 16, 32, 64]


def nontrivial(op, result):
    t = op.split()
    return not (t[0] in ("pair", "pairs") and t[3] == "0" and (len(t) < 5 or t[4] == "0"))


def weight(op):
    t = op.split()
    return (1 << int(t[1])) if t[0] == "pairs" else 1


def refine(op):
    t = op.split()
    if t[0] == "pairs":
        n = int(t[1])
        return [f"pair {t[1]} {t[2]} {t[3]} {b}" for b in range(1 << n)]
    return None


def rand_expr(rng, n, depth):
    """RPN tokens of a random expression tree."""
    if depth == 0 or rng.chance(1, 5):
        m = rng.below(1 << n)
        return [("L" if rng.chance(2, 3) else "I") + str(m)]
    k = rng.below(10)
    if k < 2:
        return rand_expr(rng, n, depth - 1) + ["~"]
    if k < 4:
        return rand_expr(rng, n, depth - 1) + [("S" if rng.chance(1, 2) else "U") + str(rng.below(n))]
    op = rng.choice(["|", "&", "^"])
    return rand_expr(rng, n, depth - 1) + rand_expr(rng, n, depth - 1) + [op]


def equivalent_variant(rng, n, toks):
    """An expression denoting the same set, computed differently (De Morgan, double complement, xor with all)."""
    k = rng.below(4)
    full = (1 << n) - 1
    if k == 0:
        return toks + ["~", "~"]
    if k == 1:
        return toks + ["~", f"L{full}", "^"]          # ~x ^ all = x
    if k == 2:
        return toks + [f"I{full}", "&"]
    return toks + ["L0", "|"]


def batches(rng, tier):
    thorough = tier == "thorough"
    # exhaustive pairs of subsets
    for n in SIZES:
        words = WORDS if (thorough or n <= 5) else [8, 32] if n == 8 else [8, 64]
        ops = [f"pairs {n} {w} {a}" for w in words for a in range(1 << n)]
        yield Batch(f"pairs-n{n}", ops, exhaustive=True, note=f"all pairs of subsets, words {words}")
    # n = 17: sampled A, all B would be 2^17 per A -> sample single pairs
    r = rng.fork("n17")
    cnt = 4000 if thorough else 600
    ops = []
    for _ in range(cnt):
        a = r.below(1 << 17) if r.chance(3, 4) else r.choice([0, (1 << 17) - 1, 1 << 16, (1 << 16) - 1, 0xFF, 0xFF00, 0x10000])
        b = r.below(1 << 17) if r.chance(3, 4) else r.choice([0, (1 << 17) - 1, a, a ^ ((1 << 17) - 1)])
        ops.append(f"pair 17 {r.choice(WORDS)} {a} {b}")
    yield Batch("pair-n17-sampled", ops, note="random and boundary subsets of a 17-element enum")
    # random expression trees to depth 6, second operand either independent or an equivalent variant
    r = rng.fork("expr")
    cnt = 6000 if thorough else 1200
    ops = []
    for _ in range(cnt):
        n = r.choice([1, 3, 5, 8, 9, 17])
        w = r.choice(WORDS)
        e1 = rand_expr(r, n, r.range(1, 6))
        e2 = equivalent_variant(r, n, e1) if r.chance(1, 2) else rand_expr(r, n, r.range(1, 6))
        ops.append(f"expr {n} {w} " + " ".join(e1) + " ; " + " ".join(e2))
    yield Batch("expr-trees", ops, note="random expression trees, depth <= 6; half of the right-hand sides are equal sets computed differently")

MANIFEST = {
    "level_text": ("Machine-checked proof (Lean 4) over an executable model that mirrors the bitfield templates word by word: for every enum "
                   "size n, every word width w >= 1 and every expression built from initializer lists, init, set and | & ^ ~, the "
                   "model's get/==/!=/is_subset_eq/hash are those of the denoted set (eval_spec, eq_iff_same_set, hash_eq_of_same_set, "
                   "isSubsetEq_iff); the padding invariant is proved preserved by every operation. The model is tied to the code by a "
                   "differential correspondence that is exhaustive over all pairs of subsets for n in {1,3,5,8,9} and sampled for n=17 "
                   "and expression trees."),
    "level_note": ("Trusted: Lean kernel + propext/Classical.choice/Quot.sound; the hand-written model's fidelity outside the exercised "
                   "inputs; harness and digest protocol; hash_combine/std::hash uninterpreted. No sorry/axiom/native_decide."),
    "technique": "Lean 4 proof over hand-written executable model + exhaustive differential correspondence (ASan/UBSan harness)",
    "design_ref": "DESIGN.md §5 C10",
}
