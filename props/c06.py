"""C06 — checked conversions and integer helpers equal their mathematical definition."""
import json
import os
import subprocess
import sys

from vlib import paths
from vlib.runner import Batch, run_harness

ID = "C06"
LEAN_PROPS = [f"FcpptProofs.Props.C06.Trunc_{t}" for t in ("u8", "u16", "u32", "u64", "i8", "i16", "i32", "i64")] + [
    "FcpptProofs.Props.C06.Basic", "FcpptProofs.Props.C06.Arith", "FcpptProofs.Props.C06.Log2", "FcpptProofs.Props.C06.Pow", "FcpptProofs.Props.C06.NextPow",
    "FcpptProofs.Props.C06.Casts", "FcpptProofs.Props.C06.Div2", "FcpptProofs.Props.C06.CeilNarrow", "FcpptProofs.Props.C06.Interval", "FcpptProofs.Props.C06.Masks", "FcpptProofs.Props.C06.Enum2", "FcpptProofs.Props.C06.Relations", "FcpptProofs.Props.C06.Bool"]
LEAN_EXTRA = ["FcpptModel.Gen.Scalar"]
HARNESS = {"src": "harness/c06.cpp", "flags": []}       # flags: -DVERIF_C06_NO_<GROUP>, set by probe_groups()
TIE = ("TRANSLATION: lean/FcpptModel/Gen/Scalar.lean is regenerated from /repo's headers on every run by tools/cxx2lean.py "
       "(instantiated clang-14 JSON AST -> Lean over the fixed-width semantics of Prelude/CInt.lean) and every theorem is re-checked "
       "against it; CORRESPONDENCE: the generated definitions and the real templates run on the same inputs (exhaustive 8/16-bit)")
RULE = ("range/list ops enumerate a domain on both sides and compare FNV digests (refined to single calls on a difference): all values of "
        "every 8/16-bit source for truncation_check (64 type pairs + bool destination + 20 pairs with long long / char / wchar_t / charN_t) "
        "and the unary helpers and casts, all 8-bit pairs for binary helpers (incl. div and ceil_div_signed on the narrow types), boundary "
        "lattice (0, +-1, +-2, 2^k, 2^k+-1, min, max) and seeded random values for 32/64-bit, [0,255]^2 / [-128,127]^2 (quick) resp. "
        "[0,2047]^2 / [-1024,1023]^2 (thorough) for ceil_div / ceil_div_signed, full 16-bit squares against a 128-bit oracle (thorough); "
        "interval_distance: all quadruples over 13-value windows and the ends of every type; every binary/ternary function with ONE object "
        "bound to all its reference parameters; compile-time helpers (mask_c, shifted_mask_c, ceil_div_static, enum_::size) on fixed tables. "
        "evaluations counts single function evaluations; an op is non-trivial if its domain has more than one point.")
ASSUMPTIONS = [
    "LP64, two's complement, C++20 integer conversion rules as written in Prelude/CInt.lean (validated by this correspondence, not proved)",
    "library primitives the translator treats as built in: fcppt::literal, optional::make_if/bind/map, numeric_limits::min/max, "
    "std::min/max/abs/swap, tuple::get, is_zero (cast::size/to_signed/to_unsigned/int_to_enum are translated from their bodies)",
    "interval_distance on int32_t/int64_t is only run where every difference of two of the four operands is representable (both sides answer `guard` otherwise)",
    "enum_::size<Enum>::value enters the translated from_int as a parameter",
]
TRUSTED = ["tools/cxx2lean.py (translator) and clang-14's AST of the instantiations", "harness/c06.cpp, digest protocol"]

UNS = ["u8", "u16", "u32", "u64"]
SIG = ["i8", "i16", "i32", "i64"]
ALL = UNS + SIG
BITS = {"u8": 8, "u16": 16, "u32": 32, "u64": 64, "i8": 8, "i16": 16, "i32": 32, "i64": 64}


def lo(t):
    return -(1 << (BITS[t] - 1)) if t[0] == "i" else 0


def hi(t):
    return (1 << (BITS[t] - 1)) - 1 if t[0] == "i" else (1 << BITS[t]) - 1


def lattice(t, extra=()):
    vals = {0, 1, -1, 2, -2, 3, lo(t), hi(t), lo(t) + 1, hi(t) - 1}
    for k in range(1, 65):
        for d in (-1, 0, 1):
            vals.add((1 << k) + d)
            vals.add(-(1 << k) + d)
    vals |= set(extra)
    return sorted(v for v in vals if lo(t) <= v <= hi(t))


def csv(vs):
    return ",".join(str(v) for v in vs) if vs else "-"


# ---------------------------------------------------------------- groups of second-generation instantiations
# One instantiation that stops compiling must not cost the whole harness (and with it every failing input): each group is
# probed with a syntax-only compile (0.5 s) before the harness is built; a group that does not compile is switched off
# (-DVERIF_C06_NO_<GROUP>), its ops are not generated, and the fact is reported as a broken correspondence.
PROBE_INCLUDES = ["cstdint", "fcppt/bit/mask_c.hpp", "fcppt/bit/shifted_mask_c.hpp", "fcppt/cast/promote_int.hpp", "fcppt/cast/safe_numeric.hpp",
                  "fcppt/cast/size.hpp", "fcppt/cast/to_signed.hpp", "fcppt/cast/to_unsigned.hpp", "fcppt/cast/truncation_check.hpp",
                  "fcppt/enum/from_int.hpp", "fcppt/enum/size.hpp", "fcppt/math/ceil_div_signed.hpp", "fcppt/math/ceil_div_static.hpp",
                  "fcppt/math/div.hpp", "fcppt/math/interval_distance.hpp", "fcppt/tuple/object.hpp"]
I = ["std::int8_t", "std::int16_t", "std::int32_t", "std::int64_t"]
U = ["std::uint8_t", "std::uint16_t", "std::uint32_t", "std::uint64_t"]
PROBES = {
    "BOOL": [f"(void)fcppt::cast::truncation_check<bool>({t}{{}});" for t in I + U] + [f"(void)fcppt::cast::truncation_check<{t}>(true);" for t in (U[0], U[3], I[0], I[2], I[3])],
    "NAMED": ["(void)fcppt::cast::truncation_check<long long>(std::int32_t{});", "(void)fcppt::cast::truncation_check<unsigned long long>(std::int64_t{});",
              "(void)fcppt::cast::truncation_check<char>(std::int32_t{});", "(void)fcppt::cast::truncation_check<std::uint8_t>(char{});",
              "(void)fcppt::cast::truncation_check<wchar_t>(std::int64_t{});", "(void)fcppt::cast::truncation_check<char8_t>(std::int16_t{});",
              "(void)fcppt::cast::truncation_check<char16_t>(char32_t{});", "(void)fcppt::cast::truncation_check<std::int16_t>(char16_t{});"],
    "INTERVAL": [f"(void)fcppt::math::interval_distance<{t}>(fcppt::tuple::object<{t}, {t}>{{{t}{{}}, {t}{{}}}}, fcppt::tuple::object<{t}, {t}>{{{t}{{}}, {t}{{}}}});" for t in I + U],
    "STATIC": ["(void)fcppt::math::ceil_div_static<std::uint32_t, 7, 2>::value;", "(void)fcppt::math::ceil_div_static<std::uint64_t, 7, 2>::value;",
               "(void)fcppt::enum_::size<probe_enum_u>::value;", "(void)fcppt::enum_::size<probe_enum_i>::value;"],
    "MASKS": [f"(void)fcppt::bit::mask_c<{t}, 1>();" for t in U] + [f"(void)fcppt::bit::shifted_mask_c<{t}, 7>();" for t in U],
    "CASTS": [f"(void)fcppt::cast::size<{d}>({s}{{}});" for g in (I, U) for d in g for s in g]
             + [f"(void)fcppt::cast::safe_numeric<{g[3]}>({s}{{}});" for g in (I, U) for s in g]
             + [f"(void)fcppt::cast::to_signed({t}{{}});" for t in U] + [f"(void)fcppt::cast::to_unsigned({t}{{}});" for t in I]
             + [f"(void)fcppt::cast::promote_int({t}{{}});" for t in I + U],
    "DIV2": [f"(void)fcppt::math::div({t}{{}}, {t}{{}});" for t in (I[0], I[1], U[0], U[1])]
            + ["(void)fcppt::math::div(std::int32_t{}, std::uint32_t{});", "(void)fcppt::math::div(std::uint64_t{}, std::int8_t{});"]
            + [f"(void)fcppt::math::ceil_div_signed<{t}>({t}{{}}, {t}{{}});" for t in (I[0], I[1])],
    "ENUM2": [f"(void)fcppt::enum_::from_int<probe_enum_i>({t}{{}});" for t in U] + [f"(void)fcppt::enum_::from_int<probe_enum_c>({t}{{}});" for t in U],
}
DISABLED = {}       # group -> first error line


def probe_groups():
    from vlib import harness as vh
    DISABLED.clear()
    text = "".join(f"#include <{h}>\n" for h in PROBE_INCLUDES)
    text += "enum class probe_enum_u : std::uint8_t { a, fcppt_maximum = a };\nenum class probe_enum_i { a, b, fcppt_maximum = b };\n"
    text += "enum class probe_enum_c : std::int8_t { a, b, fcppt_maximum = b };\n"
    where = {}
    n = text.count("\n")
    for g, body in PROBES.items():
        text += f"void probe_{g}() {{\n"
        n += 1
        for l in body:
            n += 1
            where[n] = g
            text += "  " + l + "\n"
        text += "}\n"
        n += 1
    os.makedirs(paths.CACHE, exist_ok=True)
    src = os.path.join(paths.CACHE, f"c06_probe_{os.getpid()}.cpp")
    try:
        with open(src, "w") as f:
            f.write(text)
        p = subprocess.run([vh.CXX, "-std=c++20", "-fsyntax-only", "-DFCPPT_STATIC_LINK"] + vh.include_flags() + [src], capture_output=True, text=True)
        if p.returncode != 0:
            import re
            last_error = None
            for l in p.stderr.split("\n"):
                m = re.search(r"error: (.*)", l)
                if m:
                    last_error = m.group(1)
                m = re.search(r"c06_probe_\d+\.cpp:(\d+):", l)
                if m and int(m.group(1)) in where:
                    DISABLED.setdefault(where[int(m.group(1))], last_error or l.strip())
    except Exception as e:        # the probe is an optimisation of the report: never an infrastructure error
        sys.stderr.write(f"WARNING C06 probe: {e}\n")
    finally:
        try:
            os.unlink(src)
        except OSError:
            pass
    HARNESS["flags"] = [f"-DVERIF_C06_NO_{g}" for g in sorted(DISABLED)]


def extra_checks(binp, rng, tier, ev):
    return [{"kind": "broken-correspondence", "theorems": [],
             "what": f"the {g} instantiations of the harness no longer compile against /repo ({why}); they are switched off, the remaining functions keep their correspondence"}
            for g, why in sorted(DISABLED.items())]


def on(group):
    return group not in DISABLED


def regenerate():
    probe_groups()
    out = os.path.join(paths.LEAN, "FcpptModel", "Gen", "Scalar.lean")
    rep = os.path.join(paths.CACHE, f"cxx2lean_{os.getpid()}.json")
    os.makedirs(paths.CACHE, exist_ok=True)
    p = subprocess.run([sys.executable, os.path.join(paths.ROOT, "tools", "cxx2lean.py"), "--repo", paths.REPO, "--out", out, "--report", rep],
                       capture_output=True, text=True)
    info = {}
    try:
        info = json.load(open(rep))
        os.unlink(rep)
    except Exception:
        pass
    res = {"translated_functions": len(info.get("functions", [])), "helpers": len(info.get("helpers", [])), "changed": info.get("changed")}
    if p.returncode != 0 or info.get("errors") or "error" in info:
        res["error"] = json.dumps(info.get("errors") or info.get("error") or p.stderr[-800:])[:1500]
    return res


def weight(op):
    t = op.split()
    try:
        if t[0] == "range1":
            return int(t[3]) - int(t[2]) + 1
        if t[0] == "range2":
            return (int(t[3]) - int(t[2]) + 1) * (int(t[5]) - int(t[4]) + 1)
        if t[0] == "range3":
            return (int(t[3]) - int(t[2]) + 1) ** 3
        if t[0] == "list1":
            return len(t[2].split(","))
        if t[0] == "list2":
            return len(t[2].split(",")) * len(t[3].split(","))
        if t[0] == "list3":
            return len(t[2].split(",")) ** 3
        if t[0] == "selfcheck":
            return int(t[2]) if len(t) == 3 else (int(t[3]) - int(t[2]) + 1) * 65536
        if t[0] == "list4":
            return len(t[2].split(",")) ** 4
        if t[0] == "aliasl":
            return len(t[2].split(","))
        if t[0] == "aliasr":
            return int(t[3]) - int(t[2]) + 1
    except Exception:
        pass
    return 1


def nontrivial(op, res):
    return weight(op) > 1 or op.startswith("call")


def refine(op):
    t = op.split()
    if len(t) < 2:
        return None
    f = t[1]
    if t[0] == "range1":
        a, b = int(t[2]), int(t[3])
        if b - a > 512:
            step = (b - a) // 256 + 1
            return [f"range1 {f} {x} {min(b, x + step - 1)}" for x in range(a, b + 1, step)]
        return [f"call {f} {x}" for x in range(a, b + 1)]
    if t[0] == "range2":
        al, ah, bl, bh = map(int, t[2:6])
        if ah > al:
            return [f"range2 {f} {a} {a} {bl} {bh}" for a in range(al, ah + 1)]
        if bh - bl > 4096:
            step = (bh - bl) // 256 + 1
            return [f"range2 {f} {al} {al} {x} {min(bh, x + step - 1)}" for x in range(bl, bh + 1, step)]
        return [f"call {f} {al} {b}" for b in range(bl, bh + 1)]
    if t[0] == "range3":
        l, h = int(t[2]), int(t[3])
        return [f"list3x {f} {a}" for a in range(l, h + 1)] and [f"call {f} {a} {b} {c}" for a in range(l, h + 1) for b in range(l, h + 1) for c in range(l, h + 1)][:400000]
    if t[0] == "list1":
        return [f"call {f} {a}" for a in t[2].split(",")]
    if t[0] == "list2":
        return [f"call {f} {a} {b}" for a in t[2].split(",") for b in t[3].split(",")]
    if t[0] == "list3":
        vs = t[2].split(",")
        return [f"call {f} {a} {b} {c}" for a in vs for b in vs for c in vs][:400000]
    if t[0] == "list4":
        vs = t[2].split(",")
        return [f"call {f} {a} {b} {c} {d}" for a in vs for b in vs for c in vs for d in vs][:400000]
    if t[0] == "aliasl":
        return [f"alias {f} {a}" for a in t[2].split(",")]
    if t[0] == "aliasr":
        return [f"alias {f} {a}" for a in range(int(t[2]), int(t[3]) + 1)]
    return None


DIV_MIXED = [("i32", "u32"), ("u32", "i32"), ("i8", "u8"), ("u8", "i64"), ("i64", "u64"), ("u16", "i32"), ("i16", "u64"), ("u64", "i8"), ("i32", "i64"), ("u32", "u64")]
MASK_C = {"u8": [0, 1, 5, 255], "u16": [0, 256, 65535], "u32": [0, 65536, 4294967295], "u64": [0, 4294967296, 18446744073709551615]}
SHIFTED_MASK_C = {"u8": [0, 3, 7], "u16": [0, 8, 15], "u32": [0, 16, 31], "u64": [0, 32, 63]}
STATIC_DIVIDENDS = {"u32": [0, 1, 2, 3, 6, 7, 8, 65535, 65536, 65537, 2147483648, 4294967294, 4294967295],
                    "u64": [0, 1, 2, 3, 6, 7, 8, 65535, 65536, 65537, 4294967296, 9223372036854775808, 18446744073709551614, 18446744073709551615]}
ENUM_MAXIMA = {"u8": [0, 2, 254], "u16": [2, 256, 65534], "u32": [2, 69999], "u64": [2, 4999999999], "i8": [2, 127], "i32": [2, 69999, 2147483647]}
PROMOTED = {"u8": "i32", "i8": "i32", "u16": "i32", "i16": "i32", "u32": "u32", "i32": "i32", "u64": "u64", "i64": "i64"}


def small(t, rng=None, n=0):
    """a short boundary list of t (for the quadruple / triple enumerations)"""
    vs = {lo(t), lo(t) + 1, -2, -1, 0, 1, 2, 5, hi(t) - 1, hi(t), hi(t) // 2, hi(t) // 2 + 1}
    if rng is not None:
        vs |= {rng.range(lo(t), hi(t)) for _ in range(n)}
    return sorted(v for v in vs if lo(t) <= v <= hi(t))


# truncation_check<bool>(S) for an 8-bit S answered some(true) for every value >= 2 (sizeof(bool) == sizeof(S) was taken for
# "every value fits"): found by these ops, repaired by fix 14450a3 (overloads selected by numeric_limits<>::digits).
BOOL_DEST_FROM_8BIT = True
CANON = {"ll": "i64", "ull": "u64", "ch": "i8", "wc": "i32", "c8": "u8", "c16": "u16", "c32": "u32"}
NAMED_PAIRS = [("ll", "i32"), ("i32", "ll"), ("ll", "u64"), ("ull", "i64"), ("u64", "ull"), ("i64", "ll"), ("ull", "ll"), ("u8", "ll"),
               ("ch", "i32"), ("ch", "u8"), ("u8", "ch"), ("i8", "ch"), ("wc", "i64"), ("wc", "u32"), ("u16", "wc"), ("c8", "i16"),
               ("c16", "i32"), ("c16", "c32"), ("c32", "i64"), ("i16", "c16")]
FROM_INT_SIZES = {"u8": [1, 3, 255], "u16": [3, 257, 65535], "u32": [3, 70000], "u64": [3, 5000000000],
                  "i8": [3, 128], "i32": [3, 70000, 2147483648]}      # i8 / i32: enums with a signed underlying type (`int` is the default)
ENUM_UNDER = UNS + ["i8", "i32"]


def batches(rng, tier):
    thorough = tier == "thorough"
    # ---- truncation_check: all 64 (dest, source) pairs
    ops = []
    for d in ALL:
        for s in ALL:
            f = f"truncation_check_{d}_{s}"
            if BITS[s] <= 16:
                ops.append(f"range1 {f} {lo(s)} {hi(s)}")
            else:
                ops.append(f"list1 {f} {csv(lattice(s))}")
    yield Batch("truncation_check", ops, exhaustive=True, note="all values of 8/16-bit sources, boundary lattice of 32/64-bit sources, all 64 type pairs")
    r = rng.fork("tc-random")
    ops = []
    for d in ALL:
        for s in ("u32", "i32", "u64", "i64"):
            vs = [r.range(lo(s), hi(s)) for _ in range(40)] + [r.range(lo(d) - 300, hi(d) + 300) for _ in range(40)]
            ops.append(f"list1 truncation_check_{d}_{s} {csv(sorted(v for v in vs if lo(s) <= v <= hi(s)))}")
    # integral types that are not the fixed-width typedefs (same representation: the model of the typedef is used)
    for d, s in (NAMED_PAIRS if on("NAMED") else []):
        cs = CANON.get(s, s)
        f = f"truncation_check_{d}_{s}"
        ops.append(f"range1 {f} {lo(cs)} {hi(cs)}" if BITS[cs] <= 16 else f"list1 {f} {csv(lattice(cs))}")
    for st in (ALL if on("BOOL") else []):
        if BITS[st] == 8 and not BOOL_DEST_FROM_8BIT:
            continue
        ops.append(f"range1 truncation_check_b_{st} {lo(st)} {hi(st)}" if BITS[st] <= 16 else f"list1 truncation_check_b_{st} {csv(lattice(st))}")
    for d in (("u8", "u64", "i8", "i32", "i64") if on("BOOL") else ()):
        ops.append(f"range1 truncation_check_{d}_b 0 1")
    yield Batch("truncation_check-random", ops, note="seeded random 32/64-bit sources, half of them near the destination's limits; 20 pairs with long long / char / wchar_t / char8_t / char16_t / char32_t (all 8/16-bit values, lattice)")
    # ---- from_int
    ops = []
    for u in (ENUM_UNDER if on("ENUM2") else UNS):
        for v in UNS:
            xs = lattice(v, extra=[s + d for s in FROM_INT_SIZES[u] for d in (-2, -1, 0, 1, 2)] + [256, 257, 258, 65536, 65537, 65538, (1 << 32) + 1, (1 << 32) + 2])
            if BITS[v] <= 16:
                for s in FROM_INT_SIZES[u]:
                    ops.append(f"range2 from_int_{u}_{v} {lo(v)} {hi(v)} {s} {s}")
            else:
                ops.append(f"list2 from_int_{u}_{v} {csv(xs)} {csv(FROM_INT_SIZES[u])}")
    yield Batch("from_int", ops, exhaustive=True, note="all 8/16-bit values, lattice incl. size+-2 and 2^8k+{0,1,2} for wider value types; enums of sizes " + str(FROM_INT_SIZES))
    # ---- unary unsigned helpers
    ops = []
    for t in UNS:
        for f in ("is_power_of_2", "next_power_of_2", "log2"):
            if BITS[t] <= 16:
                ops.append(f"range1 {f}_{t} 0 {hi(t)}")
            else:
                ops.append(f"list1 {f}_{t} {csv(lattice(t))}")
        ops.append(f"range1 power_of_2_{t} 0 70")
        ops.append(f"range1 shifted_mask_{t} 0 70")
    yield Batch("unary", ops, exhaustive=True, note="is_power_of_2 / next_power_of_2 / log2: all 8/16-bit values + lattice; power_of_2 / shifted_mask: exponents 0..70")
    # ---- binary helpers, 8 bit exhaustive
    ops = []
    for f, t in [("mod", "u8"), ("diff", "u8"), ("diff", "i8"), ("bit_test", "u8")]:
        ops.append(f"range2 {f}_{t} {lo(t)} {hi(t)} {lo(t)} {hi(t)}")
    yield Batch("binary-8bit", ops, exhaustive=True, note="all operand pairs of the 8-bit instantiations")
    ops = []
    for t in ALL:
        if BITS[t] == 8 and thorough:
            ops.append(f"range3 clamp_{t} {lo(t)} {lo(t) + 95}")
            ops.append(f"range3 clamp_{t} {hi(t) - 95} {hi(t)}")
        vs = lattice(t) if BITS[t] > 8 else list(range(lo(t), hi(t) + 1, 7)) + [hi(t), hi(t) - 1]
        if len(vs) > 48:
            vs = sorted(set(vs[:16] + vs[-16:] + [v for v in vs if abs(v) < 5] + [rng.choice(vs) for _ in range(12)]))
        ops.append(f"list3 clamp_{t} {csv(sorted(set(vs)))}")
    yield Batch("clamp", ops, note="all triples over a boundary lattice (plus 96-value windows at both ends for 8-bit types in the thorough tier)")
    # ---- wider binary helpers on the lattice
    ops = []
    for t in UNS:
        if BITS[t] > 8:
            ops.append(f"list2 mod_{t} {csv(lattice(t))} {csv(lattice(t))}")
            ops.append(f"list2 bit_test_{t} {csv(lattice(t))} {csv(lattice(t))}")
    for t in ALL:
        if BITS[t] > 8:
            ops.append(f"list2 diff_{t} {csv(lattice(t))} {csv(lattice(t))}")
    for t in ("u32", "i32", "u64", "i64"):
        ops.append(f"list2 div_{t} {csv(lattice(t))} {csv(lattice(t))}")
    for t in ("u32", "u64"):
        ops.append(f"list2 ceil_div_{t} {csv(lattice(t))} {csv(lattice(t))}")
    for t in ("i32", "i64"):
        ops.append(f"list2 ceil_div_signed_{t} {csv(lattice(t))} {csv(lattice(t))}")
    yield Batch("binary-lattice", ops, note="all pairs of the boundary lattice for 16/32/64-bit instantiations")
    # ---- the squares named in the property
    n, m = (2047, 1024) if thorough else (255, 128)
    ops = [f"range2 ceil_div_u32 {a} {min(n, a + 63)} 0 {n}" for a in range(0, n + 1, 64)]
    ops += [f"range2 ceil_div_signed_i32 {a} {min(m - 1, a + 63)} {-m} {m - 1}" for a in range(-m, m, 64)]
    ops += [f"range2 ceil_div_u64 {a} {a + 15} 0 255" for a in range(0, 256, 16)]
    ops += [f"range2 ceil_div_signed_i64 {a} {a + 15} -128 127" for a in range(-128, 128, 16)]
    ops += [f"range2 div_i32 {a} {a + 15} -128 127" for a in range(-128, 128, 16)]
    yield Batch("ceil_div-squares", ops, exhaustive=True, note=f"[0,{n}]^2 for ceil_div<u32>, [-{m},{m - 1}]^2 for ceil_div_signed<i32>, 256^2 for the 64-bit ones")
    # ---- random 32/64 bit pairs
    r = rng.fork("bin-random")
    ops = []
    for f, ts in [("mod", ["u32", "u64"]), ("diff", ["u32", "i32", "u64", "i64"]), ("div", ["u32", "i32", "u64", "i64"]),
                  ("ceil_div", ["u32", "u64"]), ("ceil_div_signed", ["i32", "i64"]), ("bit_test", ["u32", "u64"])]:
        for t in ts:
            a = [r.range(lo(t), hi(t)) for _ in range(30)] + [r.range(-1000, 1000) for _ in range(10)]
            b = [r.range(lo(t), hi(t)) for _ in range(20)] + [r.range(-40, 40) for _ in range(20)]
            a = sorted({v for v in a if lo(t) <= v <= hi(t)})
            b = sorted({v for v in b if lo(t) <= v <= hi(t)})
            ops.append(f"list2 {f}_{t} {csv(a)} {csv(b)}")
    yield Batch("binary-random", ops, note="seeded random 32/64-bit operands, small and large divisors")
    yield from batches2(rng, tier)
    if thorough:
        ops = []
        for f in ("diff_u16", "diff_i16", "mod_u16", "bit_test_u16") + (("div_u16", "div_i16", "ceil_div_signed_i16") if on("DIV2") else ()):
            base = -32768 if "_i16" in f else 0
            ops += [f"selfcheck {f} {base + r} {base + r + 4095}" for r in range(0, 65536, 4096)]     # 16 lines of 4096 rows each
        yield Batch("full-16bit-squares", ops, exhaustive=True, note="all 2^32 operand pairs of every binary 16-bit instantiation (diff u16/i16, mod, bit::test, div u16/i16, ceil_div_signed i16) against the harness' wide-arithmetic oracle")
        ops = []
        for f, t in [("mod", "u16"), ("diff", "u16"), ("diff", "i16"), ("bit_test", "u16")]:
            for _ in range(6):
                a = rng.range(lo(t), hi(t) - 255)
                b = rng.range(lo(t), hi(t) - 255)
                ops.append(f"range2 {f}_{t} {a} {a + 255} {b} {b + 255}")
        yield Batch("16bit-windows", ops, note="random 256x256 windows of the 16-bit squares through the model")


def batches2(rng, tier):
    """second generation: narrow / mixed div, interval_distance, the unchecked casts, compile-time masks, aliasing, statics"""
    thorough = tier == "thorough"
    # ---- math::div on 8/16-bit operands (quotient computed in int) and on mixed operand types
    ops = [f"range2 div_{t} {lo(t)} {hi(t)} {lo(t)} {hi(t)}" for t in ("u8", "i8")]
    for t in ("u16", "i16"):
        ops.append(f"list2 div_{t} {csv(lattice(t))} {csv(lattice(t))}")
        ops.append(f"range2 div_{t} {lo(t)} {hi(t)} -3 3" if t == "i16" else f"range2 div_{t} 0 {hi(t)} 0 6")
        ops.append(f"range2 div_{t} {lo(t)} {lo(t) + 5} {lo(t)} {hi(t)}")
        ops.append(f"range2 div_{t} {hi(t) - 5} {hi(t)} {lo(t)} {hi(t)}")
    ops.append("range2 ceil_div_signed_i8 -128 127 -128 127")
    ops.append(f"list2 ceil_div_signed_i16 {csv(lattice('i16'))} {csv(lattice('i16'))}")
    ops.append("range2 ceil_div_signed_i16 -32768 32767 -3 3")
    ops.append("range2 ceil_div_signed_i16 -32768 -32763 -32768 32767")
    ops.append("range2 ceil_div_signed_i16 32762 32767 -32768 32767")
    ops.append("range2 ceil_div_signed_i16 -300 300 -300 300")
    yield Batch("div-narrow", ops if on("DIV2") else [], exhaustive=True, note="all pairs of the 8-bit instantiations; 16-bit: lattice pairs, every dividend against the divisors around 0, every divisor against the extreme dividends")
    ops = []
    for l, r in DIV_MIXED:
        la = lattice(l) if BITS[l] > 8 else list(range(lo(l), hi(l) + 1))
        ra = lattice(r) if BITS[r] > 8 else list(range(lo(r), hi(r) + 1))
        ops.append(f"list2 div_{l}_{r} {csv(la)} {csv(ra)}")
    yield Batch("div-mixed", ops if on("DIV2") else [], note="mixed operand types (the usual arithmetic conversions choose the type of the division): lattice x lattice, 8-bit operands exhaustively")
    # ---- interval_distance: all quadruples over a window around 0 / the lower end (every relative position of two small
    # intervals incl. equal ends, containment, touching, inverted intervals) and over the boundary values
    ops = []
    r = rng.fork("interval")
    for t in ALL:
        w = list(range(-6, 7)) if t[0] == "i" else list(range(0, 13))
        ops.append(f"list4 interval_distance_{t} {csv(w)}")
        ops.append(f"list4 interval_distance_{t} {csv(small(t, r, 2))}")
        if t[0] == "u":
            ops.append(f"list4 interval_distance_{t} {csv(list(range(hi(t) - 9, hi(t) + 1)))}")
        else:
            ops.append(f"list4 interval_distance_{t} {csv(list(range(lo(t), lo(t) + 5)) + list(range(hi(t) - 4, hi(t) + 1)))}")
    yield Batch("interval_distance", ops if on("INTERVAL") else [], exhaustive=True, note="all quadruples (a1,b1,a2,b2) over 13-value windows, the type's ends and a boundary list: every relative position of two intervals")
    # ---- the unchecked casts
    ops = []
    for grp in (UNS, SIG):
        for d in grp:
            for s in grp:
                fs = ["size"] + (["safe_numeric"] if BITS[d] >= BITS[s] else [])
                for f in fs:
                    ops.append(f"range1 {f}_{d}_{s} {lo(s)} {hi(s)}" if BITS[s] <= 16 else f"list1 {f}_{d}_{s} {csv(lattice(s))}")
    for t in ALL:
        fs = ["promote_int", "to_signed" if t[0] == "u" else "to_unsigned"]
        for f in fs:
            ops.append(f"range1 {f}_{t} {lo(t)} {hi(t)}" if BITS[t] <= 16 else f"list1 {f}_{t} {csv(lattice(t))}")
    yield Batch("casts", ops if on("CASTS") else [], exhaustive=True, note="cast::size (32 pairs), safe_numeric (20), to_signed, to_unsigned, promote_int: all 8/16-bit values, lattice of the wider sources")
    r = rng.fork("casts-random")
    ops = []
    for grp in (UNS, SIG):
        for d in grp:
            for s in grp:
                if BITS[s] > 16:
                    vs = sorted({r.range(lo(s), hi(s)) for _ in range(30)} | {r.range(lo(d) - 300, hi(d) + 300) for _ in range(30)})
                    ops.append(f"list1 size_{d}_{s} {csv([v for v in vs if lo(s) <= v <= hi(s)])}")
    for t in ("u32", "u64", "i32", "i64"):
        vs = sorted({r.range(lo(t), hi(t)) for _ in range(60)})
        ops.append(f"list1 {'to_signed' if t[0] == 'u' else 'to_unsigned'}_{t} {csv(vs)}")
    yield Batch("casts-random", ops if on("CASTS") else [], note="seeded random 32/64-bit sources")
    # ---- compile-time masks and statics
    ops = []
    if on("MASKS"):
        ops += [f"call mask_c_{t}_{m}" for t in UNS for m in MASK_C[t]] + [f"call shifted_mask_c_{t}_{b}" for t in UNS for b in SHIFTED_MASK_C[t]]
    if on("STATIC"):
        for t in ("u32", "u64"):
            for a in STATIC_DIVIDENDS[t]:
                for b in (1, 2, 3, 7, 65536, hi(t) - 1, hi(t)):
                    ops.append(f"static2 ceil_div_static_{t} {a} {b}")
        ops += [f"enumsize {u} {m}" for u in ENUM_MAXIMA for m in ENUM_MAXIMA[u]]
    yield Batch("compile-time", ops, exhaustive=True, note="mask_c / shifted_mask_c instantiations, ceil_div_static against the run-time ceil_div, enum_::size of the harness enums")
    # ---- one object in every parameter (the functions take references)
    ops = []
    for t in ALL:
        fs = ["clamp", "diff"] + (["div"] if BITS[t] > 16 or on("DIV2") else []) + (["mod", "bit_test"] if t[0] == "u" else [])
        for f in fs:
            ops.append(f"aliasr {f}_{t} {lo(t)} {hi(t)}" if BITS[t] <= 16 else f"aliasl {f}_{t} {csv(lattice(t))}")
    for f in ("ceil_div_u32", "ceil_div_u64", "ceil_div_signed_i32", "ceil_div_signed_i64"):
        ops.append(f"aliasl {f} {csv(lattice(f.rsplit('_', 1)[1]))}")
    if on("DIV2"):
        ops.append("aliasr ceil_div_signed_i8 -128 127")
        ops.append("aliasr ceil_div_signed_i16 -32768 32767")
    yield Batch("aliasing", ops, exhaustive=True, note="f(x, x) / clamp(x, x, x) with the same object bound to every reference parameter: all 8/16-bit values, lattice otherwise")
    if thorough:
        ops = []
        for t in (("u16", "i16") if on("DIV2") else ()):
            for _ in range(8):
                a = rng.range(lo(t), hi(t) - 255)
                b = rng.range(lo(t), hi(t) - 255)
                ops.append(f"range2 div_{t} {a} {a + 255} {b} {b + 255}")
        for t in (("u8", "i8") if on("INTERVAL") else ()):
            w = list(range(lo(t), lo(t) + 24))
            ops.append(f"list4 interval_distance_{t} {csv(w)}")
            w = list(range(hi(t) - 23, hi(t) + 1))
            ops.append(f"list4 interval_distance_{t} {csv(w)}")
            w = list(range(lo(t), hi(t) + 1, 11))
            ops.append(f"list4 interval_distance_{t} {csv(w)}")
        yield Batch("second-generation-thorough", ops, note="256x256 windows of the 16-bit div squares; 24-value windows and a stride-11 grid of the 8-bit interval quadruples")


# ---------------------------------------------------------------- independent spec oracle (used when an obligation broke)

def wrap(t, v):
    """C++20 conversion to t: the value congruent to v modulo 2^bits inside t's range"""
    v %= 1 << BITS[t]
    return v - (1 << BITS[t]) if t[0] == "i" and v >= 1 << (BITS[t] - 1) else v


def tdiv(a, b):
    return abs(a) // abs(b) * (1 if (a >= 0) == (b >= 0) else -1)


def common(l, r):
    """type of `L / R` (usual arithmetic conversions, LP64)"""
    pl, pr = PROMOTED[l], PROMOTED[r]
    if pl == pr:
        return pl
    if pl[0] == pr[0]:
        return pl if BITS[pl] >= BITS[pr] else pr
    u, sg = (pl, pr) if pl[0] == "u" else (pr, pl)
    return u if BITS[u] >= BITS[sg] else sg


def interval_spec(t, a1, b1, a2, b2):
    """what interval_distance computes (see Spec/C06.lean); None outside the guard (a signed difference overflows)"""
    p = PROMOTED[t]
    if b1 <= b2:
        a1, b1, a2, b2 = a2, b2, a1, b1
    parts = [a1 - b2] if a2 <= a1 else [b2 - b1, a1 - a2]
    if p[0] == "i":
        if any(not lo(p) <= d <= hi(p) for d in parts):
            return None
        return str(wrap(t, max(parts)))
    return str(wrap(t, max(wrap(p, d) for d in parts)))


def spec(f, t, args):
    """Exact mathematical result under the property's guard; None = outside the guard (anything goes)."""
    inr = lambda ty, v: lo(ty) <= v <= hi(ty)
    if f == "truncation_check_bool":
        return ("some %d" % args[0]) if 0 <= args[0] <= 1 else "none"
    if f in ("size", "to_signed", "to_unsigned"):
        return str(wrap(t[0], args[0]))
    if f in ("safe_numeric", "promote_int"):
        return str(args[0])
    if f == "divmix":
        c = common(t[0], t[1])
        a, b = wrap(c, args[0]), wrap(c, args[1])
        if args[1] == 0:
            return "none"
        q = tdiv(a, b)
        return ("some %d" % q) if inr(c, q) else None
    if f == "interval_distance":
        if t in ("i32", "i64") and any(not lo(t) <= x - y <= hi(t) for x in args for y in args):
            return "guard"      # the harness does not call the function there
        return interval_spec(t, *args)
    if f == "mask_c":
        return str(t[1])
    if f == "shifted_mask_c":
        return str(1 << t[1])
    if f == "truncation_check":
        d, s = t
        return ("some %d" % args[0]) if inr(d, args[0]) else "none"
    if f == "from_int":
        x, size = args
        return ("some %d" % x) if x < size else "none"
    a = args[0]
    b = args[1] if len(args) > 1 else None
    if f in ("ceil_div", "ceil_div_signed"):
        if b == 0:
            return "none"
        q = -((-a) // b)
        return ("some %d" % q) if inr(t, q) else None
    if f == "div":
        if b == 0:
            return "none"
        q = tdiv(a, b)
        return ("some %d" % q) if inr(PROMOTED[t], q) else None
    if f == "mod":
        return "none" if b == 0 else "some %d" % (a % b)
    if f == "diff":
        d = abs(a - b)
        return str(d) if inr(t, d) else None
    if f == "clamp":
        v, l, h = args
        return "none" if l > h else "some %d" % max(l, min(h, v))
    if f == "is_power_of_2":
        return "1" if a > 0 and a & (a - 1) == 0 else "0"
    if f == "log2":
        return str(a.bit_length() - 1) if a > 0 else None
    if f == "next_power_of_2":
        p = 1
        while p < a:
            p *= 2
        return str(p) if inr(t, p) else None
    if f in ("power_of_2", "shifted_mask"):
        return str(1 << a) if a < BITS[t] else None
    if f == "bit_test":
        return "1" if a & b else "0"
    return None


def parse_name(name):
    import re
    m = re.fullmatch(r"truncation_check_([a-z0-9]+)_([a-z0-9]+)", name)
    if m and m.group(1) == "b":
        return "truncation_check_bool", m.group(2)
    if m and m.group(2) == "b":
        return "none", None
    if m and (m.group(1) in CANON or m.group(2) in CANON):
        return "truncation_check", (CANON.get(m.group(1), m.group(1)), CANON.get(m.group(2), m.group(2)))
    for f in ("truncation_check", "from_int", "size", "safe_numeric"):
        m = re.fullmatch(f + r"_([ui]\d+)_([ui]\d+)", name)
        if m:
            return f, (m.group(1), m.group(2))
    m = re.fullmatch(r"div_([ui]\d+)_([ui]\d+)", name)
    if m:
        return "divmix", (m.group(1), m.group(2))
    m = re.fullmatch(r"(mask_c|shifted_mask_c)_(u\d+)_(\d+)", name)
    if m:
        return m.group(1), (m.group(2), int(m.group(3)))
    m = re.fullmatch(r"to_signed_(u\d+)", name)
    if m:
        return "to_signed", ("i" + m.group(1)[1:],)
    m = re.fullmatch(r"to_unsigned_(i\d+)", name)
    if m:
        return "to_unsigned", ("u" + m.group(1)[1:],)
    f, t = name.rsplit("_", 1)
    return f, t


def search(binp, rng, tier):
    """Harness against the independent oracle above, over the small exhaustive domains and the lattices."""
    ops = []
    for d in ALL:
        for s in ALL:
            vs = range(lo(s), hi(s) + 1) if BITS[s] == 8 else lattice(s) + [rng.range(lo(s), hi(s)) for _ in range(30)]
            ops += [f"call truncation_check_{d}_{s} {v}" for v in vs]
    for u in (ENUM_UNDER if on("ENUM2") else UNS):
        for v in UNS:
            for s in FROM_INT_SIZES[u]:
                ops += [f"call from_int_{u}_{v} {x} {s}" for x in lattice(v, extra=[s - 1, s, s + 1, 256, 257, 65536, 65537]) if x >= 0]
    for t in UNS:
        vs = range(0, 256) if t == "u8" else lattice(t)
        for f in ("is_power_of_2", "next_power_of_2", "log2"):
            ops += [f"call {f}_{t} {v}" for v in vs]
        ops += [f"call {f}_{t} {e}" for f in ("power_of_2", "shifted_mask") for e in range(0, BITS[t])]
    for f, ts in [("mod", UNS), ("diff", ALL), ("div", ["u32", "i32", "u64", "i64"]), ("ceil_div", ["u32", "u64"]),
                  ("ceil_div_signed", ["i32", "i64"]), ("bit_test", UNS)]:
        for t in ts:
            vs = lattice(t) if BITS[t] > 8 else list(range(lo(t), hi(t) + 1, 3))
            vs = [v for v in vs if abs(v) < 40 or v in (lo(t), hi(t), lo(t) + 1, hi(t) - 1) or (abs(v) & (abs(v) - 1)) == 0][:60]
            ops += [f"call {f}_{t} {a} {b}" for a in vs for b in vs]
    for t in ALL:
        vs = [lo(t), lo(t) + 1, -1, 0, 1, 5, hi(t) - 1, hi(t)]
        vs = [v for v in vs if lo(t) <= v <= hi(t)]
        ops += [f"call clamp_{t} {a} {b} {c}" for a in vs for b in vs for c in vs]
    for st in (ALL if on("BOOL") else []):
        ops += [f"call truncation_check_b_{st} {v}" for v in (range(lo(st), hi(st) + 1) if BITS[st] == 8 else lattice(st))]
    # second generation
    pick = lambda t: lattice(t) if BITS[t] > 8 else list(range(lo(t), hi(t) + 1))
    few = lambda t: [v for v in pick(t) if abs(v) < 40 or v in (lo(t), hi(t), lo(t) + 1, hi(t) - 1) or (abs(v) & (abs(v) - 1)) == 0 or ((abs(v) + 1) & abs(v)) == 0][:90]
    for grp in ((UNS, SIG) if on("CASTS") else ()):
        for d in grp:
            for s in grp:
                ops += [f"call size_{d}_{s} {v}" for v in pick(s)]
                if BITS[d] >= BITS[s]:
                    ops += [f"call safe_numeric_{d}_{s} {v}" for v in pick(s)]
    for t in (ALL if on("CASTS") else []):
        ops += [f"call promote_int_{t} {v}" for v in pick(t)]
        ops += [f"call {'to_signed' if t[0] == 'u' else 'to_unsigned'}_{t} {v}" for v in pick(t)]
    for t in (("u8", "i8", "u16", "i16") if on("DIV2") else ()):
        ops += [f"call div_{t} {a} {b}" for a in few(t) for b in few(t)]
    for t in (("i8", "i16") if on("DIV2") else ()):
        ops += [f"call ceil_div_signed_{t} {a} {b}" for a in few(t) for b in few(t)]
    for l, r in (DIV_MIXED if on("DIV2") else []):
        ops += [f"call div_{l}_{r} {a} {b}" for a in few(l) for b in few(r)]
    for t in (ALL if on("INTERVAL") else []):
        vs = small(t) + ([3, 4, 7] if t[0] == "u" else [-5, 3, 4])
        vs = sorted(set(v for v in vs if lo(t) <= v <= hi(t)))
        ops += [f"call interval_distance_{t} {a} {b} {c} {d}" for a in vs for b in vs for c in vs for d in vs]
    if on("MASKS"):
        ops += [f"call mask_c_{t}_{m}" for t in UNS for m in MASK_C[t]] + [f"call shifted_mask_c_{t}_{b}" for t in UNS for b in SHIFTED_MASK_C[t]]
    out, deaths = run_harness(binp, ops)
    for op, got in zip(ops, out):
        tk = op.split()
        f, t = parse_name(tk[1])
        args = [int(x) for x in tk[2:]]
        try:
            want = spec(f, t, args)
        except Exception:
            want = None
        if want is not None and got != want:
            return {"kind": "input", "batch": "spec-oracle-search", "batch_kind": "stateless", "ops": [op], "expected": [want], "observed": [got],
                    "what": f"{op}: the implementation returns {got!r}, the exact result is {want!r}"}
    return None


MANIFEST = {
    "level_text": ("Machine-checked proof (Lean 4) about definitions that are *regenerated from the C++ source on every run* (clang AST of the "
                   "instantiated templates -> Lean): truncation_check for all 64 (destination, source) pairs of the 8 fixed-width types and "
                   "for bool destinations, enum_::from_int (24 instantiations incl. enums over int / signed char), ceil_div, ceil_div_signed "
                   "(8..64 bit, all sign combinations), div (all widths and mixed operand types), mod, clamp, diff, log2, "
                   "power_of_2, shifted_mask, mask_c, shifted_mask_c, bit::test, is_power_of_2, next_power_of_2 return exactly the "
                   "mathematical result whenever it is representable and never fault; zero divisor / empty interval give none; the unchecked "
                   "casts size / to_signed / to_unsigned are the modular conversion, safe_numeric / promote_int the identity; "
                   "interval_distance equals an explicit closed form; 66 corollaries relate the helpers to each other. A code change alters the generated "
                   "definitions and the kernel re-checks every theorem; the generated definitions are additionally run against the real "
                   "templates (exhaustive 8/16-bit domains, lattices, the squares named in the property)."),
    "level_note": ("Trusted: Lean kernel + propext/Classical.choice/Quot.sound; tools/cxx2lean.py and the C++ integer semantics in "
                   "Prelude/CInt.lean (validated by the exhaustive correspondence, not proved); a handful of library primitives built into "
                   "the translator; clang-14's AST. No sorry/axiom/native_decide."),
    "technique": "Lean 4 proof over a model translated from the source on every run + exhaustive differential correspondence",
    "design_ref": "DESIGN.md §5 C06, §2.3 (T)",
}
