"""C04 — optional / either / variant combinators satisfy their algebraic specification."""
import itertools

from vlib.runner import Batch

ID = "C04"
LEAN_PROPS = ["FcpptProofs.Props.C04"]
HARNESS = {"src": "harness/c04.cpp", "repo_srcs": ["libs/core/src/type_name.cpp", "libs/core/src/type_name_from_index.cpp"]}
TIE = ("hand-written model (FcpptModel/Model/C04.lean: every combinator with its has_value/has_success/holds_type test and "
       "get_unsafe, continuations in a state+fault monad) + differential correspondence against the real templates")
RULE = ("one op = one call of one combinator on values over D={0,1,2} with continuations given as complete function tables; "
        "both sides print the result and the ordered log of continuation calls with their arguments. Exhaustive over all "
        "optionals/eithers/variants, all value categories (L non-const lvalue, C const lvalue, R rvalue), all unary function "
        "tables (27 D->D, 64 D->optional D, 216 D->either, 8 D->bool), all containers up to length 4; all 3^9 binary tables via "
        "`all9` digests (every input and category, both tiers); 27- and 81-entry tables sampled. Systematic batches for what "
        "single-operation batches cannot see: a different value category per argument, one object as both operands, "
        "continuations returning references, continuations that throw (table entry X), self-assignment / self-move / "
        "self-swap, containers of length 5..13, other container types. The whole public API of optional/, either/, variant/ "
        "and monad/ is an operation (125 kinds); a generated line the model rejects or an operation kind no batch generates "
        "is a violation. weight(all9 line)=19683. Non-trivial = a continuation was called or the result is not the empty optional.")
ASSUMPTIONS = [
    "fcppt::optional::object<T> = Option T; either::object<F,S> = two-constructor sum; variant::object<Ts...> = (index, value of that type), or `none` for the valueless state, which is reached only through an assignment whose construction throws",
    "references / pointers are names of objects (copy_value, deref, from_pointer, to_pointer, to_optional_ref, dynamic_cast_): the harness checks identity by address and by writing through them",
    "the implicitly defined copy/move members and std::swap of the three classes are those of std::optional / std::variant (modelled as replacement of the whole value)",
    "continuations are deterministic functions of their arguments and their own state (state monad K); exceptions are faults that keep the state",
    "std::visit, std::holds_alternative, std::get_if, std::variant's == and < behave as specified by the C++ standard",
    "parametricity of the templates carries the finite-domain correspondence to all element types (informal, named in DESIGN.md)",
    "fcppt::absurd / get_unsafe on the wrong alternative = Fault.emptyDeref (proved unreachable)",
]
TRUSTED = ["harness/c04.cpp and the line protocol (vh.hpp, Proto.lean)", "g++ 12 + ASan/UBSan as witness for memory safety of the instantiations"]

D = "012"
CATS = ["L", "C", "R"]
OPT = ["N", "J0", "J1", "J2"]
OPTOPT = ["N", "JN", "JJ0", "JJ1", "JJ2"]
EITH = ["F0", "F1", "F2", "S0", "S1", "S2"]
EE = ["F0", "F1", "F2"] + ["S" + e for e in EITH]
VAR = [a + d for a in "ABC" for d in D]
OUTCOMES = ["R0", "R1", "R2", "X0", "X1", "X2", "Z0", "Z1", "Z2", "Y"]


def tables(vals, n=3):
    return ["".join(p) for p in itertools.product(vals, repeat=n)]


T_DD = tables(D)            # 27 functions D -> D
T_DO = tables(OPT)          # 64 functions D -> optional<D>
T_DB = tables("tf")         # 8 predicates
T_DE = tables(EITH)         # 216 functions D -> either<D,D>


def lists(vals, maxlen=4):
    out = []
    for n in range(maxlen + 1):
        out += ["[" + "".join(p) + "]" for p in itertools.product(vals, repeat=n)]
    return out


def rtable(r, vals, n):
    k = r.below(6)
    if k == 0:
        c = r.choice(vals)
        return "".join(c for _ in range(n))
    return "".join(r.choice(vals) for _ in range(n))


_REJECTED = []     # generated lines the model rejected (must stay empty: both sides answering `bad-op` would agree)
_OP_MIX = {}       # operation kind -> number of generated lines


def nontrivial(op, result):
    t = op.split()
    kind = t[1] if t[0] == "all9" else t[0]
    _OP_MIX[kind] = _OP_MIX.get(kind, 0) + 1
    if result == "bad-op":
        _REJECTED.append(op)
    return not (result.endswith("| -") and result.startswith("N "))


def driver_op_kinds():
    """the operation kinds `handle1` of the Lean driver knows, read off its source"""
    import os
    import re
    src = open(os.path.join(os.path.dirname(os.path.dirname(os.path.abspath(__file__))), "lean", "FcpptModel", "Drv", "C04.lean")).read()
    return sorted(set(re.findall(r'^  \| \["([a-z0-9_.]+)"', src, flags=re.M)) - {"all9"})


def extra_checks(binp, rng, tier, ev):
    """not a model/implementation diff: every generated line must be accepted by the model, and every operation kind of
    the driver must have been generated"""
    out = []
    if _REJECTED:
        out.append({"kind": "broken-correspondence",
                    "what": f"{len(_REJECTED)} generated operation line(s) are rejected (bad-op) by the model, e.g. {_REJECTED[:3]}"})
    missing = [k for k in driver_op_kinds() if k not in _OP_MIX]
    if _OP_MIX and missing:
        out.append({"kind": "broken-correspondence", "what": f"operation kinds of the driver that no batch generates: {missing}"})
    ev.setdefault("coverage", {})["op_mix"] = dict(sorted(_OP_MIX.items()))
    return out


def weight(op):
    return 19683 if op.startswith("all9 ") else 1


def refine(op):
    t = op.split()
    if t[0] == "all9":
        rest = t[1:]
        return [" ".join(tb if x == "*" else x for x in rest) for tb in tables(D, 9)]
    return None


def prod(*xs):
    return itertools.product(*xs)


def batches(rng, tier):
    thorough = tier == "thorough"

    # ------------------------------------------------------------------ optional, exhaustive
    ops = []
    ops += [f"o.map {c} {o} {f}" for c, o, f in prod(CATS, OPT, T_DD)]
    ops += [f"o.bind {c} {o} {f}" for c, o, f in prod(CATS, OPT, T_DO)]
    ops += [f"o.mbind {c} {o} {f}" for c, o, f in prod(CATS, OPT, T_DO)]
    ops += [f"o.join {c} {o}" for c, o in prod(CATS, OPTOPT)]
    ops += [f"o.apply1 {c} {o} {f}" for c, o, f in prod(CATS, OPT, T_DD)]
    ops += [f"o.filter {c} {o} {p}" for c, o, p in prod(CATS, OPT, T_DB)]
    ops += [f"o.alt {c} {o} {a}" for c, o, a in prod(CATS, OPT, OPT)]
    ops += [f"o.from {c} {o} {d}" for c, o, d in prod(CATS, OPT, D)]
    ops += [f"o.maybe {c} {o} {d} {t}" for c, o, d, t in prod(CATS, OPT, D, T_DD)]
    ops += [f"o.maybe_void {c} {o}" for c, o in prod(CATS, OPT)]
    ops += [f"o.mm1 {c} {o} {d} {t}" for c, o, d, t in prod(CATS, OPT, D, T_DD)]
    ops += [f"o.make_if {b} {v}" for b, v in prod("tf", D)]
    ops += [f"o.cmp {a} {b}" for a, b in prod(OPT, OPT)]
    yield Batch("optional-unary", ops, exhaustive=True,
                note="map bind monad::bind join apply/1 filter alternative from maybe maybe_void maybe_multi/1 make_if == != <: "
                     "all optionals x all value categories x all function tables")
    lo = lists(OPT)
    ops = [f"o.cat {c} {l}" for c, l in prod(CATS, lo)] + [f"o.seq {c} {l}" for c, l in prod(CATS, lo)]
    yield Batch("optional-containers", ops, exhaustive=True, note="cat, sequence: all vectors of optionals up to length 4 (341) x 3 value categories")

    # laws with nested continuations
    cats = CATS if thorough else [rng.fork("assoc-cat").choice(CATS)]
    ops = [f"o.assoc {c} {o} {f} {g}" for c, o, f, g in prod(cats, OPT, T_DO, T_DO)]
    ops += [f"o.mapcomp {c} {o} {f} {g}" for c, o, f, g in prod(CATS, OPT, T_DD, T_DD)]
    yield Batch("optional-laws", ops, exhaustive=True,
                note=f"bind associativity (both sides, all 64x64 pairs of functions, categories {cats}) and map fusion (27x27, all categories)")

    # ------------------------------------------------------------------ either, exhaustive
    ops = []
    ops += [f"e.match {c} {e} {ff} {fs}" for c, e, ff, fs in prod(CATS, EITH, T_DD, T_DD)]
    ops += [f"e.map {c} {e} {f}" for c, e, f in prod(CATS, EITH, T_DD)]
    ops += [f"e.bind {c} {e} {f}" for c, e, f in prod(CATS, EITH, T_DE)]
    ops += [f"e.mbind {c} {e} {f}" for c, e, f in prod(CATS, EITH, T_DE)]
    ops += [f"e.join {c} {e}" for c, e in prod(CATS, EE)]
    ops += [f"e.apply1 {c} {e} {f}" for c, e, f in prod(CATS, EITH, T_DD)]
    ops += [f"e.mapf {c} {e} {f}" for c, e, f in prod(CATS, EITH, T_DD)]
    ops += [f"e.from_opt {c} {o} {f}" for c, o, f in prod(CATS, OPT, D)]
    ops += [f"e.try {r} {t}" for r, t in prod(OUTCOMES, T_DD)]
    ops += [f"e.sopt {c} {e}" for c, e in prod(CATS, EITH)]
    ops += [f"e.fopt {c} {e}" for c, e in prod(CATS, EITH)]
    yield Batch("either-unary", ops, exhaustive=True,
                note="match map bind monad::bind join apply/1 map_failure from_optional try_call success_opt failure_opt: all eithers x categories x tables")
    le = lists(EITH)
    ops = [f"e.seq R {l}" for l in le] + [f"e.first {l}" for l in le] + [f"e.loop {l}" for l in le]
    yield Batch("either-loop-long", [f"e.looplong {n} {f}" for n in (0, 1, 2, 3, 10, 1000, 100000, 400000) for f in (0, 1, 2)],
                note="either::loop with up to 400000 successes before the failure: the stack depth must not grow with the number of iterations")
    yield Batch("either-containers", ops, exhaustive=True,
                note="sequence (rvalue only: the template rejects lvalues), first_success, loop (queue of next() results; a queue without "
                     "failure ends in the uncaught exception of next): all vectors of eithers up to length 4 (1555)")
    if thorough:
        ops = [f"e.assoc {c} {e} {f} {g}" for c, e, f, g in prod(CATS, EITH, T_DE, T_DE)]
        yield Batch("either-laws", ops, exhaustive=True, note="bind associativity (both sides): all eithers x all 216x216 pairs of functions x all value categories")
    else:
        r = rng.fork("e-assoc")
        ops = [f"e.assoc {r.choice(CATS)} {r.choice(EITH)} {r.choice(T_DE)} {r.choice(T_DE)}" for _ in range(40000)]
        yield Batch("either-laws", ops, note="bind associativity, 40000 sampled (category, either, f, g); exhaustive in the thorough tier")

    # ------------------------------------------------------------------ variant
    ops = []
    ops += [f"v.to_opt {c} {j} {v}" for c, j, v in prod(CATS, D, VAR)]
    ops += [f"v.cmp {a} {b}" for a, b in prod(VAR, VAR)]
    ops += [f"v.holds {j} {v}" for j, v in prod(D, VAR)]
    ops += [f"v.index {v}" for v in VAR]
    # match: all 27^3 triples of functions (thorough); quick: every function for the held alternative, the other two sampled
    rm = rng.fork("vmatch")
    for c, v in prod(CATS, VAR):
        if thorough:
            ops += [f"v.match {c} {v} {fa} {fb} {fc}" for fa, fb, fc in prod(T_DD, T_DD, T_DD)]
        else:
            for f in T_DD:
                for _ in range(4):
                    g, h = rm.choice(T_DD), rm.choice(T_DD)
                    fs = {"A": (f, g, h), "B": (g, f, h), "C": (g, h, f)}[v[0]]
                    ops.append(f"v.match {c} {v} {fs[0]} {fs[1]} {fs[2]}")
    yield Batch("variant-basic", ops, exhaustive=thorough,
                note="to_optional holds_type type_index == != < on all (pairs of) variants and categories; match: "
                     + ("all 27^3 triples of functions" if thorough else "all 27 functions for the held alternative x 4 random pairs for the other two"))
    r = rng.fork("variant")
    ops = []
    special = ["t" * 27, "f" * 27]
    for a, b in prod(VAR, VAR):
        for tb in special + [rtable(r, "tf", 27) for _ in range(20 if thorough else 4)]:
            ops.append(f"v.compare {a} {b} {tb}")
    for c, a, b in prod(CATS, VAR, VAR):
        for _ in range(12 if thorough else 2):
            ops.append(f"v.apply2 {c} {a} {b} {rtable(r, D, 81)}")
    yield Batch("variant-compare-apply2", ops, note="compare with sampled predicates (27-entry tables), binary apply with sampled 81-entry tables, all pairs of variants")

    # ------------------------------------------------------------------ all binary tables (3^9) as digests
    r = rng.fork("all9")
    all9 = []
    all9 += [f"all9 o.apply2 {c} {a} {b} *" for c, a, b in prod(CATS, OPT, OPT)]
    all9 += [f"all9 o.combine {c} {a} {b} *" for c, a, b in prod(CATS, OPT, OPT)]
    all9 += [f"all9 o.mm2 {c} {a} {b} {d} *" for c, a, b, d in prod(CATS, OPT, OPT, D)]
    all9 += [f"all9 e.apply2 {c} {a} {b} *" for c, a, b in prod(CATS, EITH, EITH)]
    all9 += [f"all9 v.apply1 {c} {v} *" for c, v in prod(CATS, VAR)]
    r.shuffle(all9)
    yield Batch("binary-tables-all9", all9, exhaustive=True,
                note="apply/2, combine, maybe_multi/2, either apply/2, variant apply/1 over ALL 19683 tables D x D -> D, every input "
                     "and value category (375 digest lines)")
    # binary ops, every input, sampled tables (so that quick sees every input of these too)
    ops = []
    k = 10 if thorough else 3
    for c, a, b in prod(CATS, OPT, OPT):
        for _ in range(k):
            ops.append(f"o.apply2 {c} {a} {b} {rtable(r, D, 9)}")
            ops.append(f"o.combine {c} {a} {b} {rtable(r, D, 9)}")
            ops.append(f"o.mm2 {c} {a} {b} {r.choice(D)} {rtable(r, D, 9)}")
    for c, a, b in prod(CATS, EITH, EITH):
        for _ in range(k):
            ops.append(f"e.apply2 {c} {a} {b} {rtable(r, D, 9)}")
    for c, v in prod(CATS, VAR):
        for _ in range(k):
            ops.append(f"v.apply1 {c} {v} {rtable(r, D, 9)}")
    # ternary: every input triple, sampled 27-entry tables
    k = 12 if thorough else 2
    for c, a, b, d in prod(CATS, OPT, OPT, OPT):
        for _ in range(k):
            ops.append(f"o.apply3 {c} {a} {b} {d} {rtable(r, D, 27)}")
            ops.append(f"o.mm3 {c} {a} {b} {d} {r.choice(D)} {rtable(r, D, 27)}")
    for c, a, b, d in prod(CATS, EITH, EITH, EITH):
        for _ in range(k):
            ops.append(f"e.apply3 {c} {a} {b} {d} {rtable(r, D, 27)}")
    yield Batch("nary-sampled-tables", ops,
                note="apply/2 combine maybe_multi/2 either-apply/2 variant-apply/1 and the ternary apply/3 maybe_multi/3 either-apply/3: "
                     "every input tuple and value category, sampled function tables")
    yield from blind_spot_batches(rng, tier)
    yield from api_batches(rng, tier)


def with_x(vals, n=3):
    """all tables over vals + X (= the continuation throws there) that contain at least one X"""
    return [t for t in tables(list(vals) + ["X"], n) if "X" in t]


CATS2_MIXED = ["LC", "LR", "CL", "CR", "RL", "RC"]
CATS3 = ["LLL", "CCC", "RRR", "RLL", "LRL", "LLR", "RRL", "RLR", "LRR"]
CATS3_MIXED = CATS3[3:]
LC = ["L", "C"]


def blind_spot_batches(rng, tier):
    """Systematic batches for what the per-operation batches above cannot see (see notes/C04.md, "Blind spots")."""
    thorough = tier == "thorough"
    r = rng.fork("blind")

    # ---- a different value category per argument
    ops = []
    k = 4 if thorough else 2
    for c, a, b in prod(CATS2_MIXED, OPT, OPT):
        for _ in range(k):
            ops.append(f"o.apply2 {c} {a} {b} {rtable(r, D, 9)}")
            ops.append(f"o.combine {c} {a} {b} {rtable(r, D, 9)}")
            ops.append(f"o.mm2 {c} {a} {b} {r.choice(D)} {rtable(r, D, 9)}")
    for c, a, b in prod(CATS2_MIXED, EITH, EITH):
        for _ in range(k):
            ops.append(f"e.apply2 {c} {a} {b} {rtable(r, D, 9)}")
    for c, a, b in prod(CATS2_MIXED, VAR, VAR):
        ops.append(f"v.apply2 {c} {a} {b} {rtable(r, D, 81)}")
    for c, a, b, d in prod(CATS3_MIXED, OPT, OPT, OPT):
        ops.append(f"o.apply3 {c} {a} {b} {d} {rtable(r, D, 27)}")
        ops.append(f"o.mm3 {c} {a} {b} {d} {r.choice(D)} {rtable(r, D, 27)}")
    for c, a, b, d in prod(CATS3_MIXED, EITH, EITH, EITH):
        ops.append(f"e.apply3 {c} {a} {b} {d} {rtable(r, D, 27)}")
    for a, b, d in prod(VAR, VAR, VAR):
        for c in (CATS3 if thorough else [r.choice(CATS3)]):
            ops.append(f"v.apply3 {c} {a} {b} {d} {rtable(r, D, 27)}")
    if thorough:
        for c in ["LR", "RL"]:
            ops += [f"all9 o.apply2 {c} {a} {b} *" for a, b in prod(OPT, OPT)]
            ops += [f"all9 o.combine {c} {a} {b} *" for a, b in prod(OPT, OPT)]
            ops += [f"all9 e.apply2 {c} {a} {b} *" for a, b in prod(EITH, EITH)]
    yield Batch("mixed-value-categories", ops,
                note="apply/2,3 combine maybe_multi/2,3 either-apply/2,3 variant-apply/2,3 with a different value category per argument "
                     "(all 6 mixed pairs, all 6 L/R mixtures of three) on every input tuple, sampled tables: an argument forwarded with "
                     "another argument's category moves out of an lvalue (SRC-MODIFIED) or is seen as 9")

    # ---- the same object as both operands
    ops = []
    for c, o in prod(LC, OPT):
        ops.append(f"all9 o.combine.same {c} {o} *")
        ops.append(f"all9 o.apply2.same {c} {o} *")
        ops += [f"o.mm2.same {c} {o} {d} {rtable(r, D, 9)}" for d in list(D) + ["X"]]
        ops.append(f"o.alt.same {c} {o}")
    ops += [f"o.cmp.same {o}" for o in OPT]
    ops += [f"all9 e.apply2.same {c} {e} *" for c, e in prod(LC, EITH)]
    ops += [f"v.cmp.same {v}" for v in VAR]
    for v in VAR:
        ops += [f"v.compare.same {v} {tb}" for tb in ["t" * 27, "f" * 27] + [rtable(r, "tf", 27) for _ in range(4)]]
    yield Batch("same-object-twice", ops, exhaustive=True,
                note="combine / apply / maybe_multi / alternative / either-apply / == != < / compare with one lvalue object as both "
                     "operands (all 3^9 tables for combine, apply, either-apply)")

    # ---- continuations returning a reference
    ops = [f"o.maybe_ref {c} {o} {d}" for c, o, d in prod(LC, OPT, D)]
    ops += [f"e.match_ref {c} {e}" for c, e in prod(LC, EITH)]
    ops += [f"v.match_ref {c} {v}" for c, v in prod(LC, VAR)]
    ops += [f"v.apply_ref {c} {v}" for c, v in prod(LC, VAR)]
    ops += [f"o.to_exc_ref {c} {o}" for c, o in prod(LC, OPT)]
    ops += [f"e.to_exc_ref {c} {e}" for c, e in prod(LC, EITH)]
    yield Batch("reference-results", ops, exhaustive=True,
                note="maybe / either-match / variant-match / variant-apply with continuations that return a reference to the payload "
                     "of their argument: the result must be the object inside the source (`in:`), not a temporary (`other:` / ASan)")

    # ---- continuations that write through their argument
    ops = [f"o.map.mut {o} {f}" for o, f in prod(OPT, T_DD + with_x(D)[:8])]
    ops += [f"o.bind.mut {o} {f}" for o, f in prod(OPT, T_DO)]
    ops += [f"o.maybe.mut {o} {d} {f}" for o, d, f in prod(OPT, D, T_DD)]
    ops += [f"o.maybe_void.mut {o}" for o in OPT]
    for a, b in prod(OPT, OPT):
        for _ in range(3):
            ops.append(f"o.apply2.mut {a} {b} {rtable(r, D, 9)}")
            ops.append(f"o.mm2.mut {a} {b} {r.choice(D)} {rtable(r, D, 9)}")
    ops += [f"e.map.mut {e} {f}" for e, f in prod(EITH, T_DD)]
    ops += [f"e.bind.mut {e} {f}" for e, f in prod(EITH, T_DE)]
    ops += [f"e.mapf.mut {e} {f}" for e, f in prod(EITH, T_DD)]
    ops += [f"e.match.mut {e} {f} {g}" for e, f, g in prod(EITH, T_DD, T_DD[::5])]
    for a, b in prod(EITH, EITH):
        for _ in range(3):
            ops.append(f"e.apply2.mut {a} {b} {rtable(r, D, 9)}")
    for v in VAR:
        for f in T_DD:
            g, h = r.choice(T_DD), r.choice(T_DD)
            fs = {"A": (f, g, h), "B": (g, f, h), "C": (g, h, f)}[v[0]]
            ops.append(f"v.match.mut {v} {fs[0]} {fs[1]} {fs[2]}")
        ops += [f"v.apply1.mut {v} {rtable(r, D, 9)}" for _ in range(6)]
    yield Batch("writing-continuations", ops,
                note="map bind maybe maybe_void apply/2 maybe_multi/2, either map bind map_failure match apply/2, variant match apply on a "
                     "non-const lvalue with continuations that take `T &` and write through it: the argument must be the object inside "
                     "the source (move_type<Optional &> = T &), so the source shows the new value afterwards")

    # ---- constructors
    ops = [f"o.ctor {c} {v}" for c, v in prod(CATS, D)]
    ops += [f"e.ctor {c} {k} {v}" for c, k, v in prod(CATS, "FS", D)]
    ops += [f"v.ctor {c} {v}" for c, v in prod(CATS, VAR)]
    for kind, vals in (("o", OPT), ("e", EITH), ("v", VAR)):
        ops += [f"{kind}.asg {k} {a} {b}" for k, a, b in prod(["copy", "move", "swap"], vals, vals)]
        ops += [f"{kind}.asg {k} {a} {b}" for k, a, b in prod(["cctor", "mctor"], vals[:1], vals)]
        ops += [f"{kind}.asg {k} {a} {a}" for k, a in prod(["self", "selfmove", "selfswap"], vals)]
    ops += [f"o.assign.own {o}" for o in OPT[1:]]
    yield Batch("constructors", ops, exhaustive=True, note="object_impl.hpp constructors of optional / either / variant from an lvalue, const lvalue, rvalue (an lvalue "
                     "argument is unchanged); the implicitly defined copy/move construction and assignment and std::swap on all pairs "
                     "(the alternative changes), self-assignment, self-move, self-swap; assign(o, move(own content))")

    # ---- containers longer than the exhaustive scope
    def rlist(vals, lo=5, hi=14):
        return "[" + "".join(r.choice(vals) for _ in range(r.range(lo, hi - 1))) + "]"

    def mostly(vals, good, p=6):
        # long runs of `good` elements so that the interesting element is far from the front
        return "[" + "".join(r.choice(good) if r.below(p) else r.choice(vals) for _ in range(r.range(5, 13))) + "]"

    ops = []
    kk = 400 if thorough else 120
    for _ in range(kk):
        c = r.choice(CATS)
        ops.append(f"o.cat {c} {rlist(OPT)}")
        ops.append(f"o.seq {c} {mostly(OPT, OPT[1:])}")
        ops.append(f"o.cat.ld {c} {rlist(OPT)}")
        ops.append(f"o.seq.dl {c} {mostly(OPT, OPT[1:])}")
        ops.append(f"e.seq R {mostly(EITH, EITH[3:])}")
        ops.append(f"e.first {mostly(EITH + ['X'], EITH[:3])}")
        ops.append(f"e.loop {mostly(EITH, EITH[3:])} {r.choice(['uuu', 'uuu', rtable(r, 'uX', 3)])}")
        ops.append(f"e.seq_err {c} {rlist(D)} {rtable(r, ['u', 'u', 'u', '0', '1', '2', 'X'], 3)}")
    yield Batch("long-containers", ops, note="cat sequence either-sequence first_success loop sequence_error on containers of length 5..13 "
                                             "(past the exhaustive scope and past several vector reallocations), sampled")

    # ---- other container types
    lo = lists(OPT)
    ops = [f"o.cat.ld {c} {l}" for c, l in prod(CATS, lo)] + [f"o.seq.dl {c} {l}" for c, l in prod(CATS, lo)]
    yield Batch("other-containers", ops, exhaustive=True, note="cat: std::list -> std::deque, sequence: std::deque -> std::list; all vectors up to length 4 x 3 categories")

    # ---- continuations that throw
    xdd, xdo, xdb, xde = with_x(D), with_x(OPT), with_x("tf"), with_x(EITH)
    ops = []
    ops += [f"o.map {c} {o} {f}" for c, o, f in prod(CATS, OPT, xdd)]
    ops += [f"o.bind {c} {o} {f}" for c, o, f in prod(CATS, OPT, xdo)]
    ops += [f"o.mbind {c} {o} {f}" for c, o, f in prod(CATS, OPT, xdo)]
    ops += [f"o.apply1 {c} {o} {f}" for c, o, f in prod(CATS, OPT, xdd)]
    ops += [f"o.filter {c} {o} {p}" for c, o, p in prod(CATS, OPT, xdb)]
    ops += [f"o.alt {c} {o} X" for c, o in prod(CATS, OPT)]
    ops += [f"o.from {c} {o} X" for c, o in prod(CATS, OPT)]
    dx = list(D) + ["X"]
    tx = tables(dx)
    ops += [f"o.maybe {c} {o} {d} {t}" for c, o, d, t in prod(CATS, OPT, dx, tx) if d == "X" or "X" in t]
    ops += [f"o.mm1 {c} {o} {d} {t}" for c, o, d, t in prod(CATS, OPT, dx, tx) if d == "X" or "X" in t]
    ops += ["o.make_if t X", "o.make_if f X"]
    for c, a, b in prod(CATS + CATS2_MIXED, OPT, OPT):
        ops.append(f"o.apply2 {c} {a} {b} {rtable(r, dx, 9)}")
        ops.append(f"o.combine {c} {a} {b} {rtable(r, dx, 9)}")
        ops.append(f"o.mm2 {c} {a} {b} {r.choice(dx)} {rtable(r, dx, 9)}")
    for c, e, f in prod(CATS, EITH, xdd):
        g = [rtable(r, dx, 3) for _ in range(2)]
        ops += [f"e.match {c} {e} {f} {h}" if e[0] == "F" else f"e.match {c} {e} {h} {f}" for h in g]
        ops.append(f"e.map {c} {e} {f}")
        ops.append(f"e.apply1 {c} {e} {f}")
        ops.append(f"e.mapf {c} {e} {f}")
    ops += [f"e.bind {c} {e} {f}" for c, e, f in prod(CATS, EITH, xde)]
    ops += [f"e.mbind {c} {e} {f}" for c, e, f in prod(CATS, EITH, xde)]
    for c, a, b in prod(CATS + CATS2_MIXED, EITH, EITH):
        ops.append(f"e.apply2 {c} {a} {b} {rtable(r, dx, 9)}")
    ops += [f"e.from_opt {c} {o} X" for c, o in prod(CATS, OPT)]
    ops += [f"e.try {o} {t}" for o, t in prod(OUTCOMES, xdd)]
    ex = EITH + ["X"]
    ops += [f"e.first {l}" for l in lists(ex, 4) if "X" in l]
    ops += [f"e.loop {l} {b}" for l, b in prod(lists(EITH, 3), with_x("u"))]
    for c, v, f in prod(CATS, VAR, xdd):
        g, h = rtable(r, dx, 3), rtable(r, dx, 3)
        fs = {"A": (f, g, h), "B": (g, f, h), "C": (g, h, f)}[v[0]]
        ops.append(f"v.match {c} {v} {fs[0]} {fs[1]} {fs[2]}")
        ops.append(f"v.apply1 {c} {v} {rtable(r, dx, 9)}")
    for a, b in prod(VAR, VAR):
        ops.append(f"v.compare {a} {b} {rtable(r, 'tfX', 27)}")
    yield Batch("throwing-continuations", ops,
                note="every operation with a continuation, with tables / thunks in which some entries throw: the exception leaves the "
                     "combinator, the calls made up to then are the model's, and an lvalue source is unchanged afterwards; "
                     "exhaustive for the unary operations (all tables over D+{throw} with a throwing entry), first_success on all "
                     "lists <= 4 with throwing functions, loop with a throwing body")


REFS = ["N", "J&0", "J&1", "J&2"]
PTRS = ["P-", "P&0", "P&1", "P&2"]
DYN_LISTS = ["1", "2", "12", "21", "32", "123", "231", "321"]


def api_batches(rng, tier):
    """The public optional / either / variant / monad API outside the anchor list."""
    thorough = tier == "thorough"
    r = rng.fork("api")
    cells = tables(D)
    dx = list(D) + ["X"]

    ops = []
    ops += [f"o.to_cont {c} {o}" for c, o in prod(CATS, OPT)]
    ops += [f"o.copy_value {c} {o} {cs}" for c, o, cs in prod(LC, REFS, cells)]
    ops += [f"o.deref {k} {o} {cs}" for k, o, cs in prod("pi", REFS, cells)]
    ops += [f"o.deref_up {o}" for o in OPT]
    ops += [f"o.mvm1 {c} {o}" for c, o in prod(CATS, OPT)]
    ops += [f"o.mvm2 {c} {a} {b}" for c, a, b in prod(CATS + CATS2_MIXED, OPT, OPT)]
    ops += [f"o.mvm3 {c} {a} {b} {d}" for c, a, b, d in prod(CATS3, OPT, OPT, OPT)]
    ops += [f"o.assign {o} {v}" for o, v in prod(OPT, D)]
    ops += [f"o.set {o} {v}" for o, v in prod(OPT[1:], D)]
    ops += [f"o.from_ptr {p} {cs}" for p, cs in prod(PTRS, cells)]
    ops += [f"o.to_ptr {o} {cs}" for o, cs in prod(REFS, cells)]
    ops += [f"o.to_exc {c} {o}" for c, o in prod(CATS, OPT)]
    ops += [f"o.make {c} {v}" for c, v in prod(CATS, D)]
    ops += [f"o.out {o}" for o in OPT]
    ops += ["o.nothing"]
    yield Batch("api-optional", ops, exhaustive=True,
                note="to_container copy_value deref (pointer, iterator, unique_ptr) maybe_void_multi/1,2,3 assign get_unsafe-write "
                     "from_pointer to_pointer to_exception make operator<< nothing: all optionals / references into all 27 cell "
                     "contents x value categories (mixed ones for maybe_void_multi)")

    ops = []
    ops += [f"e.cmp {a} {b}" for a, b in prod(EITH, EITH)]
    ops += [f"e.cmp.same {a}" for a in EITH]
    ops += [f"e.construct {b} {sv} {fv}" for b, sv, fv in prod("tf", dx, dx)]
    ops += [f"e.err_from_opt {c} {o}" for c, o in prod(CATS, OPT)]
    ops += [f"e.mk_fail {c} {v}" for c, v in prod(CATS, D)]
    ops += [f"e.mk_succ {c} {v}" for c, v in prod(CATS, D)]
    ops += [f"e.out {e}" for e in EITH]
    ops += [f"e.to_exc {c} {e}" for c, e in prod(CATS, EITH)]
    ops += [f"e.set {e} {v}" for e, v in prod(EITH, D)]
    ftab = tables(["u"] + dx)
    ops += [f"e.seq_err {c} {l} {f}" for c, l, f in prod(CATS, lists(D), ftab)]
    yield Batch("api-either", ops, exhaustive=True,
                note="== != (all 36 pairs, and an object with itself) construct error_from_optional make_failure make_success "
                     "operator<< to_exception get_*_unsafe-write; sequence_error on all vectors over D up to length 4 x all 125 "
                     "functions D -> {success, failure 0..2, throws} x 3 value categories")

    ops = []
    ops += [f"v.to_opt_ref {c} {j} {v} {nv}" for c, j, v, nv in prod(LC, D, VAR, D)]
    ops += [f"v.get {v} {nv}" for v, nv in prod(VAR, D)]
    ops += [f"v.out {v}" for v in VAR]
    ops += [f"v.tinfo {v}" for v in VAR]
    ops += [f"v.dyn L {l} {d}" for l, d in prod(DYN_LISTS, "0123")]
    ops += [f"v.dyn C {l} {d}" for l, d in prod(["12", "21"], "0123")]
    yield Batch("api-variant", ops, exhaustive=True,
                note="to_optional_ref (written through for non-const) free get_unsafe (read, written) operator<< type_info "
                     "current_type_name is_invalid; dynamic_cast_ with 8 type lists (all orders of a base and its derived class) "
                     "x 4 dynamic types, const flavour")

    v2 = ["A0", "A1", "A2", "T", "V"]
    ops = [f"vv.assign {d} {s_} f" for d, s_ in prod(v2, v2)] + [f"vv.assign {d} T t" for d in v2]
    ops += [f"vv.obs {v} {k}" for v, k in prod(v2, ["invalid", "index", "holds", "to_opt", "to_opt_ref", "apply", "match", "tinfo", "out"])]
    ops += [f"vv.cmp {a} {b}" for a, b in prod(v2, v2)]
    ops += [f"vv.compare {a} {b} {x}" for a, b, x in prod(v2, v2, "tf")]
    yield Batch("valueless-variant", ops, exhaustive=True,
                note="variant<A, thrower>: assignment whose copy construction throws leaves the target valueless (is_invalid); every "
                     "observer / visitor / comparison on valid and valueless operands, recovery by assignment")

    ops = []
    cats = CATS if thorough else [r.choice(CATS)]
    ops += [f"m.chain2.o {c} {o} {f} {g}" for c, o, f, g in prod(cats, OPT, T_DO, T_DO)]
    if thorough:
        ops += [f"m.chain2.e {c} {e} {f} {g}" for c, e, f, g in prod(CATS, EITH, T_DE, T_DE)]
    else:
        ops += [f"m.chain2.e {r.choice(CATS)} {r.choice(EITH)} {r.choice(T_DE)} {r.choice(T_DE)}" for _ in range(20000)]
    ops += [f"m.chain0.o {c} {o}" for c, o in prod(CATS, OPT)]
    ox = OPT + ["X"]
    ex = EITH + ["X"]
    for c, o, f in prod(CATS, OPT, T_DO):
        for _ in range(6 if thorough else 2):
            ops.append(f"m.do3.o {c} {o} {f} {rtable(r, OPT, 9)}")
    for c, e, f in prod(CATS, EITH, T_DE):
        for _ in range(4 if thorough else 1):
            ops.append(f"m.do3.e {c} {e} {f} {rtable(r, EITH, 9)}")
    for c, o in prod(CATS, OPT):
        for _ in range(20):
            ops.append(f"m.chain2.o {c} {o} {rtable(r, ox, 3)} {rtable(r, ox, 3)}")
            ops.append(f"m.do3.o {c} {o} {rtable(r, ox, 3)} {rtable(r, ox, 9)}")
    for c, e in prod(CATS, EITH):
        for _ in range(20):
            ops.append(f"m.chain2.e {c} {e} {rtable(r, ex, 3)} {rtable(r, ex, 3)}")
            ops.append(f"m.do3.e {c} {e} {rtable(r, ex, 3)} {rtable(r, ex, 9)}")
    ops += [f"m.ret.o {v}" for v in D] + [f"m.ret.e {v}" for v in D]
    yield Batch("api-monad", ops,
                note="monad::chain (optional: all 64x64 pairs of functions; either: sampled, all 6x216x216x3 in the thorough tier), "
                     "chain without lambdas, monad::do_ with a binary second lambda (all first functions, sampled 9-entry tables), "
                     "tables with throwing entries, return_")


MANIFEST = {
    "level_text": ("Machine-checked proof (Lean 4) over an executable model that transcribes every optional/either/variant combinator with "
                   "its has_value/has_success/holds_type test and get_unsafe, continuations being arbitrary computations in a state+fault "
                   "monad: functor/monad/applicative laws, branch selection with exactly-once invocation (as equations between effectful "
                   "computations), documented results of filter/alternative/combine/cat/sequence/first_success/loop/try_call, and "
                   "unreachability of get_unsafe on the wrong alternative, for all types, values, continuations and container lengths; "
                   "also the rest of the public API (to_container, copy_value, deref, maybe_void_multi, assign, from/to_pointer, "
                   "to_exception, operator<<, either ==, construct, error_from_optional, sequence_error, to_optional_ref, "
                   "dynamic_cast_, the valueless state, monad::chain / do_ / return_). "
                   "The model is tied to the code by a differential correspondence over D={0,1,2} that is exhaustive over all values, value "
                   "categories (also mixed per argument), unary function tables, containers up to length 4, all 3^9 binary tables, "
                   "aliased operands, throwing continuations, reference-returning continuations and every public member."),
    "level_note": ("Trusted: Lean kernel + propext/Classical.choice/Quot.sound; the hand-written model's fidelity outside the exercised "
                   "inputs (parametricity is the informal bridge from D to all types); harness and line protocol; std::variant/std::visit. "
                   "No sorry/axiom/native_decide."),
    "technique": "Lean 4 proof over hand-written executable model + exhaustive differential correspondence (ASan/UBSan harness)",
    "design_ref": "DESIGN.md §5 C04",
}
