"""C18 — ranges and iterators enumerate exactly their documented sequence."""
from vlib.runner import Batch

ID = "C18"
LEAN_PROPS = ["FcpptProofs.Props.C18"]
HARNESS = {"src": "harness/c18.cpp"}
TIE = ("hand-written model (FcpptModel/Model/C18.lean, mirrors int_range/int_iterator, enum range/iterator, cyclic_iterator, "
       "spiral_iterator/range, neighbours, iterator::range/adapt_range/range_comparison, iterator::base operators, range::size/empty/singular/from_pair) "
       "+ differential correspondence against the real templates")
RULE = ("irs ty b: digest over all 256 values e of the elements/size()/range::size lines of make_int_range(b, e) for the 8-bit types "
        "(plain and strong typedef) - all (b, e) pairs; ir/irc: boundary lattice pairs and near-boundary random pairs of the 16/32/64-bit "
        "types; er/ers/era: every (start, end) pair of enums with 1..9 enumerators over six underlying types; cyc: every boundary of "
        "length 1..6 (whole container and embedded), every start offset, every k in [-20,20] (advance vs |k| single steps, + += - -= k+it, "
        "distance), plus large |k|; cycw: random walks of ++ -- it++ it-- += -= [] on vector and list; sp: spiral ranges of distance "
        "0..9 (thorough 0..12), 49, 50 from origins near 0, random and near the type limits; nb: neighbour arrays; itr/adr: every "
        "sub-range of containers up to length 6 / whole containers; mirc: the static count lists. "
        "Every public member: iits/iit, eit (int_iterator / enum iterator used directly: == != * it++ swap, all 65536 8-bit pairs), itris/itri "
        "(iterator::range over int_iterators, no clamp), erd (enum range constructed directly), cycp (two cyclic iterators at every position "
        "incl. outside / at the end of the boundary, empty and different boundaries: == != < > <= >= a-b, self comparison, get, get_boundary, ->, "
        "member / free / self swap, copy), cycx (every one- and two-step walk from every position), cycl (steps up to the limits of ptrdiff_t), "
        "cycd (default constructor), cycc (converting constructor / assignment), spi (spiral_iterator directly, past end(), swap), sp at "
        "exactly d+1 from the limits of int / long, itrc (range comparison); every ir / er / itr / adr line also carries *begin(), *end(), "
        "range::empty, range::singular. Undefined behaviour that the model names (signed-overflow, div-zero) is really executed in a few "
        "lines per run and must be reported by UBSan. "
        "An op is non-trivial if its result is not bad-op and the range is not empty; distinct = distinct op lines.")
ASSUMPTIONS = [
    "fixed-width integer semantics of LP64 g++: rank below int promotes (bits < 32), conversions wrap modulo 2^bits, unsigned arithmetic is modular, "
    "int/long overflow is undefined (model: Fault.signedOverflow)",
    "a strong_typedef<T> behaves as T for ++, <, ==, undecorate (that transparency is property C17)",
    "std::vector / std::list iterators = indices into a list; std::distance / std::next / std::prev by their standard meaning",
    "spiral over int / long coordinates: every arithmetic operation of increment / end() is checked against the type (overflow = fault); "
    "narrower coordinate types are not instantiated",
    "cyclic_iterator: container iterators are positions; positions outside the boundary and empty boundaries are modelled as the code behaves "
    "(the property speaks about non-empty boundaries with the start inside)",
    "enum = (number of enumerators, width of size_type); enumerator = its value",
]
TRUSTED = ["harness/c18.cpp and the digest/line protocol (vh.hpp, Proto.lean)",
           "g++ 12 + ASan/UBSan as witness for memory safety and absence of UB in the exercised instantiations"]

T8 = ["i8", "u8", "si8", "su8"]
BITS = {"i8": (True, 8), "u8": (False, 8), "i16": (True, 16), "u16": (False, 16), "i32": (True, 32), "u32": (False, 32),
        "i64": (True, 64), "u64": (False, 64), "si8": (True, 8), "su8": (False, 8), "si32": (True, 32), "su32": (False, 32),
        "si16": (True, 16), "su16": (False, 16), "si64": (True, 64), "su64": (False, 64)}
WIDE = ["i16", "u16", "i32", "u32", "i64", "u64", "si32", "su32", "si16", "su16", "si64", "su64"]
I64_MAX = (1 << 63) - 1
I64_MIN = -(1 << 63)
ENUMS = {1: 32, 2: 8, 3: 32, 4: 8, 5: 16, 6: 32, 7: 64, 8: 16, 9: 8}


def lo_hi(ty):
    s, b = BITS[ty]
    return (-(1 << (b - 1)), (1 << (b - 1)) - 1) if s else (0, (1 << b) - 1)


def nontrivial(op, result):
    if result == "bad-op":
        return False
    return not result.startswith("n=0 ")


DIGESTS = {"irs": "ir", "iits": "iit", "itris": "itri"}


def weight(op):
    if op.split(" ", 1)[0] in DIGESTS:
        return 1 << BITS[op.split()[1]][1]
    return 1


def refine(op):
    t = op.split()
    if t[0] in DIGESTS:
        lo, hi = lo_hi(t[1])
        return [f"{DIGESTS[t[0]]} {t[1]} {t[2]} {e}" for e in range(lo, hi + 1)]
    return None


def equivalent(op, impl, model):
    # undefined behaviour really executed: UBSan's report (the harness dies on that line) is the model's fault.
    #  irub: size() where end_ - begin_ overflows int/long;  cycl: it + k / it - k overflowing ptrdiff_t;
    #  sp: a spiral range leaving the coordinate type;  nb: neighbours of a position on the edge of int / long;
    #  cycx: advance on an empty boundary (% 0)
    kind = op.split(" ", 1)[0]
    if kind in ("irub", "cycl", "sp", "nb") and model == "signed-overflow":
        return impl.startswith("CRASH(") and ("overflow" in impl or "cannot be represented" in impl)
    if kind == "cycx" and (model == "div-zero" or model.endswith(",div-zero")):
        return impl.startswith("CRASH(") and "division by zero" in impl
    return False


def lattice(ty):
    lo, hi = lo_hi(ty)
    _, b = BITS[ty]
    vals = {lo, lo + 1, lo + 2, hi, hi - 1, hi - 2, 0, 1, 2, 3, 100, 299, 300, 301}
    if lo < 0:
        vals |= {-1, -2, -3, -100, -300, -301, hi // 2, lo // 2, hi // 2 + 1}
    else:
        vals |= {hi // 2, hi // 2 + 1, hi // 2 - 1}
    for k in (7, 8, 15, 16, 31, 32, 63):
        if k < b:
            for d in (-1, 0, 1):
                vals.add((1 << k) + d)
                if lo < 0:
                    vals.add(-(1 << k) + d)
    return sorted(v for v in vals if lo <= v <= hi)


def batches(rng, tier):
    thorough = tier == "thorough"

    # 1. all (begin, end) pairs of the 8-bit types
    for ty in T8:
        lo, hi = lo_hi(ty)
        ops = [f"irs {ty} {b}" for b in range(lo, hi + 1)]
        yield Batch(f"int-range-all-pairs-{ty}", ops, exhaustive=True,
                    note=f"make_int_range({ty}) for all 65536 (begin, end) pairs: elements, size(), range::size")
    # make_int_range_count for every count of the 8-bit types
    ops = [f"irc {ty} {n}" for ty in T8 for n in range(lo_hi(ty)[0], lo_hi(ty)[1] + 1)]
    yield Batch("int-range-count-8bit", ops, exhaustive=True, note="make_int_range_count(n) for every n of the 8-bit types")

    # 1b. 16-bit types: every end value for a set of begin values (quick: 6 per type; thorough: lattice + random, 48 per type)
    r = rng.fork("irs16")
    ops = []
    for ty in ("i16", "u16"):
        lo, hi = lo_hi(ty)
        if thorough:
            bs = set(lattice(ty))
            while len(bs) < 48:
                bs.add(r.range(lo, hi))
        else:
            bs = {lo, hi, hi - 150, 0 if lo == 0 else -1, r.range(lo, hi), r.range(lo, hi)}
        ops += [f"irs {ty} {b}" for b in sorted(bs)]
    yield Batch("int-range-16bit-all-ends", ops, note="16-bit types: all 65536 end values for a set of begin values (boundaries + random)")

    # 2. wider types: boundary lattice pairs + near-boundary random pairs + counts
    r = rng.fork("wide")
    ops = []
    for ty in WIDE:
        lat = lattice(ty)
        lo, hi = lo_hi(ty)
        for b in lat:
            for e in lat:
                ops.append(f"ir {ty} {b} {e}")
        for n in lat:
            ops.append(f"irc {ty} {n}")
        for _ in range(3000 if thorough else 300):
            k = r.below(4)
            if k == 0:      # short range ending at the maximum
                e = hi - r.below(3)
                b = e - r.below(310)
            elif k == 1:    # short range starting at the minimum
                b = lo + r.below(3)
                e = b + r.below(310)
            elif k == 2:    # anywhere, short or inverted
                b = r.range(lo, hi)
                e = b + r.range(-5, 305)
            else:           # arbitrary pair
                b, e = r.range(lo, hi), r.range(lo, hi)
            b, e = max(lo, min(hi, b)), max(lo, min(hi, e))
            ops.append(f"ir {ty} {b} {e}")
    yield Batch("int-range-wide-boundaries", ops, note="16/32/64-bit and strong-typedef types: all pairs of the boundary lattice, near-boundary random pairs, counts")

    # 3. the real size() call where the element count is not representable in int / long (undefined: UBSan must report it)
    yield Batch("int-range-size-overflow", ["irub i32 -2147483648 2147483647", "irub i64 -2 9223372036854775807", "irub i32 -1 2147483647",
                                            "irub i32 0 2147483647", "irub i8 -128 127"],
                note="size() of a range whose count exceeds the signed type: model says signed-overflow (int/long) or the wrapped value (narrow)")

    # 4. enum ranges: every (start, end) pair (sub-ranges start <= end, the empty ones start = end+1, and inverted ones, which
    #    the model mirrors although the property does not speak about them), make_range_start, make_range
    ops = []
    for n, w in ENUMS.items():
        for s in range(n):
            for e in range(n):
                ops.append(f"er {n} {w} {s} {e}")
            ops.append(f"ers {n} {w} {s}")
        ops.append(f"era {n} {w}")
    ops.append("era 256 8")
    ops.append("ers 256 8 250")
    ops.append("er 256 8 3 7")
    yield Batch("enum-ranges-all", ops, exhaustive=True, note="all (start, end) pairs of enums with 1..9 enumerators; 256 enumerators over uint8 as the size_type boundary")

    # 5. cyclic iterator: all boundaries of length 1..6, all start offsets, all k in [-20, 20]
    ops = []
    for ln in range(1, 7):
        for (L, f) in ((ln, 0), (ln + 3, 1), (ln + 3, 3), (ln + 2, 2)):
            s = f + ln
            for start in range(f, s):
                for k in range(-20, 21):
                    ops.append(f"cyc {L} {f} {s} {start} {k}")
    yield Batch("cyclic-advance-all", ops, exhaustive=True,
                note="boundary lengths 1..6 (whole container and embedded sub-range), every start, every k in [-20,20]: advance vs |k| single steps")
    if True:
        ops = []
        for ln in range(1, 13):
            for f in (0, 2):
                for start in range(f, f + ln):
                    for k in range(-60, 61):
                        ops.append(f"cyc {f + ln + 1} {f} {f + ln} {start} {k}")
        yield Batch("cyclic-advance-all-wider", ops, exhaustive=True, note="boundary lengths 1..12, every start, every k in [-60,60]")
    ops = []
    for ln in (13, 16, 17, 31, 32, 33, 63, 64):
        for f in ((0, 64 - ln) if ln < 64 else (0,)):
            for off in sorted({0, 1, ln // 2, ln - 2, ln - 1}):
                for k in sorted({-2 * ln - 1, -ln - 1, -ln, -ln + 1, -off - 1, -off, -1, 0, 1, ln - off - 1, ln - off, ln - 1, ln, ln + 1, 2 * ln, 3 * ln + 2}):
                    ops.append(f"cyc 64 {f} {f + ln} {f + off} {k}")
    yield Batch("cyclic-advance-long-boundaries", ops, exhaustive=True,
                note="boundary lengths 13 .. 64 (at both ends of the container), offsets at the ends and the middle, step counts around every wrap point")
    r = rng.fork("cycbig")
    ops = []
    for _ in range(3000 if thorough else 500):
        ln = r.range(1, 12)
        f = r.below(4)
        L = f + ln + r.below(3)
        start = f + r.below(ln)
        k = r.choice([ln * r.range(-1000, 1000), r.range(-10 ** 6, 10 ** 6), r.range(-60, 60), ln * r.range(-9, 9) + r.choice([-1, 1])])
        # the harness walks |k| single steps: keep it bounded
        k = max(-200000, min(200000, k))
        ops.append(f"cyc {L} {f} {f + ln} {start} {k}")
    yield Batch("cyclic-advance-large", ops, note="boundary lengths 1..12, large and wrap-around-multiple step counts")

    # 6. cyclic walks
    r = rng.fork("cycw")
    ops = []
    for _ in range(8000 if thorough else 1500):
        kind = r.choice(["v", "l"])
        ln = r.range(1, 7)
        f = r.below(3)
        L = f + ln + r.below(3)
        start = f + r.below(ln)
        steps = []
        for _ in range(r.range(1, 24)):
            c = r.below(10 if kind == "v" else 6)
            if c < 6:
                steps.append(r.choice(["+", "-", "p", "m", "+", "-"]))
            else:
                steps.append(r.choice(["a", "s", "i"]) + str(r.range(-25, 25)))
        ops.append(f"cycw {kind} {L} {f} {f + ln} {start} " + " ".join(steps))
    yield Batch("cyclic-walks", ops, note="random walks of ++ -- it++ it-- (vector and list) and += -= [] (vector)")

    # 7. spiral
    r = rng.fork("spiral")
    ops = []
    dists = list(range(0, 13 if thorough else 10))
    for ty, big in (("i32", 2 ** 31 - 1 - 20000), ("i64", 2 ** 63 - 1 - 20000)):
        origins = [(0, 0), (5, 5), (-3, 7), (1, -1), (big, big), (-big, -big), (big, -big), (0, -big), (-big, 0)]
        for _ in range(40 if thorough else 4):
            origins.append((r.range(-10 ** 6, 10 ** 6), r.range(-10 ** 6, 10 ** 6)))
            origins.append((r.range(-big, big), r.range(-big, big)))
        for (x, y) in origins:
            for d in dists:
                ops.append(f"sp {ty} {x} {y} {d}")
    ops += ["sp i32 0 0 49", "sp i32 7 -9 50", "sp i64 100 -100 20"]
    # negative distances (the documentation is silent; the model mirrors the code): end() lies above the origin and is met on ring |d| + 1 ... or never
    for ty in ("i32", "i64"):
        for (x, y) in ((0, 0), (3, 3), (-7, 2)):
            for d in list(range(-9, 0)) + [-50]:
                ops.append(f"sp {ty} {x} {y} {d}")
    yield Batch("spiral-ranges", ops, exhaustive=True,
                note=f"make_spiral_range for every distance in {dists[0]}..{dists[-1]} from origins near 0, random, and near the limits of int / long")

    # 8. neighbours
    r = rng.fork("nb")
    ops = []
    for ty in ("i32", "i64", "u32", "u64"):
        lo, hi = lo_hi(ty)
        pts = [(0, 0), (1, 1), (5, 3), (hi - 1, hi - 1), (hi - 1, 1), (2, hi - 1)]
        if lo < 0:
            pts += [(lo + 1, lo + 1), (-1, -1), (-1, 0), (0, -1), (lo + 1, hi - 1)]
        else:
            pts += [(0, hi), (hi, 0), (hi, hi), (0, 1), (1, 0)]     # unsigned arithmetic wraps: defined, mirrored
        for _ in range(60 if thorough else 12):
            pts.append((r.range(lo + 1, hi - 1), r.range(lo + 1, hi - 1)))
        ops += [f"nb {ty} {x} {y}" for (x, y) in pts]
    yield Batch("neighbours", ops, note="neumann_neighbors / moore_neighbors at origin, random and boundary positions")

    yield Batch("neighbours-overflow", ["nb i32 -2147483648 0", "nb i64 0 9223372036854775807", "nb i32 5 2147483647", "nb i64 -9223372036854775808 -9223372036854775808"],
                note="a position on the edge of int / long: x - 1 / x + 1 overflows (undefined; UBSan's report = the model's signed-overflow)")

    # 9. iterator::range / make_range / adapt_range / range::size
    ops = []
    for kind in ("v", "l"):
        for L in range(0, 7):
            for i in range(L + 1):
                for j in range(i, L + 1):
                    ops.append(f"itr {kind} {L} {i} {j}")
        for L in list(range(0, 10)) + [64, 256]:
            ops.append(f"adr {kind} {L}")
    ops += ["itr v 256 0 256", "itr l 200 13 190", "itr v 256 255 256"]
    yield Batch("iterator-ranges", ops, exhaustive=True, note="every sub-range [i, j) of vectors / lists up to length 6; adapt_range of whole containers")

    # 10. math::int_range_count
    yield Batch("static-int-range-count", [f"mirc {n}" for n in (0, 1, 2, 3, 5, 8, 16)] +
                [f"mir {a} {b}" for (a, b) in ((0, 0), (0, 3), (1, 2), (2, 5), (3, 3), (5, 16), (15, 16))], exhaustive=True,
                note="math::int_range_count<N>, math::int_range<A, B>")

    # 11. int_iterator used directly: == != (all pairs, same object), *, it++, member / free / self swap
    for ty in T8:
        lo, hi = lo_hi(ty)
        yield Batch(f"int-iterator-all-pairs-{ty}", [f"iits {ty} {a}" for a in range(lo, hi + 1)], exhaustive=True,
                    note=f"int_iterator<{ty}>: == != * it++ swap for all 65536 pairs of values")
    ops = []
    for ty in WIDE:
        lo, hi = lo_hi(ty)
        small = sorted({lo, lo + 1, hi - 1, hi, 0, 1, hi // 2, lo // 2 if lo < 0 else 2})
        for a in small:
            for b in small:
                ops.append(f"iit {ty} {a} {b}")
    yield Batch("int-iterator-wide", ops, exhaustive=True, note="int_iterator over 16/32/64-bit and strong-typedef types: all pairs of the limits, 0, 1, the middle")

    # 12. iterator::range over int_iterators (no clamp: an inverted pair runs through the wrap-around of narrow / unsigned types)
    for ty in ("i8", "u8", "su8"):
        lo, hi = lo_hi(ty)
        yield Batch(f"iterator-range-of-int-iterators-{ty}", [f"itris {ty} {b}" for b in range(lo, hi + 1)], exhaustive=True,
                    note=f"iterator::make_range(int_iterator<{ty}>(b), int_iterator<{ty}>(e)) for all 65536 pairs")
    ops = []
    for ty in WIDE:
        lat = lattice(ty)
        for b in lat:
            for e in lat:
                if e >= b or not (BITS[ty][0] and BITS[ty][1] >= 32):
                    ops.append(f"itri {ty} {b} {e}")
    yield Batch("iterator-range-of-int-iterators-wide", ops, note="the same for the boundary lattice of the wider types (inverted pairs only where ++ wraps)")

    # 13. enum_::iterator used directly and enum_::range constructed directly from two size_type values
    ops = []
    for n, w in list(ENUMS.items()) + [(256, 8)]:
        top = min(n, (1 << w) - 1)
        vals = range(top + 1) if n <= 9 else [0, 1, 2, 127, 128, 254, 255]
        for a in vals:
            for b in vals:
                ops.append(f"eit {n} {w} {a} {b}")
                if a <= b or n <= 4:
                    ops.append(f"erd {n} {w} {a} {b}")
    yield Batch("enum-iterator-all-pairs", ops, exhaustive=True,
                note="enum_::iterator: == != * it++ swap for all pairs of positions 0..n; enum_::range(b, e) for all b <= e <= n")

    # 14. cyclic iterator, every public member on pairs of iterators: positions anywhere in the container (inside, at the end
    #     of / outside the boundary), empty boundaries, different boundaries, the same object on both sides
    ops = []
    L = 4
    for f1 in range(L + 1):
        for s1 in range(f1, L + 1):
            for i in range(L + 1):
                for f2 in range(L + 1):
                    for s2 in range(f2, L + 1):
                        for j in range(L + 1):
                            ops.append(f"cycp {L} {f1} {s1} {i} {f2} {s2} {j}")
    L = 7
    for f in range(L + 1):
        for s_ in range(f, L + 1):
            for i in range(L + 1):
                for j in range(L + 1):
                    ops.append(f"cycp {L} {f} {s_} {i} {f} {s_} {j}")
    yield Batch("cyclic-pairs-all", ops, exhaustive=True,
                note="container of 4: every (boundary, position) x (boundary, position); container of 7: every boundary x every two positions: "
                     "== != < > <= >= a-b, self comparison, get, get_boundary, ->, swap (member, free, self), copy construction / assignment")

    # 15. walks from arbitrary positions (outside / at the end of the boundary, empty boundary)
    ops = []
    L = 7
    for f in range(1, L):
        for s_ in range(f, L):
            for i in range(1, L):
                for o in "+-pm":
                    ops.append(f"cycx v {L} {f} {s_} {i} {o}")
                    ops.append(f"cycx l {L} {f} {s_} {i} {o}")
                if f < s_:
                    for k in range(-4, 5):
                        for o in "asi":
                            ops.append(f"cycx v {L} {f} {s_} {i} {o}{k}")
    L = 8
    for f in range(2, L - 1):
        for s_ in range(f, L - 1):
            for i in range(2, L - 1):
                for o1 in "+-pm":
                    for o2 in "+-pm":
                        ops.append(f"cycx {'v' if (f + s_ + i) % 2 else 'l'} {L} {f} {s_} {i} {o1} {o2}")
                if f < s_:
                    for k in (-3, 0, 1, 5):
                        ops.append(f"cycx v {L} {f} {s_} {i} a{k} +")
                        ops.append(f"cycx v {L} {f} {s_} {i} - s{k}")
    r = rng.fork("cycx")
    for _ in range(2000 if thorough else 300):
        n = r.range(3, 6)
        L = r.range(2 * n + 1, 2 * n + 6)
        f = r.range(n, L - n)
        s_ = r.range(f, L - n)
        i = r.range(n, L - n)
        kind = r.choice(["v", "l"])
        steps = []
        for _ in range(n):
            if kind == "v" and f < s_ and r.below(3) == 0:
                steps.append(r.choice(["a", "s", "i"]) + str(r.range(-9, 9)))
            else:
                steps.append(r.choice(["+", "-", "p", "m"]))
        ops.append(f"cycx {kind} {L} {f} {s_} {i} " + " ".join(steps))
    yield Batch("cyclic-walks-from-anywhere", ops, exhaustive=True,
                note="every boundary f <= s (also empty) and every start position of a container of 7 / 8: every single operation, every two-step "
                     "sequence of ++ -- it++ it--, += -= [] from outside; random longer walks")
    yield Batch("cyclic-empty-boundary-advance", ["cycx v 8 3 3 3 a2", "cycx v 8 4 4 2 + s1", "cycx v 8 2 2 5 i0"],
                note="advance on an empty boundary divides by zero (UBSan's report = the model's div-zero)")

    # 16. it + k / it - k in the arithmetic of ptrdiff_t, k up to the limits
    ops = []
    for ln in (1, 2, 3, 5, 7):
        for f in (0, 2):
            for off in sorted({0, 1, ln - 1, ln // 2}):
                if off >= ln:
                    continue
                ks = {I64_MAX - off, I64_MAX - off - 1, I64_MIN + 1, -I64_MAX, I64_MIN + ln, 1 << 31, (1 << 31) - 1, -(1 << 31), -(1 << 31) - 1, 1 << 32, (1 << 32) + 1,
                      -(1 << 32), 1 << 62, -(1 << 62), (1 << 33) * ln, (1 << 33) * ln + 1, -(1 << 33) * ln - 1, 10 ** 18, -10 ** 18 + 7, 0, 1, -1}
                for k in sorted(ks):
                    ops.append(f"cycl {f + ln + 1} {f} {f + ln} {f + off} + {k}")
                    ops.append(f"cycl {f + ln + 1} {f} {f + ln} {f + off} - {-k}")
                if off == 0:
                    ops.append(f"cycl {f + ln + 1} {f} {f + ln} {f} + {I64_MIN}")
    r = rng.fork("cycl")
    for _ in range(1500 if thorough else 300):
        ln = r.range(1, 9)
        f = r.below(3)
        off = r.below(ln)
        k = r.range(I64_MIN + 1, I64_MAX - off)
        ops.append(f"cycl {f + ln + 1} {f} {f + ln} {f + off} {r.choice(['+', '-'])} {k if r.below(2) else -k}")
    yield Batch("cyclic-advance-64bit", ops, note="advance by step counts up to the limits of ptrdiff_t (no intermediate overflow): + += k+it and - -=")
    yield Batch("cyclic-advance-overflow", [f"cycl 5 1 4 2 + {I64_MAX}", f"cycl 5 1 4 1 - {I64_MIN}", f"cycl 4 0 3 2 + {I64_MAX - 1}"],
                note="distance(first, it) + n overflows / -n overflows: undefined, UBSan's report = the model's signed-overflow")

    # 17. default constructor, assignment
    ops = [f"cycd {k} {L} {i} {f} {s_}" for k in "vl" for L in (0, 3) for f in range(L + 1) for s_ in range(f, L + 1) for i in range(L + 1)]
    yield Batch("cyclic-default-ctor", ops, exhaustive=True, note="cyclic_iterator(): value-initialised iterator and boundary; assignment from a real iterator")

    # 17b. converting constructor / assignment (iterator -> const_iterator), then advance on the converted iterator
    ops = []
    L = 5
    for kind in "vl":
        for f in range(L):
            for s_ in range(f + 1, L + 1):
                for i in range(f, s_):
                    for (f2, s2, j) in ((0, 0, 0), (1, 4, 2), (f, s_, i), (0, L, L)):
                        for k in (-7, -1, 0, 1, 2, 6, 11):
                            ops.append(f"cycc {kind} {L} {f} {s_} {i} {f2} {s2} {j} {k}")
    yield Batch("cyclic-converting-ctor-assign", ops, exhaustive=True,
                note="every boundary / position of a container of 5: cyclic_iterator<const_iterator>{cyclic_iterator<iterator>}, converting assignment into a "
                     "default-constructed and over an existing iterator, OtherIterator = same type; the converted iterator advanced by k; source and copy independent")

    # 18. spiral_iterator used directly
    r = rng.fork("spi")
    ops = []
    for ty, big in (("i32", 2 ** 31 - 1 - 20000), ("i64", 2 ** 63 - 1 - 20000)):
        origins = [(0, 0), (3, -4), (big, -big), (-big, big), (r.range(-big, big), r.range(-big, big))]
        for (x, y) in origins:
            for d in range(0, 7):
                for n in sorted({0, 1, 2, 2 * d * (d + 1), 2 * d * (d + 1) + 1, 2 * d * (d + 1) + 4, 100}):
                    ops.append(f"spi {ty} {x} {y} {d} {n}")
            for d in (-1, -2, -3, -4, -5, -8, -100):
                ops.append(f"spi {ty} {x} {y} {d} 30")
            ops.append(f"spi {ty} {x} {y} 9 300")
    yield Batch("spiral-iterator-direct", ops, exhaustive=True,
                note="spiral_iterator(pos, d): n steps alternating ++it / it++ (also past end()), the step at which it == end(), == with another max_dist, swap")

    # 19. spiral ranges touching the limits of the coordinate type: the box of radius d + 1 around the origin must fit
    ops = []
    for ty in ("i32", "i64"):
        lo, hi = lo_hi(ty)
        for d in (0, 1, 2, 5):
            m = d + 1
            for (x, y) in ((hi - m, 0), (lo + m, 0), (0, hi - m), (0, lo + m), (hi - m, hi - m), (lo + m, lo + m), (hi - m, lo + m), (lo + m, hi - m),
                           (hi - m - 1, lo + m + 1)):
                ops.append(f"sp {ty} {x} {y} {d}")
    yield Batch("spiral-at-type-limits", ops, exhaustive=True, note="origins exactly d + 1 away from the limits of int / long: the whole walk (incl. the step onto end()) fits")
    yield Batch("spiral-overflow", ["sp i32 2147483647 0 1", "sp i32 0 -2147483647 1", "sp i64 -9223372036854775808 5 0", "sp i32 3 2147483646 1",
                                    "sp i64 9223372036854775805 0 2"],
                note="origins closer than d + 1 to a limit: end() or a step overflows int / long (undefined; UBSan's report = the model's signed-overflow)")

    # 20. iterator::range comparison, begin(), end()
    ops = []
    for kind in ("v", "l"):
        for L in (0, 1, 4):
            for i in range(L + 1):
                for j in range(i, L + 1):
                    for k in range(L + 1):
                        for m in range(k, L + 1):
                            ops.append(f"itrc {kind} {L} {i} {j} {k} {m}")
    yield Batch("iterator-range-comparison", ops, exhaustive=True, note="operator== / != of every two sub-ranges of containers of length 0, 1, 4")


MANIFEST = {
    "level_text": ("Machine-checked proof (Lean 4) over an executable model that mirrors int_range/int_iterator (constructor clamp, ++ with "
                   "explicit promotion / wrap-around / signed overflow, size()), enum ranges, cyclic_iterator (truncating %), the spiral "
                   "iterator's direction/step state machine, the neighbour helpers and iterator::range: for every integer width and "
                   "signedness the elements are b..e-1 and size() is the count when representable; enum sub-ranges are s..e; advance by n "
                   "equals |n| single steps and stays in the boundary for every boundary length >= 1; the spiral range of distance D equals "
                   "the closed-form ring sequence, which contains every lattice point within Manhattan distance D exactly once in rings of "
                   "non-decreasing distance. Tied to the code by a differential correspondence that is exhaustive over all 8-bit (begin,end) "
                   "pairs, all enum sub-ranges up to 9 enumerators, all cyclic boundaries 1..6 x offsets x steps in [-20,20] and spiral "
                   "distances 0..6."),
    "level_note": ("Trusted: Lean kernel + propext/Classical.choice/Quot.sound; the hand-written model's fidelity outside the exercised inputs; "
                   "harness and digest protocol; strong typedefs assumed transparent (C17); grid coordinates assumed not to overflow. "
                   "No sorry/axiom/native_decide."),
    "technique": "Lean 4 proof over hand-written executable model + exhaustive differential correspondence (ASan/UBSan harness)",
    "design_ref": "DESIGN.md §5 C18, Appendix A.5",
}
