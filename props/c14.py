"""C14 — vector, dim and matrix arithmetic obeys the exact ring and module laws."""
from vlib.runner import Batch

ID = "C14"
LEAN_PROPS = ["FcpptProofs.Props.C14"]
# -g1: line tables only — the harness instantiates several thousand templates and full debug info doubles its build time
# second translation unit (member operators): compiled in parallel with the first.  vlib/harness.py joins every entry of
# repo_srcs to the fcppt tree with os.path.join, which leaves an absolute path as it is.
import os as _os
_HDIR = _os.path.join(_os.path.dirname(_os.path.dirname(_os.path.abspath(__file__))), "harness")
HARNESS = {"src": "harness/c14.cpp", "repo_srcs": [_os.path.join(_HDIR, "c14_member.cpp"), _os.path.join(_HDIR, "c14_extra.cpp")], "flags": ["-g1"]}
TIE = ("hand-written model (FcpptModel/Model/C14.lean: row-major storage, index_absolute / row-view index arithmetic, every "
       "operator as the init/fold the header writes) + differential correspondence against the real templates on long scalars, "
       "static storage, row views and a buffer-view storage; the harness additionally recomputes every result naively on plain arrays. "
       "Member operators (+= -= *= =, scalar *=, writes through element / row references) are modelled as in-place updates of a memory "
       "(FcpptModel/Model/C14/Member.lean) with operands that are references into it, and run on worlds in which every object can alias "
       "every other (same object, rows of one matrix, overlapping views, scalar = element of the target)")
RULE = ("trios M a b: digest over all 256 2x2 matrices C over {-1,0,1,2} of (AB)C, A(BC), A(B+C), AB+AC, (A+B)C, AC+BC for the 2x2 "
        "matrices number a, b; all 65536 (a,b) = all 256^3 triples (static storage, both tiers; buffer-view storage: thorough all, "
        "quick a seeded sample of pairs). pairs M a: digest over all b of AB, (AB)^T, B^T A^T, A+B, A-B, det(AB), det A, det B, ==. "
        "sq: determinant, adjugate, A adj A, adj A A, inverse, identity for every 2x2 matrix and random 1x1..4x4 with entries in [-9,9]. "
        "mat/mul/mv/del/vec/cross/builders/bits: seeded random matrices (1x1 .. 4x4, 2x3, 3x2, 3x4, 4x3, 1x4, 4x1) and vectors/dims of "
        "dimension 1-4 with entries in [-9,9] in every instantiated storage combination. vecs/crs/sqs/mvs: digests of the vec / cross / sq / mv "
        "lines over a full small domain (all pairs of vectors and dims over {-1,0,1,2}, all 3x3 over {-1,0,1}, all 2x3 x 3-vectors). "
        "mem/mems: member operators on a world (static vectors A B, static matrices M P, a buffer with mutable / read-only views of vectors, "
        "matrices and rows): every statement target x operand x operator (+= -= *= = ctor, scalar *= with every element of every object, set), "
        "digest over all a in {-1,0,1,2}^C and a set of b; the result of a line is every cell of the world afterwards. nb/md/tp/inf: vector o dim, "
        "contents, is_quadratic, to_dim, to_vector, unit, mod, ceil_div_signed, transform_point/direction, infinity_norm. "
        "evaluations = matrix triples / pairs / single "
        "operand tuples; an op is non-trivial unless all its operands are zero; distinct = distinct op lines.")
ASSUMPTIONS = [
    "scalars are exact integers: the C++ side uses long with |entries| <= 1000 (asserted by harness and driver), so no result overflows; UBSan would report one",
    "fcppt::array::object<T,N> / init / map / apply / push_back are index-wise (Vector.ofFn); fcppt::algorithm::fold / all_of over int_range_count<N> visit 0..N-1 in order",
    "std::lexicographical_compare by its standard specification; integer / truncates towards zero (Int.tdiv)",
    "a math object is its storage: static_storage, matrix::detail::row_view (offset = index * columns) and a buffer view are read only through operator[] below storage_size",
    "objects in memory: a static storage is its array of cells, a view refers to cells of another object; fcppt::algorithm::loop over int_range_count<N> runs 0..N-1 in order; "
    "a by-value parameter is copied at the call; the implicit copy assignment of a class copies its members (row_view: reference + offset)",
]
TRUSTED = ["harness/c14.cpp, c14_member.cpp, c14_extra.cpp (incl. their buffer-view storages const_view / mut_view and the naive reference computations) and the digest/line protocol (vh.hpp, Proto.lean)",
           "Mathlib v4.33: Matrix, det, adjugate, mulVec, dotProduct, crossProduct and the theorems about them used in FcpptProofs/C14",
           "g++ 12 + ASan/UBSan as witness for memory safety / absence of overflow of the instantiations on the exercised inputs"]

MAT_SHAPES = [(1, 1), (2, 2), (3, 3), (4, 4), (2, 3), (3, 2), (3, 4), (4, 3), (1, 4), (4, 1)]
MAT_VIEWS = {(2, 2), (2, 3), (3, 3), (4, 4)}
MUL_SHAPES = [(1, 1, 1), (2, 2, 2), (3, 3, 3), (4, 4, 4), (2, 3, 2), (3, 2, 3), (2, 3, 4), (3, 4, 2), (1, 4, 1), (4, 1, 4), (1, 2, 3), (4, 3, 1)]
MUL_VIEWS = {(2, 2, 2), (2, 3, 4), (3, 3, 3)}
MV_SHAPES = [(1, 1), (2, 2), (3, 3), (4, 4), (2, 3), (3, 2), (3, 4), (4, 3)]
MV_VIEWS = {(2, 3), (3, 3), (4, 4)}
DEL_SHAPES = [(1, 1), (2, 2), (3, 3), (4, 4), (2, 3), (3, 2), (3, 4), (4, 3)]
DEL_VIEWS = {(3, 3), (3, 4)}


def vs(v):
    return ",".join(str(x) for x in v) if v else "-"


def decode2(a):
    return [((a >> (2 * k)) & 3) - 1 for k in range(4)]


def rvec(r, n, lo=-9, hi=9):
    k = r.below(10)
    if k == 0:
        return [0] * n
    if k == 1:
        return [r.choice([lo, hi, 0, 1, -1]) for _ in range(n)]
    return [r.range(lo, hi) for _ in range(n)]


# ---------------------------------------------------------------- member operators (ops mem / mems)
MEM_SHAPES_V = [(3, 1), (3, 2), (3, 3), (3, 4), (2, 2), (2, 3), (4, 4), (1, 1)]
MEM_SHAPES_D = [(3, 1), (3, 2), (3, 3), (3, 4)]


def enum_a(c, idx):
    return [((idx >> (2 * j)) & 3) - 1 for j in range(c)]


def enum_bq(c, idx):
    return [2 if (idx >> j) & 1 else -1 for j in range(c)]


def derive_ma(r, a, b):
    rows = [a, b, [x + 2 * y + 3 for x, y in zip(a, b)], [2 * x - y - 5 for x, y in zip(a, b)]]
    return [e for row in rows[:r] for e in row]


def derive_mb(r, a, b):
    return [10 * (i + 1) + j + y - x for i in range(r) for j, (x, y) in enumerate(zip(a, b))]


def enum_bs(c, idx):
    return [2 if (j + idx) % 2 else -1 for j in range(c)]


def mems_count(c, e):
    return 4 ** c * (4 ** c if (e == "f" or c <= 2) else 2 ** c if e == "q" else 2)


def mems_refine(t):
    fam, r, c, e = t[1], int(t[2]), int(t[3]), t[4]
    allb = e == "f" or c <= 2
    out = []
    for ia in range(4 ** c):
        for ib in range(4 ** c if allb else 2 ** c if e == "q" else 2):
            a = enum_a(c, ia)
            b = enum_a(c, ib) if allb else enum_bq(c, ib) if e == "q" else enum_bs(c, ib)
            out.append(f"mem {fam} {r} {c} {vs(a)} {vs(b)} {vs(derive_ma(r, a, b))} {vs(derive_mb(r, a, b))} " + " ".join(t[5:]))
    return out


def vec_objects(fam, r, c, targets):
    """descriptors of the vector-like objects of the world (fam, r, c): the mutable ones (targets) or all operands"""
    k = r * c
    if fam == "d":
        mut = ["A", "B", "U1", f"U{1 + c}"]
        return mut[:1] + mut[2:] if targets else mut + ["U0", "U2", "C1", f"C{1 + c}"]
    mut = ["A", "B"] + [f"M{i}" for i in range(r)] + [f"P{r - 1}", "U1", f"U{1 + c}"] + [f"Q1.{i}" for i in range(r)]
    if targets:
        return [d for d in mut if d != "B"]
    return mut + [f"N{i}" for i in range(r)] + ["P0", "U0", "U2", "C0", "C1", f"C{1 + c}", f"Q{1 + k}.0", "Q0.0", f"Q2.{r - 1}"]


def mat_objects(r, c, targets):
    k = r * c
    mut = ["M", "P", "V1", f"V{1 + k}"]
    return [d for d in mut if d != "P"] if targets else mut + ["V0", "V2", "W1", f"W{1 + k}", "W0"]


def scalar_args(fam, r, c):
    """every way a scalar argument can refer into the world, and independent values"""
    out = ["k0", "k1", "k-1", "k2", "k-3"]
    for d in dict.fromkeys(vec_objects(fam, r, c, False)):
        out += [f"@{d}.{i}" for i in range(c)]
    if fam == "v":
        k = r * c
        for d in ("M", "P", "V1", f"V{1 + k}", "V0", "W2"):
            out += [f"@{d}.{i}" for i in sorted({0, 1, c - 1, c, k // 2, k - 2, k - 1} & set(range(k)))]
    return list(dict.fromkeys(out))


def member_patterns(fam, r, c, full):
    """single statements: every target x every operand x every operator (full), or the matrix-level / row-level core"""
    pats = []
    vt, vo = vec_objects(fam, r, c, True), list(dict.fromkeys(vec_objects(fam, r, c, False)))
    if not full:
        vt = [d for d in vt if d in ("A", "M0", f"M{r - 1}", "U1", "Q1.0")]
        vo = [d for d in vo if d in ("A", "B", "M0", f"M{r - 1}", "N0", "U0", "U1", "U2", "C1", "Q1.0", f"Q1.{r - 1}")]
    for t in vt:
        for x in vo:
            for op in ("add", "sub", "mul", "asg") + (("ctor",) if c <= 3 else ()):
                pats.append(f"{t} {op} {x}")
        for x in scalar_args(fam, r, c):
            if full or x[0] == "k" or x.startswith("@" + t + ".") or x.startswith("@M.") or x.startswith("@A."):
                pats.append(f"{t} smul {x}")
    if fam == "v":
        for t in mat_objects(r, c, True):
            for x in mat_objects(r, c, False):
                for op in ("add", "sub", "asg", "ctor"):
                    pats.append(f"{t} {op} {x}")
            for x in scalar_args(fam, r, c):
                pats.append(f"{t} smul {x}")
    return pats


def random_stmt(rr, fam, r, c):
    k = r * c
    if fam == "v" and rr.chance(1, 4):
        t = rr.choice(mat_objects(r, c, True) + ["P"])
        op = rr.choice(["add", "sub", "asg", "ctor", "smul", "smul", "set"])
        if op == "smul":
            return f"{t} smul {rr.choice(scalar_args(fam, r, c))}" if rr.chance(2, 3) else f"{t} smul k{rr.range(-9, 9)}"
        if op == "set":
            return f"{t} set {rr.below(k + 1)}:{rr.range(-9, 9)}"
        return f"{t} {op} {rr.choice(mat_objects(r, c, False) + [f'V{rr.below(k + 3)}'])}"
    t = rr.choice(vec_objects(fam, r, c, True) + ["B"])
    op = rr.choice(["add", "sub", "mul", "asg", "ctor", "smul", "smul", "set"])
    if op == "smul":
        return f"{t} smul {rr.choice(scalar_args(fam, r, c))}" if rr.chance(2, 3) else f"{t} smul k{rr.range(-9, 9)}"
    if op == "set":
        return f"{t} set {rr.below(c + 1)}:{rr.range(-9, 9)}"
    return f"{t} {op} {rr.choice(vec_objects(fam, r, c, False) + [f'U{rr.below(2 * k + 3 - c)}'])}"


def systematic_batches(rng, thorough):
    """all pairs over a small domain for the observers that were only run on random operands"""
    r = rng.fork("systematic")
    ops = []
    for n in (1, 2, 3, 4):
        for kind, modes in (("v", ["ss", "rr", "bb"] + (["sr", "rb", "bs"] if n in (2, 3) else [])), ("d", ["ss", "bb"] + (["sb"] if n in (2, 3) else []))):
            for lr in modes:
                ias = range(4 ** n) if (thorough or n < 4) else sorted({r.below(256) for _ in range(32)} | {0, 85, 255})
                ops += [f"vecs {kind} {lr} {n} {ia}" for ia in ias]
    yield Batch("vec-all-pairs", ops, exhaustive=thorough,
                note="every operator / comparison / cast of the vec line on ALL pairs of vectors and dims over {-1,0,1,2}, dimension 1-3 "
                     "(dimension 4: all 65536 pairs thorough, 35 x 256 quick), every storage combination")
    ops = [f"crs {lr} {ia}" for lr in ("ss", "rr", "bb", "sr", "rb", "bs") for ia in range(64)]
    yield Batch("cross-all-pairs", ops, exhaustive=True, note="cross, dot, Lagrange identity on all 4096 pairs of 3-vectors over {-1,0,1,2}, six storage combinations")
    ops = [f"sqs s {a}" for a in range(81)] + [f"sqs b {a}" for a in (range(81) if thorough else sorted({r.below(81) for _ in range(20)}))]
    yield Batch("3x3-all-trits", ops, exhaustive=thorough, note="determinant, adjugate, A adj A, adj A A, inverse of ALL 19683 3x3 matrices over {-1,0,1} (static; buffer view: all thorough, sample quick)")
    ops = [f"mvs s s {a}" for a in range(4096)]
    for mm, vm in (("s", "b"), ("s", "r"), ("b", "s"), ("b", "b"), ("b", "r")):
        ops += [f"mvs {mm} {vm} {a}" for a in (range(4096) if thorough else sorted({r.below(4096) for _ in range(200)}))]
    yield Batch("mv-2x3-all", ops, exhaustive=thorough, note="matrix * vector for ALL 2x3 matrices and 3-vectors over {-1,0,1,2} (static; other storage combinations: all thorough, sample quick)")
    # == / != of matrices that differ in exactly one entry, every position, every shape
    ops = []
    for (rr, cc) in MAT_SHAPES:
        a = [r.range(-9, 9) for _ in range(rr * cc)]
        for pos in range(rr * cc):
            b = list(a)
            b[pos] += r.choice([-1, 1])
            for lr in (["ss", "bb", "sb"] if (rr, cc) in MAT_VIEWS else ["ss"]):
                ops.append(f"mat {lr} {rr} {cc} {vs(a)} {vs(b)} {r.range(-9, 9)} {pos // cc} {pos % cc}")
    yield Batch("mat-one-entry-differs", ops, note="matrix == != + - on operands that differ in exactly one entry, every position of every shape")
    # delete_row_and_column at every (row, column) of every shape; signed permutation matrices (det = +-1: sign and index errors of
    # determinant / adjugate / inverse show on them)
    import itertools
    ops = []
    for (rr, cc) in DEL_SHAPES:
        for dr in range(rr):
            for dc in range(cc):
                for m in ("sb" if (rr, cc) in DEL_VIEWS else "s"):
                    ops.append(f"del {m} {rr} {cc} {dr} {dc} {vs([10 * i + j + 1 for i in range(rr) for j in range(cc)])}")
                    ops.append(f"del {m} {rr} {cc} {dr} {dc} {vs(rvec(r, rr * cc))}")
    for n in (2, 3, 4):
        for perm in itertools.permutations(range(n)):
            for signs in ([1] * n, [(-1) ** i for i in range(n)], [-1] + [1] * (n - 1), [r.choice([-1, 1]) for _ in range(n)]):
                flat = [signs[i] if perm[i] == j else 0 for i in range(n) for j in range(n)]
                ops.append(f"sq {'sb'[(sum(perm) + len(ops)) % 2]} {n} {vs(flat)}")
    yield Batch("del-all-positions-permutations", ops, note="delete_row_and_column at every position of every shape; all signed permutation matrices 2x2, 3x3, 4x4 (unimodular: inverse exact)")


def neighbour_batches(rng, thorough):
    r = rng.fork("neighbour")
    modes = ["ss", "rs", "bs", "sb", "rb", "bb"]
    ops = []
    for n in (1, 2, 3):
        for ia in range(4 ** n):
            for ib in range(4 ** n):
                for lr in (modes if n < 3 else [modes[(ia + ib) % 6]]):
                    ops.append(f"nb {lr} {n} {vs(enum_a(n, ia))} {vs(enum_a(n, ib))} {(ia + ib) % (n + 1)}")
    for _ in range(10000 if thorough else 2000):
        n = r.range(1, 4)
        a = rvec(r, n) if r.chance(1, 2) else [r.range(-1, 2) for _ in range(n)]
        b = [a[0]] * n if r.chance(1, 6) else (rvec(r, n) if r.chance(1, 2) else [r.range(-1, 2) for _ in range(n)])
        ops.append(f"nb {r.choice(modes)} {n} {vs(a)} {vs(b)} {r.below(n + 1)}")
    # mod / ceil_div_signed: every pair of dividend and divisor in [-7,7] in the first component (all sign combinations, exact
    # quotients, zero), all pairs of 2-vectors over {-2,-1,0,1,2,3}
    vmodes = ["ss", "rr", "bb", "sr", "rb", "bs"]
    for x in range(-7, 8):
        for y in range(-7, 8):
            ops.append(f"md {vmodes[(x + y) % 6]} 1 {x} {y} {y}")
            ops.append(f"md {vmodes[(x - y) % 6]} 3 {x},{y},{-x} {y},{x},{y} {y}")
    dom = [-2, -1, 0, 1, 2, 3]
    for a0 in dom:
        for a1 in dom:
            for b0 in dom:
                for b1 in dom:
                    ops.append(f"md {vmodes[(a0 + a1 + b0 + b1) % 6]} 2 {a0},{a1} {b0},{b1} {b0 if (a0 + b1) % 2 else b1}")
    for _ in range(5000 if thorough else 1000):
        n = r.range(1, 4)
        ops.append(f"md {r.choice(vmodes)} {n} {vs(rvec(r, n))} {vs(rvec(r, n))} {r.choice([0, 1, -1, 2, -2, 3, -3, 5, -7, 9])}")
    yield Batch("neighbour-vec-dim", ops, note="vector o dim (+ - * /), contents, is_quadratic, to_dim, to_vector, unit: all pairs over {-1,0,1,2} for dimension 1-3, random dimension 1-4; "
                     "mod / ceil_div_signed: all dividend x divisor pairs in [-7,7], all pairs of 2-vectors over [-2,3], random")
    ops = []
    for _ in range(5000 if thorough else 1200):
        k = r.below(4)
        if k == 0:      # translation
            m = [1, 0, 0, r.range(-9, 9), 0, 1, 0, r.range(-9, 9), 0, 0, 1, r.range(-9, 9), 0, 0, 0, 1]
        elif k == 1:    # scaling
            m = [r.range(-9, 9), 0, 0, 0, 0, r.range(-9, 9), 0, 0, 0, 0, r.range(-9, 9), 0, 0, 0, 0, 1]
        else:
            m = rvec(r, 16)
        ops.append(f"tp {r.choice('sb')} {r.choice('srb')} {vs(m)} {vs(rvec(r, 3))}")
    for a in range(256):
        ops.append(f"inf {'sb'[a % 2]} 2 2 {vs(decode2(a))}")
    for _ in range(3000 if thorough else 800):
        rr, cc = r.choice(MAT_SHAPES)
        ops.append(f"inf {r.choice('sb') if (rr, cc) in MAT_VIEWS else 's'} {rr} {cc} {vs(rvec(r, rr * cc))}")
    yield Batch("neighbour-matrix", ops, note="transform_point / transform_direction (translations, scalings, random 4x4), infinity_norm (all 2x2 over {-1,0,1,2}, random shapes)")


def member_batches(rng, thorough):
    # ---- exhaustive over small vectors: every single statement (target x operand x operator, every aliasing pattern)
    ops = []
    for fam, shapes in (("v", MEM_SHAPES_V), ("d", MEM_SHAPES_D)):
        for (r, c) in shapes:
            full = r == 3
            for pat in member_patterns(fam, r, c, full):
                e = ("f" if c == 3 else "q") if thorough else ("s" if c == 4 else "q")
                ops.append(f"mems {fam} {r} {c} {e} {pat}")
    yield Batch("member-single", ops, exhaustive=True,
                note="member operators += -= *= (object / scalar) and = : every target x operand x operator of the world (same object, rows of the "
                     "same matrix, overlapping views, scalar = element of any object), all a in {-1,0,1,2}^C x b in {-1,0,1,2}^C (C<=2; C=3 thorough) / {-1,2}^C (C=3 quick, C=4 thorough) / two alternating b (C=4 quick)")
    # ---- two-statement sequences, exhaustive over small vectors for the aliasing core; seeded longer sequences on [-9,9]
    r2 = rng.fork("member-seq")
    ops = []
    core = ["A smul @A.0", "A add A", "A mul A", "M0 add M1", "M1 add M1", "M0 smul @M1.0", "M smul @M.1", "A asg M0", "M0 asg A", "M0 asg N1", "M0 asg M1", "A ctor M1", "M1 ctor M0",
            "U1 add U0", "A sub A", "M sub M", "M add P", "Q1.0 add U1", "V1 smul @U1.0", "A set 0:2", "M set 1:-1"]
    for c in (1, 2, 3):
        for s1 in core:
            for s2 in core:
                ops.append(f"mems v 3 {c} q {s1} {s2}")
    yield Batch("member-two-step", ops, exhaustive=True, note="all ordered pairs of 21 core statements (save-mutate-restore, scale after add, write then read through a view ...), dimension 1-3")
    ops = []
    for _ in range(15000 if thorough else 3000):
        fam = r2.choice("vvvd")
        r, c = r2.choice(MEM_SHAPES_V if fam == "v" else MEM_SHAPES_D)
        k = r * c
        n = r2.range(1, 4)      # at most 4 statements: entries in [-9,9] squared 4 times stay below 9^16 < 2^63 (no overflow in long)
        ops.append(f"mem {fam} {r} {c} {vs(rvec(r2, c))} {vs(rvec(r2, c))} {vs(rvec(r2, k))} {vs(rvec(r2, k))} " + " ".join(random_stmt(r2, fam, r, c) for _ in range(n)))
    yield Batch("member-random", ops, note="1-4 random statements on random worlds with entries in [-9,9] (all shapes, incl. out-of-range get_unsafe and non-existent views)")


def nontrivial(op, result):
    t = op.split()
    if t[0] in ("mixchk", "bits", "det0", "builders", "mem", "mems", "vecs", "crs", "sqs", "mvs", "nb", "md", "tp", "inf"):
        return True
    if t[0] in ("pairs", "trios"):
        return any(int(x) != 0x55 for x in t[2:])      # 0x55 is the zero matrix
    return any(c.isdigit() and c != "0" for tok in t[3:] if "," in tok or tok.lstrip("-").isdigit() for c in tok)


def weight(op):
    t = op.split()
    if t[0] == "mems":
        return mems_count(int(t[3]), t[4])
    if t[0] == "vecs":
        return 4 ** int(t[3])
    if t[0] in ("crs", "mvs"):
        return 64
    if t[0] == "sqs":
        return 243
    return 256 if t[0] in ("pairs", "trios") else 1


def enum_trits(n, idx):
    return [(idx // 3 ** j) % 3 - 1 for j in range(n)]


def refine(op):
    t = op.split()
    if t[0] == "vecs":
        n, ia = int(t[3]), int(t[4])
        return [f"vec {t[1]} {t[2]} {n} {vs(enum_a(n, ia))} {vs(enum_a(n, ib))} {(ia + ib) % 7 - 3} {(ia + 2 * ib) % (n + 2)}" for ib in range(4 ** n)]
    if t[0] == "crs":
        return [f"cross {t[1]} {vs(enum_a(3, int(t[2])))} {vs(enum_a(3, ib))}" for ib in range(64)]
    if t[0] == "sqs":
        return [f"sq {t[1]} 3 {vs(enum_trits(5, lo) + enum_trits(4, int(t[2])))}" for lo in range(243)]
    if t[0] == "mvs":
        return [f"mv {t[1]} {t[2]} 2 3 {vs(enum_a(6, int(t[3])))} {vs(enum_a(3, iv))}" for iv in range(64)]
    if t[0] == "trios":
        a, b = vs(decode2(int(t[2]))), vs(decode2(int(t[3])))
        return [f"trio {t[1]} 2 {a} {b} {vs(decode2(c))}" for c in range(256)]
    if t[0] == "mems":
        return mems_refine(t)
    if t[0] == "pairs":
        a = vs(decode2(int(t[2])))
        return [f"pair {t[1]} 2 {a} {vs(decode2(b))}" for b in range(256)]
    return None


def batches(rng, tier):
    thorough = tier == "thorough"
    # ---- exhaustive 2x2 over {-1,0,1,2}
    yield Batch("2x2-single", [f"sq {m} 2 {vs(decode2(a))}" for m in "sb" for a in range(256)], exhaustive=True,
                note="determinant, adjugate, A adj A, adj A A, inverse, identity for all 256 matrices, static and buffer-view storage")
    yield Batch("2x2-pairs", [f"pairs {m} {a}" for m in "sb" for a in range(256)], exhaustive=True,
                note="all 65536 pairs: product, transposes, sum, difference, det(AB), det A, det B, ==")
    yield Batch("2x2-triples-static", [f"trios s {a} {b}" for a in (range(256) if thorough else range(rng.fork("tri").below(4), 256, 4)) for b in range(256)], exhaustive=thorough,
                note="all 256^3 triples (quick: a seed-rotated quarter of the left operands, 64 x 256 x 256): associativity and both distributive laws, static storage")
    r = rng.fork("trios-b")
    if thorough:
        ops = [f"trios b {a} {b}" for a in range(256) for b in range(256)]
        yield Batch("2x2-triples-view", ops, exhaustive=True, note="all 256^3 triples, buffer-view storage")
    else:
        ops = [f"trios b {r.below(256)} {r.below(256)}" for _ in range(2000)]
        yield Batch("2x2-triples-view", ops, note="2000 seeded pairs (A,B) x all C, buffer-view storage")
    # ---- fixed small things
    yield Batch("mixed-element-types", [f"mixchk {n}" for n in range(1, 201 if thorough else 61)],
                note="+ - * of vectors and dims whose operands have different element types (int/long, short/int, long long/short), the wide operand far "
                     "outside the narrow type: against plain arithmetic per component")
    yield Batch("bits-det0", [f"bits {n}" for n in range(1, 6)] + ["det0"] + [f"sq {m} 1 {x}" for m in "sb" for x in range(-9, 10)],
                exhaustive=True, note="bit_strings 1..5, determinant of the 0x0 matrix, every 1x1 matrix in [-9,9]")
    scale = 5 if thorough else 1
    # ---- square matrices 3x3 / 4x4 (and 1, 2)
    r = rng.fork("sq")
    ops = []
    for _ in range(1500 * scale):
        n = r.choice([3, 3, 4, 4, 4, 2, 1])
        ops.append(f"sq {r.choice('sb')} {n} {vs(rvec(r, n * n))}")
    # unimodular matrices: products of elementary matrices, so that inverse() is exact
    for _ in range(300 * scale):
        n = r.choice([2, 3, 4])
        m = [[1 if i == j else 0 for j in range(n)] for i in range(n)]
        for _ in range(r.range(1, 4)):
            i, j = r.below(n), r.below(n)
            if i != j:
                k = r.range(-2, 2)
                m[i] = [x + k * y for x, y in zip(m[i], m[j])]
            else:
                m[i] = [-x for x in m[i]]
        flat = [x for row in m for x in row]
        if all(abs(x) <= 1000 for x in flat):
            ops.append(f"sq {r.choice('sb')} {n} {vs(flat)}")
    yield Batch("square-random", ops, note="random 1x1..4x4 in [-9,9] + unimodular matrices (inverse exact)")
    r = rng.fork("pair")
    ops = []
    for _ in range(1200 * scale):
        n = r.choice([3, 4, 3, 4, 2, 1])
        m = r.choice("sb") if n in (2, 3) else "s"
        ops.append(f"pair {m} {n} {vs(rvec(r, n * n))} {vs(rvec(r, n * n))}")
    for _ in range(1200 * scale):
        n = r.choice([3, 4, 3, 4, 2, 1])
        m = r.choice("sb") if n in (2, 3) else "s"
        ops.append(f"trio {m} {n} {vs(rvec(r, n * n))} {vs(rvec(r, n * n))} {vs(rvec(r, n * n))}")
    yield Batch("pair-trio-random", ops, note="random pairs and triples of 1x1..4x4 matrices")
    # ---- general shapes
    r = rng.fork("mat")
    ops = []
    for _ in range(1500 * scale):
        rr, cc = r.choice(MAT_SHAPES)
        lr = r.choice(["ss", "bb", "sb"]) if (rr, cc) in MAT_VIEWS else "ss"
        a = rvec(r, rr * cc)
        b = list(a) if r.chance(1, 8) else rvec(r, rr * cc)
        ops.append(f"mat {lr} {rr} {cc} {vs(a)} {vs(b)} {r.range(-9, 9)} {r.below(rr + 2)} {r.below(cc + 2)}")
    yield Batch("mat-random", ops, note="+ - scalar* transpose == != structure_cast rows get_unsafe, all shapes")
    r = rng.fork("mul")
    ops = []
    for _ in range(1500 * scale):
        m, n, p = r.choice(MUL_SHAPES)
        lr = r.choice(["ss", "bb", "sb"]) if (m, n, p) in MUL_VIEWS else "ss"
        ops.append(f"mul {lr} {m} {n} {p} {vs(rvec(r, m * n))} {vs(rvec(r, n * p))}")
    for _ in range(800 * scale):
        rr, cc = r.choice(MV_SHAPES)
        if (rr, cc) in MV_VIEWS:
            mm, vm = r.choice("sb"), r.choice("sbr")
        else:
            mm, vm = "s", "s"
        ops.append(f"mv {mm} {vm} {rr} {cc} {vs(rvec(r, rr * cc))} {vs(rvec(r, cc))}")
    for _ in range(500 * scale):
        rr, cc = r.choice(DEL_SHAPES)
        m = r.choice("sb") if (rr, cc) in DEL_VIEWS else "s"
        ops.append(f"del {m} {rr} {cc} {r.below(rr)} {r.below(cc)} {vs(rvec(r, rr * cc))}")
    yield Batch("mul-mv-del-random", ops, note="products of all instantiated shapes (incl. 2x3, 3x2, 3x4, 1xN), matrix*vector, delete_row_and_column")
    # ---- vectors and dims
    r = rng.fork("vec")
    ops = []
    for _ in range(3000 * scale):
        n = r.range(1, 4)
        kind = r.choice("vvd")
        if kind == "v":
            lr = r.choice(["ss", "rr", "bb"] + (["sr", "rb", "bs"] if n in (2, 3) else []))
        else:
            lr = r.choice(["ss", "bb"] + (["sb"] if n in (2, 3) else []))
        a = rvec(r, n)
        k = r.below(6)
        if k == 0:
            b = list(a)
        elif k == 1:      # equal prefix, differ in one place: the interesting cases of <
            b = list(a)
            i = r.below(n)
            b[i] += r.choice([-1, 1])
        else:
            b = rvec(r, n)
        ops.append(f"vec {kind} {lr} {n} {vs(a)} {vs(b)} {r.choice([0, 1, -1, 2, 3, -7, 9])} {r.below(n + 2)}")
    for _ in range(800 * scale):
        lr = r.choice(["ss", "rr", "bb", "sr", "rb", "bs"])
        a = rvec(r, 3)
        b = [x * 2 for x in a] if r.chance(1, 8) else rvec(r, 3)
        ops.append(f"cross {lr} {vs(a)} {vs(b)}")
    for _ in range(100 * scale):
        ops.append("builders " + " ".join(str(r.range(-9, 9)) for _ in range(6)))
    yield Batch("vec-dim-random", ops, note="vectors and dims of dimension 1-4 in [-9,9], static / row-view / buffer-view operands; cross; builders")
    yield from systematic_batches(rng, thorough)
    yield from neighbour_batches(rng, thorough)
    yield from member_batches(rng, thorough)


MANIFEST = {
    "level_text": ("Machine-checked proof (Lean 4 + Mathlib) over an executable row-major model that mirrors fcppt's init/fold/index "
                   "arithmetic: for every size, the model's + - scalar* matrix* matrix*vector transpose identity denote Mathlib's Matrix "
                   "operations, the Laplace determinant equals Matrix.det and the adjugate equals Matrix.adjugate (det_eq, adjugate_eq, "
                   "all N); associativity, distributivity, (AB)^T = B^T A^T, det(AB) = det A det B and A adj A = det A * 1 follow for all "
                   "sizes; dot/cross/length_square, builders, accessors, casts and comparisons are proved component-wise. The model is tied "
                   "to the code by a differential correspondence that is exhaustive over all 256^3 triples of 2x2 matrices over {-1,0,1,2} "
                   "and seeded random for 3x3/4x4/non-square matrices and vectors of dimension 1-4, on static, row-view and buffer-view storage. "
                   "The member operators (+= -= *= =, scalar *=) are proved equal to the free operators on the values before the call under "
                   "every aliasing the code supports (characterised exactly: noClobber_iff), for an aliased scalar without any condition; they are "
                   "tied to the code by exhaustive single- and two-statement scenarios over every target x operand x operator of a world in which "
                   "every object can alias every other."),
    "level_note": ("Trusted: Lean kernel + propext/Classical.choice/Quot.sound; Mathlib's definitions of det/adjugate; the hand-written "
                   "model's fidelity outside the exercised inputs; harness and digest protocol; long arithmetic without overflow on the "
                   "exercised inputs (UBSan). No sorry/axiom/native_decide."),
    "technique": "Lean 4 proof against Mathlib's Matrix over a hand-written executable model + exhaustive/seeded differential correspondence (ASan/UBSan harness, three-way with naive arrays)",
    "design_ref": "DESIGN.md §5 C14",
}
