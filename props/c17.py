"""C17 — typed wrappers are transparent; ==, <, hash are mutually coherent."""
import itertools

from vlib.runner import Batch

ID = "C17"
LEAN_PROPS = ["FcpptProofs.Props.C17"]
HARNESS = {"src": "harness/c17.cpp"}
TIE = ("hand-written model (FcpptModel/Model/C17.lean, one definition per comparison header) + differential correspondence "
       "against the real templates: digests over complete finite domains, refined to single operand pairs / triples")
RULE = ("sts ty a lo hi: digest over b in [lo,hi] of all strong_typedef observations (binary/unary arithmetic and bitwise, "
        "++/--, op=, six comparisons, hash, type_iso; each also compared with the built-in operator in C++ itself) for operands (a,b) - "
        "exhaustive over [-128,127]^2 for int, over all pairs of signed char / unsigned char (integral promotion: op=, ++/--, comparisons), "
        "over all pairs of wrap-around boundary values for unsigned / unsigned long / unsigned short (overflow boundary values for "
        "int / long / short, `ub` where the built-in operator is undefined). stselfs: the SAME object on both sides of every binary / "
        "assigning operator (every 8- and 16-bit value, boundaries of the wider types); stmems: members (non-const get, no_init, copy, "
        "move), strong_typedef_map/_apply/_construct_cast, << >>. rels type maxlen a: digest over every value b of the type with "
        "components in {0,1,2} of == != < > <= >= (as offered), hash agreement (fcppt hash object, std::hash, fcppt::hash) and "
        "type-specific extras - run for every a, i.e. all ordered pairs; relsr: the same with the two values built along every pair "
        "of construction routes (constructor, assignment over another value, element-wise writes, insert+erase, reserve/resize/pop, "
        "inside a buffer pre-filled with a byte pattern); selfs: the same object on both sides; relb: all pairs of 19 (15) boundary "
        "values of int (short) in one component; tree-shapes: all pairs of 122 trees (every shape up to 5 nodes, one node different); "
        "sequences: one difference at every position / proper prefixes for 4..9 and 15..64 elements; "
        "tri: all triples (a,b,c) checked for symmetry/transitivity of ==, transitivity of < and of incomparability, and "
        "compatibility (every a, both tiers; trees up to 3 nodes, raw_vectors up to 3 / 4 elements; values built along alternating routes). "
        "An op counts as non-trivial unless it is malformed on purpose (bad-op); distinct = distinct op lines; weight = number of "
        "operand pairs / triples the line stands for.")
ASSUMPTIONS = [
    "C integer types signed/unsigned char, short, int, long are 8/16/32/64-bit two's complement (LP64); operands narrower than int are "
    "promoted to int; conversion to a narrower / signed type is modulo 2^n (C++20)",
    "std::equal, std::lexicographical_compare, std::pair <, std::variant == and <, std::tuple ==, std::array ==, std::list == behave "
    "as the C++20 standard specifies (transcribed as stdEqual3, lexCompare, pairLt, Var.eq/lt = SumV.eq/lt, equalV = Pair.eq, Tree.eqList)",
    "hash_combine and std::hash of the components are uninterpreted (the hash theorems hold for any)",
    "the component types are int / long / short with the built-in == and < (LawfulEq, StrictTotal hold) and - for boxes - the built-in "
    "subtraction without overflow (SubCancel); theorems are stated for any component types with these laws",
    "addresses of the elements of one array are ordered like their indices and the null pointer is below all of them "
    "(reference / shared_ptr / iterator::range values are built on one array)",
    "std::variant never becomes valueless here (all alternatives are nothrow-movable scalars)",
    "box values: pos + size is representable (the class stores min and max = pos + size)",
]
TRUSTED = ["harness/c17.cpp and the digest/line protocol (vh.hpp, Proto.lean)",
           "g++ 12 + ASan/UBSan as witness for memory safety of the instantiations (e.g. std::equal reading past the shorter range)",
           "FcpptModel/Model/C10.lean for the bitfield words (proved in Props/C10.lean)"]

# ---------------------------------------------------------------------------------------------
# value domains (the same enumeration as `domain` in Drv/C17.lean and engine<>::domain in c17.cpp)


def _tree_ok(l):
    def parse(pos):
        # position after the tree that starts at pos, or None
        if pos + 2 > len(l):
            return None
        k = l[pos + 1]
        pos += 2
        for _ in range(k):
            pos = parse(pos)
            if pos is None:
                return None
        return pos
    return parse(0) == len(l)


TYPES = {
    "opt": ([0, 1], lambda l: True),
    "eith": ([2], lambda l: l[0] <= 1),
    "var": ([2], lambda l: True),
    "tup": ([3], lambda l: True),
    "arr": ([3], lambda l: True),
    "rec": ([2], lambda l: True),
    "sti": ([1], lambda l: True),
    "vec2": ([2], lambda l: True),
    "vec3": ([3], lambda l: True),
    "dim2": ([2], lambda l: True),
    "mat22": ([4], lambda l: True),
    "box2": ([4], lambda l: True),
    "sph2": ([3], lambda l: True),
    "bf3": ([4], lambda l: max(l[:3]) <= 1),
    "earr": ([3], lambda l: True),
    "grid": ([2, 3, 4, 5, 6], lambda l: len(l) - 2 == l[0] * l[1]),
    "tree": ([2, 4, 6, 8], _tree_ok),
    "rv": ([0, 1, 2, 3, 4], lambda l: True),
    "ref": ([1], lambda l: True),
    "sp": ([2], lambda l: True),
    "recu": ([1], lambda l: True),
    "vec1": ([1], lambda l: True),
    "vec4": ([4], lambda l: True),
    "dim3": ([3], lambda l: True),
    "mat23": ([6], lambda l: True),
    "box3": ([6], lambda l: True),
    "sph3": ([4], lambda l: True),
    "grid1": ([1, 2, 3], lambda l: len(l) - 1 == l[0]),
    "grid3": ([3, 4, 5, 7], lambda l: len(l) - 3 == l[0] * l[1] * l[2]),
    "bf9": ([4], lambda l: max(l[:3]) <= 1),
    "nest": ([0, 1, 2, 3], lambda l: l == [] or (l[0] == 0 and len(l) <= 2) or (l[0] == 1 and len(l) == 3)),
    "unit": ([0], lambda l: True),
    "itr": ([2], lambda l: l[0] <= l[1]),
}
# number of construction routes the harness offers per type (the model is a value model: routes do not matter)
ROUTES = {"unit": 1, "bf3": 1, "bf9": 1, "nest": 2, "opt": 3, "eith": 3, "var": 3, "tup": 2, "arr": 2, "earr": 2, "rec": 2, "sti": 2, "recu": 5, "vec1": 3, "vec2": 3,
          "vec3": 3, "vec4": 3, "dim2": 3, "dim3": 3, "mat22": 2, "mat23": 2, "box2": 3, "box3": 3, "sph2": 2, "sph3": 2,
          "grid": 4, "grid1": 4, "grid3": 4, "tree": 3, "rv": 5, "ref": 3, "sp": 3, "itr": 2}
# maxlen for the route-pair digests (quick, thorough) where the full domain would be too large
MAXLEN_ROUTES = {"tree": (6, 8), "rv": (3, 3), "grid3": (5, 7)}
# value positions for the boundary-value digests: type -> list of (base, [(pos, kind)]), kind 0 = 16-bit values, 1 = 32-bit
BOUNDARY_POS = {
    "opt": [([1], [(0, 1)])],
    "eith": [([0, 1], [(1, 1)]), ([1, 1], [(1, 1)])],
    "var": [([0, 1], [(1, 1)]), ([1, 1], [(1, 1)]), ([2, 1], [(1, 0)])],
    "tup": [([1, 1, 1], [(0, 1), (1, 1), (2, 0)])],
    "arr": [([1, 1, 1], [(0, 1), (1, 1), (2, 1)])],
    "earr": [([1, 1, 1], [(0, 1), (1, 1), (2, 1)])],
    "rec": [([1, 1], [(0, 1), (1, 1)])],
    "sti": [([1], [(0, 1)])],
    "recu": [([1], [(0, 1)])],
    "vec1": [([1], [(0, 1)])],
    "vec2": [([1, 1], [(0, 1), (1, 1)])],
    "vec3": [([1, 1, 1], [(0, 1), (1, 1), (2, 1)])],
    "vec4": [([1, 1, 1, 1], [(0, 1), (1, 1), (2, 1), (3, 1)])],
    "dim2": [([1, 1], [(0, 1), (1, 1)])],
    "dim3": [([1, 1, 1], [(0, 1), (1, 1), (2, 1)])],
    "mat22": [([1, 1, 1, 1], [(0, 1), (1, 1), (2, 1), (3, 1)])],
    "mat23": [([1, 1, 1, 1, 1, 1], [(k, 1) for k in range(6)])],
    "box2": [([1, 1, 1, 1], [(k, 0) for k in range(4)])],
    "box3": [([1, 1, 1, 1, 1, 1], [(k, 0) for k in range(6)])],
    "sph2": [([1, 1, 1], [(0, 1), (1, 1), (2, 1)])],
    "sph3": [([1, 1, 1, 1], [(k, 1) for k in range(4)])],
    "grid": [([2, 2, 1, 1, 1, 1], [(k, 1) for k in range(2, 6)])],
    "grid1": [([3, 1, 1, 1], [(1, 1), (2, 1), (3, 1)])],
    "grid3": [([1, 2, 1, 1, 1], [(3, 1), (4, 1)])],
    "tree": [([1, 2, 1, 0, 1, 1, 1, 0], [(0, 1), (2, 1), (4, 1), (6, 1)])],
    "rv": [([1, 1, 1], [(0, 1), (1, 1), (2, 1)])],
}
B16 = [-32768, -32767, -257, -256, -129, -128, -1, 0, 1, 127, 128, 255, 256, 32766, 32767]
B32 = [-2147483648, -2147483647, -16777217, -16777216, -65537, -65536, -32769, -32768, -1, 0, 1,
       32767, 32768, 65535, 65536, 16777216, 16777217, 2147483646, 2147483647]
# maxlen used for the pair digests and for the triple checks
MAXLEN_PAIRS = {"tree": (8, 8), "rv": (3, 4)}     # (quick, thorough)
MAXLEN_TRI = {"tree": (6, 6), "rv": (3, 4), "mat23": (0, 0), "box3": (0, 0), "grid3": (5, 5)}   # 0: no triple batch (729^3)

_dom_cache = {}


def domain(ty, maxlen):
    key = (ty, maxlen)
    if key not in _dom_cache:
        lens, ok = TYPES[ty]
        out = []
        for k in range(maxlen + 1):
            if k in lens:
                out += [list(l) for l in itertools.product(range(3), repeat=k) if ok(list(l))]
        _dom_cache[key] = out
    return _dom_cache[key]


def enc(l):
    return ",".join(str(x) for x in l) if l else "-"


def dec(s):
    return [] if s == "-" else [int(x) for x in s.split(",")]


def fixed_len(ty):
    return max(TYPES[ty][0])


def pairs_maxlen(ty, thorough):
    return MAXLEN_PAIRS[ty][1 if thorough else 0] if ty in MAXLEN_PAIRS else fixed_len(ty)


def tri_maxlen(ty, thorough):
    return MAXLEN_TRI[ty][1 if thorough else 0] if ty in MAXLEN_TRI else fixed_len(ty)


# ---------------------------------------------------------------------------------------------

def nontrivial(op, result):
    return result != "bad-op"


def weight(op):
    t = op.split()
    if t[0] in ("sts", "stmems"):
        return int(t[4]) - int(t[3]) + 1
    if t[0] == "stselfs":
        return int(t[3]) - int(t[2]) + 1
    if t[0] in ("rels", "relsr", "selfs"):
        return len(domain(t[1], int(t[2])))
    if t[0] == "relb":
        return len(B16 if t[4] == "0" else B32) ** 2
    if t[0] == "tri":
        return len(domain(t[1], int(t[2]))) ** 2
    return 1


def refine(op):
    t = op.split()
    if t[0] == "sts":
        return [f"st {t[1]} {t[2]} {b}" for b in range(int(t[3]), int(t[4]) + 1)]
    if t[0] == "stmems":
        return [f"stmem {t[1]} {t[2]} {b}" for b in range(int(t[3]), int(t[4]) + 1)]
    if t[0] == "stselfs":
        return [f"stself {t[1]} {a}" for a in range(int(t[2]), int(t[3]) + 1)]
    if t[0] == "rels":
        return [f"rel {t[1]} {t[3]} {enc(b)}" for b in domain(t[1], int(t[2]))]
    if t[0] == "relsr":
        return [f"relr {t[1]} {t[3]} {t[4]} {t[5]} {enc(b)}" for b in domain(t[1], int(t[2]))]
    if t[0] == "selfs":
        return [f"self {t[1]} {t[3]} {enc(a)}" for a in domain(t[1], int(t[2]))]
    if t[0] == "relb":
        base, pos, vals = dec(t[2]), int(t[3]), (B16 if t[4] == "0" else B32)
        out = []
        for u in vals:
            for v in vals:
                a, b = list(base), list(base)
                a[pos], b[pos] = u, v
                out.append(f"relr {t[1]} {u & 11} {v & 9} {enc(a)} {enc(b)}")
        return out
    if t[0] == "tri":
        d = domain(t[1], int(t[2]))
        return [f"tri1 {t[1]} {t[3]} {enc(b)} {enc(c)}" for b in d for c in d]
    return None


U32 = [0, 1, 2, 3, 127, 128, 255, 256, 65535, 65536, 2 ** 31 - 1, 2 ** 31, 2 ** 31 + 1, 2 ** 32 - 3, 2 ** 32 - 2, 2 ** 32 - 1]
U64 = [0, 1, 2, 3, 255, 65536, 2 ** 32 - 1, 2 ** 32, 2 ** 32 + 1, 2 ** 63 - 1, 2 ** 63, 2 ** 63 + 1, 2 ** 64 - 3, 2 ** 64 - 2, 2 ** 64 - 1]
I32 = [-2 ** 31, -2 ** 31 + 1, -2 ** 16, -46341, -129, -128, -2, -1, 0, 1, 2, 127, 128, 46340, 46341, 2 ** 16, 2 ** 31 - 2, 2 ** 31 - 1]
I64 = [-2 ** 63, -2 ** 63 + 1, -2 ** 32, -3037000500, -2, -1, 0, 1, 2, 3037000499, 3037000500, 2 ** 32, 2 ** 63 - 2, 2 ** 63 - 1]
I16 = [-32768, -32767, -256, -255, -182, -181, -129, -128, -2, -1, 0, 1, 2, 127, 128, 181, 182, 255, 256, 32766, 32767]
U16 = [0, 1, 2, 3, 127, 128, 255, 256, 257, 32767, 32768, 46340, 46341, 65533, 65534, 65535]
RANGES = {"i32": (-2 ** 31, 2 ** 31 - 1), "u32": (0, 2 ** 32 - 1), "i64": (-2 ** 63, 2 ** 63 - 1), "u64": (0, 2 ** 64 - 1),
          "i8": (-128, 127), "u8": (0, 255), "i16": (-32768, 32767), "u16": (0, 65535)}
BOUNDARY = {"i32": I32, "u32": U32, "i64": I64, "u64": U64, "i16": I16, "u16": U16,
            "i8": [-128, -127, -1, 0, 1, 126, 127], "u8": [0, 1, 127, 128, 254, 255]}


def rand_int(r, ty):
    lo, hi = RANGES[ty]
    k = r.below(4)
    if k == 0:
        return r.range(lo, hi)
    if k == 1:
        return r.choice(BOUNDARY[ty])
    if k == 2:
        v = r.range(-200, 200)
        return min(hi, max(lo, v))
    v = r.choice([lo, hi, (lo + hi) // 2]) + r.range(-3, 3)
    return min(hi, max(lo, v))


def rand_tree(r, n, comp):
    """pre-order encoding of a random tree with exactly n >= 1 nodes"""
    rest = n - 1
    k = r.range(1, min(3, rest)) if rest > 0 else 0
    sizes = [1] * k
    for _ in range(rest - k):
        sizes[r.below(k)] += 1
    out = [comp(), k]
    for sz in sizes:
        out += rand_tree(r, sz, comp)
    return out


def tree_shapes(n):
    """all ordered trees with n nodes, as nested lists of children"""
    if n == 1:
        return [[]]
    out = []
    # forests with n-1 nodes
    def forests(m):
        if m == 0:
            return [[]]
        res = []
        for k in range(1, m + 1):
            for first in tree_shapes(k):
                for rest in forests(m - k):
                    res.append([first] + rest)
        return res
    return forests(n - 1)


def tree_enc(shape, values):
    """pre-order encoding value,number-of-children of a shape with the given pre-order values"""
    it = iter(values)
    def go(sh):
        out = [next(it), len(sh)]
        for c in sh:
            out += go(c)
        return out
    return go(shape)


def rand_value(r, ty, wide):
    comp = (lambda: r.range(-3, 3)) if wide else (lambda: r.below(3))
    if ty == "opt":
        return [] if r.chance(1, 4) else [comp()]
    if ty == "eith":
        return [r.below(2), comp()]
    if ty == "var":
        return [r.below(3), comp()]
    if ty in ("bf3", "bf9"):
        return [r.below(2), r.below(2), r.below(2), r.below(3)]
    if ty == "ref":
        return [r.below(3)]
    if ty == "sp":
        return [r.below(3), r.below(3)]
    if ty == "grid":
        w, h = r.below(4), r.below(4)
        return [w, h] + [comp() for _ in range(w * h)]
    if ty == "grid1":
        w = r.below(7)
        return [w] + [comp() for _ in range(w)]
    if ty == "grid3":
        w, h, d = r.below(3), r.below(3), r.below(4)
        return [w, h, d] + [comp() for _ in range(w * h * d)]
    if ty == "unit":
        return []
    if ty == "nest":
        k = r.below(4)
        return [[], [0], [0, comp()], [1, comp(), comp()]][k]
    if ty == "itr":
        i = r.below(3)
        return [i, r.range(i, 2)]
    if ty == "tree":
        return rand_tree(r, r.range(1, 7), comp)
    if ty == "rv":
        return [comp() for _ in range(r.below(7))]
    return [comp() for _ in range(fixed_len(ty))]


def near(r, ty, v):
    """a value close to v: equal, or different in exactly one place"""
    w = list(v)
    k = r.below(3)
    if k == 0 or not w:
        return w
    i = r.below(len(w))
    if ty == "grid":
        if i < 2:
            return [w[1], w[0]] + w[2:]      # transpose the extent, keep the content
        w[i] += r.choice([-1, 1])
        return w
    if ty == "grid3":
        if i < 3:
            j = (i + 1) % 3
            w[i], w[j] = w[j], w[i]          # exchange two extents, keep the content
            return w
        w[i] += r.choice([-1, 1])
        return w
    if ty == "grid1":
        if i == 0:
            return w
        w[i] += r.choice([-1, 1])
        return w
    if ty == "itr":
        return [w[0], w[0]] if i == 0 else [w[1], w[1]]
    if ty == "nest":
        if i == 0:
            return [[], [0], [0, 1], [1, 0, 1]][r.below(4)]
        w[i] += r.choice([-1, 1])
        return w
    if ty == "tree":
        w[i - i % 2] += r.choice([-1, 1])    # only values; the shape stays
        return w
    if ty in ("bf3", "bf9"):
        if i == 3:
            w[3] = (w[3] + 1) % 3
        else:
            w[i] = 1 - w[i]
        return w
    if ty == "ref":
        return [(w[0] + 1) % 3]
    if ty == "sp":
        w[i] = (w[i] + 1) % 3
        return w
    if ty in ("eith", "var") and i == 0:
        w[0] = (w[0] + 1) % (2 if ty == "eith" else 3)
        return w
    if ty == "opt" and k == 2:
        return []
    if ty == "rv" and k == 2:
        return w[:i] if r.chance(1, 2) else w + [w[i]]
    w[i] += r.choice([-1, 1])
    return w


def batches(rng, tier):
    thorough = tier == "thorough"
    # ---- part (a): strong_typedef operators
    yield Batch("st-int-exhaustive", [f"sts i32 {a} -128 127" for a in range(-128, 128)], exhaustive=True,
                note="all operand pairs in [-128,127]^2 of int, every operator")
    ops = [f"st u32 {a} {b}" for a in U32 for b in U32] + [f"st u64 {a} {b}" for a in U64 for b in U64]
    yield Batch("st-unsigned-boundary", ops, exhaustive=True, note="all pairs of wrap-around boundary values of unsigned and unsigned long")
    ops = [f"st i32 {a} {b}" for a in I32 for b in I32] + [f"st i64 {a} {b}" for a in I64 for b in I64]
    yield Batch("st-signed-boundary", ops, exhaustive=True,
                note="all pairs of overflow boundary values of int and long (`ub` where the plain operator overflows)")
    # types narrower than int: integral promotion inside op=, ++, -- (binary / unary operators are ill-formed there)
    ops = [f"sts i8 {a} -128 127" for a in range(-128, 128)] + [f"sts u8 {a} 0 255" for a in range(0, 256)]
    yield Batch("st-narrow-exhaustive", ops, exhaustive=True,
                note="all operand pairs of signed char and of unsigned char: op=, ++/--, comparisons, hash, type_iso")
    ops = [f"st i16 {a} {b}" for a in I16 for b in I16] + [f"st u16 {a} {b}" for a in U16 for b in U16]
    yield Batch("st-narrow-boundary", ops, exhaustive=True,
                note="all pairs of boundary values of short / unsigned short (`ub`: unsigned short product beyond int)")
    # the SAME object on both sides of every binary / assigning operator
    ops = ["stselfs i8 -128 127", "stselfs u8 0 255"]
    ops += [f"stselfs i16 {lo} {lo + 4095}" for lo in range(-32768, 32768, 4096)]
    ops += [f"stselfs u16 {lo} {lo + 4095}" for lo in range(0, 65536, 4096)]
    ops += ["stselfs i32 -128 127", "stselfs u32 0 255", "stselfs i64 -128 127", "stselfs u64 0 255"]
    ops += [f"stself {ty} {a}" for ty in ("i32", "u32", "i64", "u64") for a in BOUNDARY[ty]]
    ops += [f"stselfs i32 {2 ** 31 - 256} {2 ** 31 - 1}", f"stselfs i32 {-2 ** 31} {-2 ** 31 + 255}",
            f"stselfs i32 {2 ** 30 - 128} {2 ** 30 + 127}", f"stselfs i32 46213 46468", f"stselfs i32 -46468 -46213",
            f"stselfs u32 {2 ** 32 - 256} {2 ** 32 - 1}", f"stselfs u32 {2 ** 31 - 128} {2 ** 31 + 127}",
            f"stselfs u64 {2 ** 64 - 256} {2 ** 64 - 1}", f"stselfs i64 {2 ** 63 - 256} {2 ** 63 - 1}",
            f"stselfs i64 {-2 ** 63} {-2 ** 63 + 255}", f"stselfs i64 3037000372 3037000627"]
    yield Batch("st-self", ops, exhaustive=True,
                note="x op x, x op= x, x = x, comparisons and hash with the same object on both sides: every value of the 8- and "
                     "16-bit types, [-128,127] / [0,255] and the overflow boundaries of the wider types")
    # members and helper functions
    ops = [f"stmems i32 {a} -8 8" for a in range(-8, 9)] + [f"stmems u8 {a} 0 255" for a in (0, 1, 65, 128, 255)]
    ops += [f"stmems i8 {a} -128 127" for a in (-128, -1, 0, 48, 127)]
    ops += [f"stmem {ty} {a} {b}" for ty in ("i32", "u32", "i64", "u64", "i16", "u16") for a in BOUNDARY[ty] for b in BOUNDARY[ty]]
    yield Batch("st-members", ops, exhaustive=True,
                note="non-const get(), no_init, copy / move, strong_typedef_map / _apply / _construct_cast, << and >>")
    r = rng.fork("st-random")
    ops = []
    for _ in range(200000 if thorough else 3000):
        ty = r.choice(["i32", "u32", "i64", "u64", "i16", "u16"])
        a = rand_int(r, ty)
        b = a if r.chance(1, 8) else rand_int(r, ty)
        ops.append(f"st {ty} {a} {b}")
        if r.chance(1, 8):
            ops.append(f"stmem {ty} {a} {b}")
            ops.append(f"stself {ty} {a}")
    ops += [f"sts u32 {a} 0 255" for a in ([0, 1, 255, 2 ** 32 - 1] if not thorough else list(range(0, 256)) + [2 ** 32 - 1])]
    if thorough:
        # the same 256-wide windows at the ends of the ranges (overflow on one side)
        ops += [f"sts i32 {a} {2 ** 31 - 256} {2 ** 31 - 1}" for a in range(-128, 128)]
        ops += [f"sts i32 {a} {-2 ** 31} {-2 ** 31 + 255}" for a in range(-128, 128)]
        ops += [f"sts u64 {a} {2 ** 64 - 256} {2 ** 64 - 1}" for a in list(range(0, 64)) + [2 ** 64 - 1 - k for k in range(64)]]
        ops += [f"sts i64 {a} {2 ** 63 - 256} {2 ** 63 - 1}" for a in range(-64, 64)]
    yield Batch("st-random", ops, note="random / boundary-biased operand pairs of int, unsigned, long, unsigned long")
    # ---- part (b): every ordered pair over the component domain {0,1,2}
    for ty in TYPES:
        ml = pairs_maxlen(ty, thorough)
        d = domain(ty, ml)
        yield Batch(f"pairs-{ty}", [f"rels {ty} {ml} {enc(a)}" for a in d], exhaustive=True,
                    note=f"all {len(d)}^2 ordered pairs of values with components in {{0,1,2}} (encodings up to length {ml})")
    # ---- the same pairs with the two values reached along different construction routes (representation must not matter)
    for ty, nr in ROUTES.items():
        ml = MAXLEN_ROUTES[ty][1 if thorough else 0] if ty in MAXLEN_ROUTES else fixed_len(ty)
        d = domain(ty, ml)
        step = 1
        if len(d) > 400 and not thorough:
            step = 5            # 729-value domains: every 5th left operand, all right operands
        rp = [(ra, rb) for ra in range(nr) for rb in range(nr) if (ra, rb) != (0, 0)]
        # + 8: the object is constructed inside a buffer pre-filled with a byte pattern (padding / inactive bytes differ)
        rp += [(8 + ra, (ra + 1) % nr) for ra in range(nr)] + [(ra, 8 + ra) for ra in range(nr)] + [(8, 8)]
        ops = [f"relsr {ty} {ml} {ra} {rb} {enc(a)}" for (ra, rb) in rp for a in d[(ra * nr + rb) % step::step]]
        yield Batch(f"routes-{ty}", ops, exhaustive=(step == 1),
                    note=f"all ordered pairs over {len(d)} values for every pair of the {nr} construction routes "
                         "(constructor, assignment over another value, element-wise writes, insert + erase, reserve / resize …)")
    # ---- the same object on both sides
    ops = []
    for ty in TYPES:
        ml = pairs_maxlen(ty, thorough)
        ops += [f"selfs {ty} {ml} {ra}" for ra in list(range(ROUTES.get(ty, 1))) + [8]]
    yield Batch("self", ops, exhaustive=True, note="x == x, x < x, … hash(x) with the same object on both sides, every value, every route")
    # ---- boundary values in one component
    ops = []
    for ty, lst in BOUNDARY_POS.items():
        for base, poss in lst:
            ops += [f"relb {ty} {enc(base)} {pos} {kind}" for pos, kind in poss]
    yield Batch("boundary-components", ops, exhaustive=True,
                note="all pairs of 19 boundary values of int (15 of short where the position is a short; boxes: 16-bit, "
                     "pos + size must not overflow) in each component position, the other components equal")
    # ---- tree shapes beyond two children, sequences with one difference at every position
    ops = []
    vals = []
    for n in range(1, 6):
        for sh in tree_shapes(n):
            vals.append(tree_enc(sh, [1] * n))
            for k in range(n):
                vals.append(tree_enc(sh, [1] * k + [0] + [1] * (n - k - 1)))
    for i, a in enumerate(vals):
        for j, b in enumerate(vals):
            ops.append(f"relr tree {i % 3} {j % 3} {enc(a)} {enc(b)}")
    yield Batch("tree-shapes", ops, exhaustive=True,
                note=f"all pairs of {len(vals)} trees: every ordered shape up to 5 nodes (up to 4 children), all values equal "
                     "or exactly one node different")
    ops = []
    for n in range(4, 10):
        seqs = [[1] * n] + [[1] * k + [v] + [1] * (n - k - 1) for k in range(n) for v in (0, 2)]
        seqs += [[1] * k for k in range(n - 2, n)] + [[1] * (n - 1) + [0], [1] * (n - 1) + [2]]
        for i, a in enumerate(seqs):
            for j, b in enumerate(seqs):
                ops.append(f"relr rv {i % 5} {j % 5} {enc(a)} {enc(b)}")
                ops.append(f"relr grid1 {i % 4} {j % 4} {enc([len(a)] + a)} {enc([len(b)] + b)}")
        if n in (4, 6, 8, 9):
            shapes = {4: [(2, 2), (1, 4), (4, 1)], 6: [(2, 3), (3, 2), (1, 6), (6, 1)], 8: [(2, 4), (4, 2)], 9: [(3, 3)]}[n]
            full = [q for q in seqs if len(q) == n]
            for a in full:
                for b in full:
                    for (w, h) in shapes:
                        for (w2, h2) in shapes:
                            if a is b or (w, h) == (w2, h2):
                                ops.append(f"rel grid {enc([w, h] + a)} {enc([w2, h2] + b)}")
    # lengths around 16, 32, 64: difference at the first / a middle / the last position, proper prefix
    for n in (15, 16, 17, 31, 32, 33, 63, 64):
        base = [1] * n
        seqs = [base] + [base[:k] + [v] + base[k + 1:] for k in sorted({0, 7, 8, n // 2, n - 2, n - 1}) for v in (0, 2)] + [base[:-1]]
        for i, a in enumerate(seqs):
            for j, b in enumerate(seqs):
                ops.append(f"relr rv {i % 5} {(j % 5) + 8 * (j % 2)} {enc(a)} {enc(b)}")
                ops.append(f"relr grid1 {i % 4} {j % 4} {enc([len(a)] + a)} {enc([len(b)] + b)}")
                if len(a) == n and len(b) == n and n % 2 == 0:
                    ops.append(f"relr grid {i % 4} {j % 4} {enc([n // 2, 2] + a)} {enc([n // 2, 2] + b)}")
                    ops.append(f"rel grid {enc([n // 2, 2] + a)} {enc([2, n // 2] + b)}")
    yield Batch("sequences", ops, exhaustive=True,
                note="raw_vector / 1-D grid of 4..9 (and 15..17, 31..33, 63, 64) elements: equal, one element different at every position (smaller / larger), "
                     "proper prefixes; 2-D grids of the same content in every shape of 4, 6, 8, 9 elements")
    # ---- triples
    r = rng.fork("tri")
    for ty in TYPES:
        ml = tri_maxlen(ty, thorough)
        d = domain(ty, ml)
        if not d:
            continue
        sel, ex = d, True
        yield Batch(f"triples-{ty}", [f"tri {ty} {ml} {enc(a)}" for a in sel], exhaustive=ex,
                    note=f"all triples over {len(d)} values")
    # ---- random values outside the small domain
    r = rng.fork("rel-random")
    ops = []
    for _ in range(300000 if thorough else 5000):
        ty = r.choice(list(TYPES))
        a = rand_value(r, ty, r.chance(2, 3))
        b = near(r, ty, a) if r.chance(1, 2) else rand_value(r, ty, r.chance(2, 3))
        if r.chance(1, 2):
            a, b = b, a
        ops.append(f"rel {ty} {enc(a)} {enc(b)}")
    for _ in range(30000 if thorough else 300):
        ty = r.choice(list(TYPES))
        a = rand_value(r, ty, True)
        b = near(r, ty, a)
        c = near(r, ty, b) if r.chance(1, 2) else rand_value(r, ty, True)
        ops.append(f"tri1 {ty} {enc(a)} {enc(b)} {enc(c)}")
    yield Batch("rel-random", ops, note="random values with components in [-3,3], trees up to 7 nodes, grids up to 3x3, "
                "raw_vectors up to 6 elements; half of the pairs differ in at most one place")
    # ---- wrappers expose the wrapped object
    yield Batch("partial-order-and-padding", [f"fpchk {k}" for k in ("std", "stf", "rvd", "rvp", "cont")], exhaustive=True,
                note="strong_typedef<double/float>: all six comparisons and + - * neg on all pairs of {NaN, -inf, -1.5, -0.0, 0.0, 1.0, inf} against the built-in "
                     "operators; raw_vector<double> (NaN, -0.0, 0.0) and raw_vector of a padded struct with differing padding bytes: == != < > <= >= against "
                     "the element-wise reference; == / != of optional, array, tuple, vector, either, variant holding doubles")
    r = rng.fork("wrap")
    ops = [f"wrap {x}" for x in [0, 1, -1, 2 ** 31 - 1, -2 ** 31]] + [f"wrap {r.range(-2 ** 31, 2 ** 31 - 1)}" for _ in range(200)]
    yield Batch("wrap", ops, note="reference / recursive / unique_ptr / shared_ptr / type_iso show the wrapped object")


MANIFEST = {
    "level_text": ("Machine-checked proof (Lean 4) over an executable model that transcribes every comparison header: for any component "
                   "type whose == is equality and whose < is a strict total order, each type's == holds exactly when the values are equal "
                   "(hence an equivalence), != is its negation, < (where offered) is a strict total order - therefore a strict weak order "
                   "compatible with == - the derived > <= >= agree with it, equal values hash equally for any hash_combine / component hash, "
                   "and no comparison reads out of bounds (grid, raw_vector under their size invariant); strong_typedef operators are "
                   "unwrap-operate-wrap of the C operator, whose value is the exact integer result (signed, when representable) or the result "
                   "modulo 2^bits (unsigned). The model is tied to the code by a differential correspondence that is exhaustive over "
                   "[-128,127]^2 for int, over all pairs of signed / unsigned char (integral promotion), over all unsigned boundary pairs, and over all "
                   "pairs and triples of composite values with components in {0,1,2} - for every pair of construction routes of the two values "
                   "(representation independence: stale storage, padding, inactive alternatives, spare capacity), with the same object on both "
                   "sides, and with boundary values of the component type."),
    "level_note": ("Trusted: Lean kernel + propext/Classical.choice/Quot.sound; fidelity of the hand-written model outside the exercised inputs; "
                   "the standard-library algorithms as transcribed; harness and digest protocol; hashes uninterpreted. No sorry/axiom/native_decide."),
    "technique": "Lean 4 proof over hand-written executable model + exhaustive differential correspondence (ASan/UBSan harness)",
    "design_ref": "DESIGN.md §5 C17",
}
