#!/usr/bin/env python3
"""Second set of self-made mutations of the C14 anchors and of the member-operator code (extension round, notes/C14.md).

    corpus/C14/mutate2.py list
    corpus/C14/mutate2.py apply <name> <scratch worktree of /repo>
    corpus/C14/mutate2.py run <scratch worktree> [name ...]     # apply, ./check.py C14 --tier quick --keep-going, table, revert

Each mutation is (file under libs/core/include/fcppt/math, old text, new text); the old text must occur exactly once.
"""
import json
import os
import subprocess
import sys

ROOT = os.path.dirname(os.path.dirname(os.path.dirname(os.path.abspath(__file__))))

M = {
    # the NON-CONST get_unsafe of a matrix builds its row view with rows() instead of columns(): wrong rows of non-square
    # matrices, only when a row is taken from a non-const matrix (row lvalues)
    "nonconst_get_unsafe_rows": ("matrix/object_impl.hpp",
                                 "  return reference(typename reference::storage_type(storage_, _j, this->columns()));",
                                 "  return reference(typename reference::storage_type(storage_, _j, this->rows()));"),
    # dim (not vector): component-wise *= adds
    "dim_mul_assign_is_add": ("dim/object_impl.hpp", "{ _left_elem *= _right_elem; }", "{ _left_elem += _right_elem; }"),
    # scalar *= forgets the last element of storages with 12 or more elements (3x4, 4x3, 4x4 matrices)
    "multiply_scalar_skips_last_big": ("detail/multiply_scalar.hpp", "        _value[Index] *= _mult;",
                                       "        if constexpr (fcppt::math::detail::storage_size<Storage>::value < 12U || Index + 1U < fcppt::math::detail::storage_size<Storage>::value) { _value[Index] *= _mult; }"),
    # += -= *= run from the last index down: same result unless the operands overlap partially (views of one buffer)
    "member_operator_reverse_order": ("detail/member_operator.hpp",
                                      "fcppt::math::detail::linear_access<Index>(_left.storage()),\n            fcppt::math::detail::linear_access<Index>(_right.storage()));",
                                      "fcppt::math::detail::linear_access<Type1::dim_wrapper::value - 1U - Index>(_left.storage()),\n            fcppt::math::detail::linear_access<Type1::dim_wrapper::value - 1U - Index>(_right.storage()));"),
    # the non-const z() returns y (the const overload is right)
    "vector_z_nonconst_is_y": ("vector/object_impl.hpp",
                               "typename fcppt::math::vector::object<T, N, S>::reference fcppt::math::vector::object<T, N, S>::z()\n{\n  return fcppt::math::detail::checked_access<2>(*this);",
                               "typename fcppt::math::vector::object<T, N, S>::reference fcppt::math::vector::object<T, N, S>::z()\n{\n  return fcppt::math::detail::checked_access<1>(*this);"),
    # the non-const m21() returns m20
    "matrix_m21_nonconst_is_m20": ("matrix/object_impl.hpp",
                                   "fcppt::math::matrix::object<T, R, C, S>::m21()\n{\n  return fcppt::math::detail::checked_access<1>(fcppt::math::detail::checked_access<2>(*this));",
                                   "fcppt::math::matrix::object<T, R, C, S>::m21()\n{\n  return fcppt::math::detail::checked_access<0>(fcppt::math::detail::checked_access<2>(*this));"),
    # dim (not vector): a > b is !(a < b), wrong exactly for equal operands
    "dim_gt_is_ge": ("dim/comparison.hpp", "  return _v2 < _v1;", "  return !(_v1 < _v2);"),
    # division: the divisor -3 counts as zero
    "div_minus_three_is_zero": ("div.hpp", "!fcppt::math::is_zero(_divisor),", "!fcppt::math::is_zero(_divisor) && !(_divisor == static_cast<R>(-3)),"),
    # inverse divides by det^2: wrong exactly for det = -1
    "inverse_det_squared": ("matrix/inverse.hpp", "(fcppt::literal<T>(1) / det)", "(fcppt::literal<T>(1) / (det * det))"),
    # matrix -= adds when the operand has another storage type
    "matrix_sub_assign_mixed_is_add": ("matrix/object_impl.hpp", "{ _left_elem -= _right_elem; }",
                                       "{ if constexpr (std::is_same_v<S, S2>) { _left_elem -= _right_elem; } else { _left_elem += _right_elem; } }"),
    # the converting operator= into a view does not write element 0
    "converting_assign_into_view_skips_first": ("detail/assign.hpp", "        _dest.storage()[Index] = _src.storage()[Index];",
                                                "        if constexpr (Index != 0U || fcppt::math::is_static_storage<typename Dest::storage_type>::value) { _dest.storage()[Index] = _src.storage()[Index]; }"),
    # vector += reads its right operand twice (half, then the rest): exact unless the right operand is the target
    "vector_add_assign_reads_twice": ("vector/object_impl.hpp", "{ _left_elem += _right_elem; }",
                                      "{ _left_elem += _right_elem / 2; _left_elem += _right_elem - _right_elem / 2; }"),
    # seeded C14-1 restricted to matrices: a matrix passes the scalar on by reference through a member_operator-like loop
    "matrix_scalar_by_reference": ("matrix/object_impl.hpp", "  fcppt::math::detail::multiply_scalar(storage_, _value);\n",
                                   "  fcppt::algorithm::loop(fcppt::math::int_range_count<R * C>{}, [this, &_value]<fcppt::math::size_type Index>(fcppt::tag<fcppt::math::size_constant<Index>>) { storage_[Index] *= _value; });\n"),
}

# third set: the neighbouring API, the converting constructor, three EQUIVALENT mutants that must not be flagged
M.update({
    # the converting constructor swaps the first two elements when it copies out of a MUTABLE view (row view of a non-const matrix,
    # mutable buffer view); copies out of const views and static objects are right
    "copy_from_mutable_view_swaps": ("detail/copy.hpp",
                                     "linear_access<fcppt::cast::size<fcppt::math::size_type>(Index)>(",
                                     "linear_access<fcppt::cast::size<fcppt::math::size_type>((std::is_same_v<typename Arg::storage_type::reference, typename Arg::value_type &> && !fcppt::math::is_static_storage<typename Arg::storage_type>::value && Result::storage_size::value >= 2U) ? (Index == 0U ? 1U : Index == 1U ? 0U : Index) : Index)>("),
    # the defect that was fixed before: quotient + 1 whenever there is a remainder (wrong when the exact quotient is negative)
    "ceil_div_signed_ignores_signs": ("ceil_div_signed.hpp", "return remainder != zero && ((remainder < zero) == (_divisor < zero))", "return remainder != zero"),
    "infinity_norm_no_abs": ("matrix/infinity_norm.hpp", "std::abs(fcppt::math::matrix::at_r_c<Row, Col>(_matrix));", "fcppt::math::matrix::at_r_c<Row, Col>(_matrix);"),
    "contents_starts_at_zero_n4": ("dim/contents.hpp", "      fcppt::literal<T>(1),", "      fcppt::literal<T>(N == 4U ? 0 : 1),"),
    "unit_le_axis": ("vector/unit.hpp", "_index == _axis ? 1 : 0", "(_index == _axis || (_axis == 3U && _index == 0U)) ? 1 : 0"),
    "transform_direction_w_one": ("matrix/transform_direction.hpp", "fcppt::math::vector::push_back(_vector, fcppt::literal<T>(0))", "fcppt::math::vector::push_back(_vector, fcppt::literal<T>(1))"),
    "vector_minus_dim_reversed_n3": ("vector/dim.hpp", "        return _left_elem - _right_elem;", "        return N == 3U ? _right_elem - _left_elem : _left_elem - _right_elem;"),
    # equivalent mutants (must NOT be flagged)
    "EQUIV_ceil_div_sign_of_dividend": ("ceil_div_signed.hpp", "((remainder < zero) == (_divisor < zero))", "((_dividend < zero) == (_divisor < zero))"),
    "EQUIV_infinity_norm_starts_at_zero": ("matrix/infinity_norm.hpp", "      std::numeric_limits<T>::min(),", "      fcppt::literal<T>(0),"),
    "EQUIV_is_quadratic_adjacent": ("dim/is_quadratic.hpp", "{ return fcppt::math::dim::at<Index>(_dim) == _first; });",
                                    "{ (void)_first; return fcppt::math::dim::at<Index>(_dim) == fcppt::math::dim::at<(Index == 0U ? 0U : Index - 1U)>(_dim); });"),
})


def apply(name, tree):
    f, old, new = M[name]
    p = os.path.join(tree, "libs/core/include/fcppt/math", f)
    s = open(p).read()
    if s.count(old) != 1:
        print(f"{name}: old text occurs {s.count(old)} times in {p}")
        return False
    open(p, "w").write(s.replace(old, new))
    return True


def main():
    if len(sys.argv) >= 2 and sys.argv[1] == "list":
        print("\n".join(M))
        return 0
    if len(sys.argv) == 4 and sys.argv[1] == "apply":
        return 0 if apply(sys.argv[2], sys.argv[3]) else 1
    if len(sys.argv) >= 3 and sys.argv[1] == "run":
        tree = sys.argv[2]
        names = sys.argv[3:] or list(M)
        evp = os.path.join(ROOT, "evidence", "C14.json")
        saved = open(evp).read() if os.path.exists(evp) else None
        for name in names:
            subprocess.run(["git", "-C", tree, "checkout", "-q", "."], check=True)
            if not apply(name, tree):
                continue
            env = dict(os.environ, VERIF_REPO=tree)
            p = subprocess.run([os.path.join(ROOT, "check.py"), "C14", "--tier", "quick", "--keep-going"], env=env, capture_output=True, text=True, cwd=ROOT)
            last = [l for l in p.stdout.splitlines() if l.strip()][-1:] or [""]
            try:
                # a run against another tree (VERIF_REPO) writes its evidence next to the replays
                ev = json.load(open(os.path.join(ROOT, "replays", "evidence-C14-other-tree.json")))
                caught = ", ".join(f"{b['batch']} {b['diffs']}" for b in ev["coverage"]["batches"] if b["diffs"])
                vio = ev.get("violations", [])
                kinds = sorted({v.get("kind", "?") for v in vio}) if isinstance(vio, list) else [f"violations={vio}"]
            except Exception as e:  # noqa: BLE001
                caught, kinds = f"(no evidence: {e})", []
            print(f"| `{name}` | rc={p.returncode} | {caught or '-'} | {' '.join(kinds)} | {last[0][:120]}", flush=True)
            subprocess.run(["git", "-C", tree, "checkout", "-q", "."], check=True)
            if saved is not None:
                open(evp, "w").write(saved)
        return 0
    print(__doc__)
    return 2


if __name__ == "__main__":
    sys.exit(main())
