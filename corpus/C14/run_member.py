#!/usr/bin/env python3
"""Developer helper: runs only the batches added in the extension round (systematic all-pairs batches and the member-operator
batches, ops vecs / crs / sqs / mvs / mem / mems) of props/c14.py through harness and driver and reports differing lines.
`VERIF_REPO=<tree> corpus/C14/run_member.py [quick|thorough] [seed]`."""
import os
import sys
import time

ROOT = os.path.dirname(os.path.dirname(os.path.dirname(os.path.abspath(__file__))))
sys.path.insert(0, ROOT)
import props.c14 as prop  # noqa: E402
from vlib import harness as hbuild, runner  # noqa: E402
from vlib.rng import Rng  # noqa: E402

tier = sys.argv[1] if len(sys.argv) > 1 else "quick"
seed = int(sys.argv[2]) if len(sys.argv) > 2 else 1
t0 = time.time()
binp, info = hbuild.build(prop.HARNESS)
print("harness", info.get("cached"), info.get("seconds"), info.get("error", "")[-2000:])
if binp is None:
    sys.exit(2)
bad = 0
rng = Rng(seed)
for b in list(prop.systematic_batches(rng, tier == "thorough")) + list(prop.neighbour_batches(rng, tier == "thorough")) + list(prop.member_batches(rng, tier == "thorough")):
    t1 = time.time()
    impl, deaths = runner.run_harness(binp, b.ops)
    t2 = time.time()
    model = runner.run_driver(prop, b.ops)
    t3 = time.time()
    diffs = [(o, x, y) for o, x, y in zip(b.ops, impl, model) if x != y]
    badop = sum(1 for y in model if y == "bad-op")
    print(f"{b.name}: {len(b.ops)} ops, {len(diffs)} diffs, {len(deaths)} deaths, model bad-op {badop}, harness {t2 - t1:.1f}s driver {t3 - t2:.1f}s")
    for o, x, y in diffs[:5]:
        print("  DIFF", o, "\n    impl ", x[:300], "\n    model", y[:300])
    bad += len(diffs)
print("total", round(time.time() - t0, 1), "s; differing lines", bad)
sys.exit(1 if bad else 0)
