#!/usr/bin/env python3
"""Self-made mutations of the C14 anchors (notes/C14.md, section "Mutations").

    corpus/C14/mutate.py list
    corpus/C14/mutate.py apply <name> <scratch worktree of /repo>

Each mutation is (file under libs/core/include/fcppt/math, old text, new text); the old text must occur exactly once.
Usage of a scratch copy:  git -C /repo worktree add --detach /tmp/rw/c14 HEAD ; mutate.py apply M /tmp/rw/c14 ;
VERIF_REPO=/tmp/rw/c14 ./check.py C14 --keep-going ; git -C /repo worktree remove --force /tmp/rw/c14
"""
import os
import sys

M = {
    "index_absolute_swapped": ("matrix/detail/index_absolute.hpp",
                               "fcppt::math::matrix::index<Absolute / C, Absolute % C>",
                               "fcppt::math::matrix::index<Absolute % C, Absolute / C>"),
    "laplace_no_sign_n4": ("matrix/detail/determinant.hpp",
                           "Row % fcppt::literal<fcppt::math::size_type>(2) ==\n                    fcppt::literal<fcppt::math::size_type>(0)",
                           "(N == 4U || Row % fcppt::literal<fcppt::math::size_type>(2) ==\n                    fcppt::literal<fcppt::math::size_type>(0))"),
    "adjugate_not_transposed_n3": ("matrix/adjugate.hpp",
                                   "fcppt::math::matrix::delete_row_and_column<C, R>(_matrix)",
                                   "fcppt::math::matrix::delete_row_and_column<(N >= 3U ? R : C), (N >= 3U ? C : R)>(_matrix)"),
    "cross_component_swapped": ("vector/cross.hpp", "l.z() * r.x() - l.x() * r.z()", "l.x() * r.z() - l.z() * r.x()"),
    "array_less_le": ("detail/array_less.hpp",
                      "array_a.begin(), array_a.end(), array_b.begin(), array_b.end());",
                      "array_a.begin(), array_a.end(), array_b.begin(), array_b.end(), [](auto const &_x, auto const &_y) { return _x <= _y; });"),
    "deleted_index_gt": ("matrix/detail/deleted_index.hpp", "return _cur >= _rem ?", "return _cur > _rem ?"),
    "mulvec_start_one_c3": ("matrix/vector.hpp", "fcppt::literal<value_type>(0),", "fcppt::literal<value_type>(C == 3U ? 1 : 0),"),
    "identity_lower_triangular_n4": ("matrix/identity.hpp", "return Row == Col ?",
                                     "return (result_type::static_rows::value == 4U ? Row >= Col : Row == Col) ?"),
    "dot_drops_last_n4": ("vector/dot.hpp", "fcppt::math::int_range_count<N>{},", "fcppt::math::int_range_count<(N == 4U ? 3U : N)>{},"),
    "transpose_identity_3x3": ("matrix/transpose.hpp", "return fcppt::math::matrix::at_r_c<Col, Row>(_matrix);",
                               "if constexpr (R == 3U && C == 3U) { return fcppt::math::matrix::at_r_c<Row, Col>(_matrix); } else { return fcppt::math::matrix::at_r_c<Col, Row>(_matrix); }"),
    "narrow_cast_shifted": ("detail/narrow_cast.hpp", "checked_access<Index>(_other)", "checked_access<Index + 1U>(_other)"),
    "scaling_y_z_swapped": ("matrix/scaling.hpp",
                            "fcppt::math::matrix::row(zero, _y, zero, zero),\n      fcppt::math::matrix::row(zero, zero, _z, zero),",
                            "fcppt::math::matrix::row(zero, _z, zero, zero),\n      fcppt::math::matrix::row(zero, zero, _y, zero),"),
    "array_equal_ignores_last": ("detail/array_equal.hpp",
                                 "fcppt::math::detail::storage_size<typename T1::storage_type>::value>{},",
                                 "(fcppt::math::detail::storage_size<typename T1::storage_type>::value >= 3U ? fcppt::math::detail::storage_size<typename T1::storage_type>::value - 1U : fcppt::math::detail::storage_size<typename T1::storage_type>::value)>{},"),
    "bit_strings_one_first": ("vector/detail/bit_strings.hpp",
                              "std::enable_if_t<N != 0U, void> bit_strings(ForwardIterator &it, Vector _vector)\n{\n  fcppt::math::vector::at<N>(_vector) = fcppt::literal<fcppt::type_traits::value_type<Vector>>(0);",
                              "std::enable_if_t<N != 0U, void> bit_strings(ForwardIterator &it, Vector _vector)\n{\n  fcppt::math::vector::at<N>(_vector) = fcppt::literal<fcppt::type_traits::value_type<Vector>>(N == 2U ? 1 : 0);"),
    "structure_cast_first_element": ("detail/structure_cast.hpp", "_other.storage()[_index]", "_other.storage()[_index == 2U ? 0U : _index]"),
    "product_drops_last_n4": ("matrix/arithmetic.hpp", "fcppt::math::int_range_count<N>{},\n            fcppt::literal<value_type>(0),",
                              "fcppt::math::int_range_count<(N == 4U ? 3U : N)>{},\n            fcppt::literal<value_type>(0),"),
    "translation_x_in_row_1": ("matrix/translation.hpp",
                               "fcppt::math::matrix::row(one, zero, zero, _x),\n      fcppt::math::matrix::row(zero, one, zero, _y),",
                               "fcppt::math::matrix::row(one, zero, zero, _y),\n      fcppt::math::matrix::row(zero, one, zero, _x),"),
    "row_view_offset_rows": ("matrix/detail/row_view_impl.hpp", "offset_{_index * _columns}", "offset_{_index * (_columns == 3U && _index == 2U ? 2U : _columns)}"),
    "det_empty_zero_again": ("matrix/detail/determinant.hpp", "return fcppt::literal<T>(1);\n  }", "return fcppt::literal<T>(0);\n  }"),
    "push_back_front": ("detail/push_back.hpp", "{ return fcppt::math::detail::checked_access<Index>(_src); }),\n      _value));",
                        "{ return fcppt::math::detail::checked_access<(Index + 1U) % Src::static_size::value>(_src); }),\n      _value));"),
    "index_absolute_mirrored": ("matrix/detail/index_absolute.hpp",
                                "fcppt::math::matrix::index<Absolute / C, Absolute % C>",
                                "fcppt::math::matrix::index<Absolute / C, (C - 1U) - Absolute % C>"),
    "binary_map_sources_swapped": ("detail/binary_map.hpp",
                                   "_function, fcppt::math::to_array(_source1), fcppt::math::to_array(_source2)",
                                   "_function, fcppt::math::to_array(_source2), fcppt::math::to_array(_source1)"),
    "linear_access_second_is_first": ("detail/linear_access.hpp", "return _storage[Index];", "return _storage[Index == 1U ? 0U : Index];"),
    "checked_access_last_is_first": ("detail/checked_access.hpp", "return _value.get_unsafe(N);",
                                     "return _value.get_unsafe(N + 1U == static_size::value && N >= 2U ? 0U : N);"),
    "product_wrong_for_one_triple": ("matrix/arithmetic.hpp", "return _sum + fcppt::math::matrix::at_r_c<Row, Pos>(_left) *",
                                     "return _sum + (M1 == 2U && Row == 1U && Col == 1U && Pos == 1U && fcppt::math::matrix::at_r_c<0, 0>(_left) == 5 ? 1 : 0) + fcppt::math::matrix::at_r_c<Row, Pos>(_left) *"),
    # algebraically the same function (r*r + (l-r)*r = l*r): an equivalent mutant, must NOT be flagged
    "smul_left_uses_right_twice": ("matrix/arithmetic.hpp", "return _left * _right_element;", "return _right_element * _right_element + (_left - _right_element) * _right_element;"),
}


def main():
    if len(sys.argv) >= 2 and sys.argv[1] == "list":
        print("\n".join(M))
        return 0
    if len(sys.argv) == 4 and sys.argv[1] == "apply":
        f, old, new = M[sys.argv[2]]
        p = os.path.join(sys.argv[3], "libs/core/include/fcppt/math", f)
        s = open(p).read()
        if s.count(old) != 1:
            print(f"{sys.argv[2]}: old text occurs {s.count(old)} times in {p}")
            return 1
        open(p, "w").write(s.replace(old, new))
        return 0
    print(__doc__)
    return 2


if __name__ == "__main__":
    sys.exit(main())
