"""The check runner: DESIGN.md §2.4.

    check.py <ID> [--tier quick|thorough] [--seed N] [--replay FILE]

1. Lean: build the property's proof modules + driver, scan sources, #print axioms (thorough: leanchecker)
2. build the C++ harness from /repo's working tree
3. correspondence: corpus + generated operation batches through harness and driver, diff
4. on any broken obligation / disagreement: localise, shrink, classify against known_findings.json,
   write a replay file, print VIOLATION (… no-failing-input-found when only an obligation broke)
5. write evidence/<ID>.json
"""
import argparse
import hashlib
import importlib
import json
import os
import subprocess
import sys
import tempfile
import time

from . import harness as hbuild
from . import lean, paths
from .rng import Rng


class Batch:
    """A list of operation lines.  kind='stateless': every line is an independent case.
    kind='history': the line `reset` starts a new case; lines of one case share state."""

    def __init__(self, name, ops, kind="stateless", exhaustive=False, note=""):
        self.name, self.ops, self.kind, self.exhaustive, self.note = name, list(ops), kind, exhaustive, note


def load_prop(pid):
    return importlib.import_module("props." + pid.lower())


# ---------------------------------------------------------------- running both sides

NPROC = max(2, min(16, (os.cpu_count() or 4)))


def is_reset(line):
    """`reset` (optionally followed by constructor arguments) starts a new history."""
    return line == "reset" or line.startswith("reset ")


def split_ops(ops, history, parts):
    """Cut points for running a batch in several processes: anywhere for stateless batches, only in front of a
    `reset` line for histories."""
    if len(ops) < 64 or parts <= 1:
        return [(0, len(ops))]
    cuts, step = [0], max(1, len(ops) // parts)
    want = step
    for i in range(1, len(ops)):
        if i >= want and (not history or is_reset(ops[i])):
            cuts.append(i)
            want = i + step
    cuts.append(len(ops))
    return [(a, b) for a, b in zip(cuts, cuts[1:]) if b > a]


def run_driver(prop, ops, timeout=3000, history=False, parts=None):
    from concurrent.futures import ThreadPoolExecutor
    sp = split_ops(ops, history, parts or NPROC // 2)
    if len(sp) == 1:
        return run_driver1(prop, ops, timeout)
    with ThreadPoolExecutor(max_workers=len(sp)) as ex:
        res = list(ex.map(lambda ab: run_driver1(prop, ops[ab[0]:ab[1]], timeout), sp))
    return [l for r in res for l in r]


def run_harness(binp, ops, history=False, timeout=3000, max_restarts=12, parts=None):
    from concurrent.futures import ThreadPoolExecutor
    sp = split_ops(ops, history, parts or NPROC // 2)
    if len(sp) == 1:
        return run_harness1(binp, ops, history, timeout, max_restarts)
    with ThreadPoolExecutor(max_workers=len(sp)) as ex:
        res = list(ex.map(lambda ab: run_harness1(binp, ops[ab[0]:ab[1]], history, timeout, max_restarts), sp))
    lines, deaths = [], []
    for (a, _), (l, d) in zip(sp, res):
        lines += l
        deaths += [dict(x, at=x["at"] + a) for x in d]
    return lines, deaths


def run_driver1(prop, ops, timeout=3000):
    p = subprocess.run([paths.DRIVER, getattr(prop, "DRIVER_ARG", prop.ID)], input="\n".join(ops) + "\n",
                       capture_output=True, text=True, timeout=timeout)
    lines = p.stdout.split("\n")
    if lines and lines[-1] == "":
        lines.pop()
    if p.returncode != 0 or len(lines) != len(ops):
        raise RuntimeError(f"driver failed (rc={p.returncode}, {len(lines)} lines for {len(ops)} ops): {p.stderr[-500:]}")
    return lines


SAN_ENV = {
    "ASAN_OPTIONS": "detect_leaks=1:abort_on_error=0:exitcode=99:allocator_may_return_null=1:detect_stack_use_after_return=0",
    "UBSAN_OPTIONS": "print_stacktrace=1:halt_on_error=1:exitcode=98",
    "LSAN_OPTIONS": "exitcode=97",
    "TSAN_OPTIONS": "exitcode=96:halt_on_error=1",
}


def _summ(stderr):
    for l in stderr.split("\n"):
        if "SUMMARY:" in l or "runtime error:" in l or "Assertion" in l or "terminate called" in l:
            return l.strip()[:300]
    return stderr.strip().split("\n")[-1][:300] if stderr.strip() else ""


def run_harness1(binp, ops, history=False, timeout=3000, max_restarts=12):
    """Runs the harness; if it dies on an op, that op's result is CRASH/TIMEOUT(...) and the run resumes
    after it (for histories: at the next `reset`).  Returns (lines, deaths)."""
    env = dict(os.environ)
    env.update(SAN_ENV)
    out = [None] * len(ops)
    deaths = []
    start = 0
    restarts = 0
    while start < len(ops):
        chunk = ops[start:]
        try:
            p = subprocess.run([binp], input="\n".join(chunk) + "\n", capture_output=True, text=True, timeout=timeout, env=env)
            rc, so, se = p.returncode, p.stdout, p.stderr
        except subprocess.TimeoutExpired as e:
            rc, so, se = -9, (e.stdout or b"").decode() if isinstance(e.stdout, bytes) else (e.stdout or ""), "harness wall-clock timeout"
        lines = so.split("\n")
        if lines and lines[-1] == "":
            lines.pop()
        died = rc != 0
        if not died and len(lines) != len(chunk):
            died = True
        if not died:
            out[start:] = lines
            break
        # the last printed line may be the death marker of the op that killed it
        marker = None
        if lines and (lines[-1] == "TIMEOUT" or lines[-1].startswith("CRASH")):
            marker = lines.pop()
        k = len(lines)
        if k >= len(chunk):      # died after the last op (e.g. leak report at exit)
            out[start:] = lines[:len(chunk)]
            deaths.append({"at": len(ops) - 1, "op": ops[-1], "how": "at-exit: " + _summ(se), "rc": rc})
            out[len(ops) - 1] = out[len(ops) - 1] + " AT-EXIT(" + _summ(se) + ")"
            break
        out[start:start + k] = lines
        how = marker if marker == "TIMEOUT" else "CRASH(" + _summ(se) + ")"
        out[start + k] = how
        deaths.append({"at": start + k, "op": ops[start + k], "how": how, "rc": rc})
        nxt = start + k + 1
        if history:
            while nxt < len(ops) and not is_reset(ops[nxt]):
                out[nxt] = "SKIPPED-AFTER-DEATH"
                nxt += 1
        start = nxt
        restarts += 1
        if restarts > max_restarts:
            for i in range(start, len(ops)):
                out[i] = "NOT-RUN"
            break
    return out, deaths


def same(prop, op, impl, model):
    if impl == model:
        return True
    if impl == "TIMEOUT" and model.startswith("diverge"):
        return True
    f = getattr(prop, "equivalent", None)
    return bool(f and f(op, impl, model))


# ---------------------------------------------------------------- shrinking

def differs(prop, binp, ops, history):
    try:
        m = run_driver(prop, ops)
    except Exception:
        return True
    i, _ = run_harness(binp, ops, history=history, max_restarts=0)
    return any(not same(prop, o, a, b) for o, a, b in zip(ops, i, m) if a not in ("SKIPPED-AFTER-DEATH", "NOT-RUN"))


def ddmin(prop, binp, case, budget=120, head="reset"):
    """case: list of op lines of one history (without the leading reset line `head`).  Classic ddmin on lines."""
    t0 = time.time()
    n = 2
    cur = list(case)
    while len(cur) >= 2 and time.time() - t0 < budget:
        chunk = max(1, len(cur) // n)
        reduced = False
        for i in range(0, len(cur), chunk):
            cand = cur[:i] + cur[i + chunk:]
            if cand and differs(prop, binp, [head] + cand, True):
                cur, n, reduced = cand, max(n - 1, 2), True
                break
        if not reduced:
            if chunk == 1:
                break
            n = min(len(cur), n * 2)
    return cur


# ---------------------------------------------------------------- findings, replays, evidence

def load_findings():
    f = os.path.join(paths.ROOT, "known_findings.json")
    return json.load(open(f)) if os.path.exists(f) else []


def write_replay(pid, body):
    os.makedirs(paths.REPLAYS, exist_ok=True)
    h = hashlib.sha256(json.dumps(body, sort_keys=True).encode()).hexdigest()[:12]
    path = os.path.join(paths.REPLAYS, f"{pid}-{h}.json")
    body = dict(body, property=pid, replay_cmd=f"./check.py {pid} --replay {path}")
    json.dump(body, open(path, "w"), indent=1)
    return path


def write_evidence(pid, ev):
    # a run against a mutated copy of fcppt (VERIF_REPO) must never overwrite the evidence of the real tree
    if os.path.realpath(paths.REPO) != "/repo":
        os.makedirs(paths.REPLAYS, exist_ok=True)
        with open(os.path.join(paths.REPLAYS, f"evidence-{pid}-other-tree.json"), "w") as f:
            json.dump(ev, f, indent=1)
        return
    os.makedirs(paths.EVIDENCE, exist_ok=True)
    tmp = os.path.join(paths.EVIDENCE, f".{pid}.{os.getpid()}.tmp")
    json.dump(ev, open(tmp, "w"), indent=1)
    os.replace(tmp, os.path.join(paths.EVIDENCE, f"{pid}.json"))


# ---------------------------------------------------------------- main

def main(argv=None):
    ap = argparse.ArgumentParser()
    ap.add_argument("pid")
    ap.add_argument("--tier", default=os.environ.get("VERIF_TIER") or "quick", choices=["quick", "thorough"])
    ap.add_argument("--seed", type=int, default=None)
    ap.add_argument("--replay")
    ap.add_argument("--keep-going", action="store_true")
    a = ap.parse_args(argv)
    if os.environ.get("VERIF_TIER") in ("quick", "thorough"):
        a.tier = os.environ["VERIF_TIER"]
    seed = a.seed if a.seed is not None else int(os.environ.get("VERIF_SEED", "1") or 1)
    pid = a.pid.upper()
    sys.path.insert(0, paths.ROOT)
    prop = load_prop(pid)
    t0 = time.time()
    thorough = a.tier == "thorough"
    out = lambda s: (print(s), sys.stdout.flush())

    violations = []     # dicts: kind, ops, expected, observed, note
    known_lines = []
    ev = {"property_id": pid, "tier": a.tier, "seed": seed, "level": "proof", "coverage": {}, "assumptions": list(getattr(prop, "ASSUMPTIONS", [])),
          "wall_s": 0.0, "violations": 0}

    # 0. regeneration of translated models (properties that have a translator)
    gen_info = None
    if hasattr(prop, "regenerate"):
        gen_info = prop.regenerate()
        if gen_info.get("error"):
            violations.append({"kind": "unchecked-obligation", "what": "translation of /repo sources failed: " + gen_info["error"],
                               "theorems": ["<translation>"]})

    # 1. Lean
    targets = list(prop.LEAN_PROPS) + list(getattr(prop, "LEAN_EXTRA", [])) + ["driver"]
    lres = lean.check_property(list(prop.LEAN_PROPS), targets, thorough=thorough)
    if not os.path.exists(paths.DRIVER):
        out(f"ERROR property={pid} driver executable missing after lake build:\n{lres.get('build_log_tail', '')}")
        return 2
    if lres["problems"]:
        violations.append({"kind": "unchecked-obligation", "what": "; ".join(lres["problems"]), "theorems": lres["unchecked"]})

    # 2. harness
    binp, hinfo = hbuild.build(prop.HARNESS)
    if binp is None:
        if hinfo.get("kind") in ("compile-error", "link-error", "missing-source"):
            # the observed API changed (or a source vanished): a broken correspondence, not an infrastructure error
            violations.append({"kind": "broken-correspondence", "what": "harness does not build against /repo: " + hinfo.get("error", "")[-1500:]})
        else:
            out(f"ERROR property={pid} harness build: {hinfo}")
            return 2

    # replay mode ---------------------------------------------------------
    if a.replay:
        body = json.load(open(a.replay))
        ops = body.get("ops") or []
        if not ops or binp is None:
            out(f"replay {a.replay}: nothing to run (kind={body.get('kind')})")
            return 1 if violations else 0
        hist = body.get("batch_kind") == "history"
        m = run_driver(prop, ops)
        i, deaths = run_harness(binp, ops, history=hist)
        bad = 0
        for o, x, y in zip(ops, i, m):
            flag = "ok " if same(prop, o, x, y) else "DIFF"
            bad += flag == "DIFF"
            out(f"{flag} op: {o}\n     impl : {x}\n     model: {y}")
        out(f"replay: {bad} differing line(s)")
        return 1 if bad else 0

    # 3. correspondence ----------------------------------------------------
    rng = Rng(seed)
    evaluations = 0
    nontrivial = set()
    samples = []
    batch_stats = []
    total_deaths = 0
    exhaustive_all = True
    findings = load_findings()
    if binp is not None:
        batches = []
        cdir = os.path.join(paths.CORPUS, pid)
        if os.path.isdir(cdir):
            for f in sorted(os.listdir(cdir)):
                if f.endswith(".ops"):
                    lines = [l.rstrip("\n") for l in open(os.path.join(cdir, f)) if l.strip() and not l.startswith("#")]
                    kind = "history" if lines and is_reset(lines[0]) else "stateless"
                    batches.append(Batch("corpus/" + f, lines, kind=kind))
        batches += list(prop.batches(rng, a.tier))
        for b in batches:
            if not b.ops:
                continue
            bt = time.time()
            hist = b.kind == "history"
            from concurrent.futures import ThreadPoolExecutor
            with ThreadPoolExecutor(max_workers=2) as ex:
                fm = ex.submit(run_driver, prop, b.ops, 3000, hist)
                fi = ex.submit(run_harness, binp, b.ops, hist)
                model = fm.result()
                impl, deaths = fi.result()
            total_deaths += len(deaths)
            wt = getattr(prop, "weight", None)
            evaluations += sum(wt(o) for o in b.ops) if wt else len(b.ops)
            exhaustive_all = exhaustive_all and b.exhaustive
            nt = getattr(prop, "nontrivial", None)
            for o, x in zip(b.ops, model):
                if not (hist and is_reset(o) and o == "reset") and (nt is None or nt(o, x)):
                    nontrivial.add(o if not hist else (o, x))
            if len(samples) < 12:
                k = min(len(b.ops) - 1, 1 + rng.below(max(1, len(b.ops) - 1)))
                samples.append({"batch": b.name, "op": b.ops[k], "model": model[k], "impl": impl[k]})
            diffs = [k for k, (o, x, y) in enumerate(zip(b.ops, impl, model))
                     if x not in ("SKIPPED-AFTER-DEATH", "NOT-RUN") and not same(prop, o, x, y)]
            # a generated line that BOTH sides reject agrees silently and tests nothing: counted, reported in the evidence
            rejected = sum(1 for x, y in zip(impl, model) if x == "bad-op" and y == "bad-op")
            if rejected and not b.name.startswith("corpus/"):   # corpus files may hold deliberately malformed lines
                sys.stderr.write(f"WARNING property={pid} batch={b.name}: {rejected} generated line(s) answered bad-op by both sides\n")
            batch_stats.append({"batch": b.name, "ops": len(b.ops), "kind": b.kind, "exhaustive": b.exhaustive,
                                "diffs": len(diffs), "deaths": len(deaths), "rejected_by_both": rejected, "seconds": round(time.time() - bt, 1), "note": b.note})
            for k in diffs[:3]:
                v = localise(prop, binp, b, k, impl, model)
                violations.append(v)
            if diffs and not a.keep_going:
                break

    # 4. classify / report ---------------------------------------------------
    if hasattr(prop, "extra_checks"):
        # property-specific observations that are not a model/implementation diff (e.g. TSan runs)
        for v in prop.extra_checks(binp, rng, a.tier, ev):
            violations.append(v)
    reported = []
    classify = getattr(prop, "classify", None)
    for v in violations:
        fid = classify(v, findings) if classify else None
        if fid is not None:
            line = fid.get("line") or f"KNOWN-FINDING: property={pid} {fid.get('what')}"
            if line not in known_lines:
                known_lines.append(line)
        else:
            reported.append(v)
    # listed known findings that the check exercises on every run print their line even though nothing differs
    if hasattr(prop, "known_finding_lines"):
        for line in prop.known_finding_lines(findings, ev):
            if line not in known_lines:
                known_lines.append(line)
    for l in known_lines:
        out(l)

    if reported and any(v["kind"] in ("unchecked-obligation", "broken-correspondence") for v in reported) \
            and not any(v["kind"] == "input" for v in reported) and binp is not None and hasattr(prop, "search"):
        # an obligation broke but the regular batches found nothing: dedicated search for a failing input
        found = prop.search(binp, rng, a.tier)
        if found:
            reported = [found] + reported

    rc = 0
    if reported:
        rc = 1
        inputs = [v for v in reported if v["kind"] == "input"]
        if inputs:
            for v in inputs[:3]:
                path = write_replay(pid, dict(v, seed=seed, tier=a.tier))
                out(f"VIOLATION property={pid} replay={path}")
        else:
            body = {"kind": "unchecked-obligation", "seed": seed, "tier": a.tier,
                    "theorems": sorted({t for v in reported for t in v.get("theorems", [])}),
                    "what": [v["what"] for v in reported]}
            path = write_replay(pid, body)
            out(f"VIOLATION property={pid} replay={path} no-failing-input-found")

    # 5. evidence -------------------------------------------------------------
    cov = ev["coverage"]
    cov.update({
        "obligations": lres["obligations"],
        "discharged": lres["discharged"],
        "checker_cmd": f"cd {paths.LEAN} && lake build {' '.join(targets)}  # then `#print axioms` on every theorem of {', '.join(prop.LEAN_PROPS)}" + ("; lake env leanchecker <module>" if thorough else ""),
        "trusted_base": ["Lean 4.33.0 kernel"] + [f"axiom {x}" for x in lres.get("axioms_used", [])] + list(getattr(prop, "TRUSTED", [])),
        "theorems": sorted(lres["axioms"].keys()) if lres.get("axioms") else [],
        "unchecked": lres["unchecked"],
        "lean_build_s": lres["build_s"],
        "evaluations": evaluations,
        "distinct_nontrivial": len(nontrivial),
        "rule": getattr(prop, "RULE", ""),
        "samples": samples if samples else [{"note": "no correspondence run (harness unavailable)"}],
        "exhaustive": bool(exhaustive_all and batch_stats),
        "batches": batch_stats,
        "harness": {k: hinfo.get(k) for k in ("cached", "key", "seconds", "kind")},
        "sanitizer_or_watchdog_deaths": total_deaths,
        "known_findings_reported": known_lines,
        "tie": getattr(prop, "TIE", "correspondence"),
    })
    if gen_info:
        cov["translation"] = {k: v for k, v in gen_info.items() if k != "error"}
    if lres.get("leanchecker"):
        cov["leanchecker"] = lres["leanchecker"]
    ev["violations"] = len(reported)
    ev["wall_s"] = round(time.time() - t0, 1)
    write_evidence(pid, ev)
    if rc == 0:
        out(f"OK property={pid} tier={a.tier} seed={seed} theorems={lres['discharged']}/{lres['obligations']} ops={evaluations} wall={ev['wall_s']}s")
    return rc


def localise(prop, binp, b, k, impl, model):
    """Turn the k-th differing line of batch b into a minimal replayable case."""
    if b.kind == "history":
        s = k
        while s > 0 and not is_reset(b.ops[s]):
            s -= 1
        head = b.ops[s] if is_reset(b.ops[s]) else "reset"
        case = [o for o in b.ops[s + 1:k + 1]] if is_reset(b.ops[s]) else list(b.ops[s:k + 1])
        small = ddmin(prop, binp, case, head=head) if case else []
        ops = [head] + small
    else:
        ops = [b.ops[k]]
        ref = getattr(prop, "refine", None)
        # digest-style ops: ask the plugin for finer ops until a single input differs
        for _ in range(6):
            if not ref:
                break
            finer = ref(ops[0])
            if not finer:
                break
            m = run_driver(prop, finer)
            i, _ = run_harness(binp, finer)
            bad = [o for o, x, y in zip(finer, i, m) if not same(prop, o, x, y)]
            if not bad:
                break
            ops = [bad[0]]
    m = run_driver(prop, ops)
    i, _ = run_harness(binp, ops, history=b.kind == "history")
    return {"kind": "input", "batch": b.name, "batch_kind": b.kind, "ops": ops, "expected": m, "observed": i,
            "what": f"implementation and proved model disagree on {ops[-1]!r}: impl={i[-1]!r} model={m[-1]!r}"}
