"""All paths are derived from this file's location so that snapshots / worktrees of /verif work."""
import os
ROOT = os.path.dirname(os.path.dirname(os.path.abspath(__file__)))
LEAN = os.path.join(ROOT, "lean")
HARNESS = os.path.join(ROOT, "harness")
CACHE = os.path.join(ROOT, ".cache")
EVIDENCE = os.path.join(ROOT, "evidence")
REPLAYS = os.path.join(ROOT, "replays")
CORPUS = os.path.join(ROOT, "corpus")
REPO = os.environ.get("VERIF_REPO", "/repo")
DRIVER = os.path.join(LEAN, ".lake", "build", "bin", "driver")
