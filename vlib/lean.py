"""Lean side of a check: build the property's proof module and the driver, audit sources and axioms."""
import fcntl
import os
import re
import subprocess
import time

from . import paths

ALLOWED_AXIOMS = {"propext", "Classical.choice", "Quot.sound"}
BANNED = re.compile(
    r"\bsorry\b|\badmit\b|^\s*axiom\s|\bnative_decide\b|\bbv_decide\b|\bimplemented_by\b|\bunsafe\s|maxHeartbeats\s+0\b|\bextern\b",
    re.M,
)


def _lock():
    os.makedirs(paths.CACHE, exist_ok=True)
    f = open(os.path.join(paths.CACHE, "lake.lock"), "w")
    fcntl.flock(f, fcntl.LOCK_EX)
    return f


def module_path(mod):
    return os.path.join(paths.LEAN, *mod.split(".")) + ".lean"


def strip_comments(src):
    # block comments (nested) and line comments
    out = []
    i, depth, n = 0, 0, len(src)
    while i < n:
        if src.startswith("/-", i):
            depth += 1
            i += 2
        elif depth and src.startswith("-/", i):
            depth -= 1
            i += 2
        elif depth:
            if src[i] == "\n":
                out.append("\n")
            i += 1
        elif src.startswith("--", i):
            while i < n and src[i] != "\n":
                i += 1
        elif src[i] == '"':
            j = i + 1
            while j < n and src[j] != '"':
                j += 2 if src[j] == "\\" else 1
            out.append('""')
            i = j + 1
        else:
            out.append(src[i])
            i += 1
    return "".join(out)


def import_closure(mods):
    seen, todo = [], list(mods)
    while todo:
        m = todo.pop()
        if m in seen:
            continue
        p = module_path(m)
        if not os.path.exists(p):
            continue
        seen.append(m)
        for line in open(p):
            mm = re.match(r"\s*(?:public\s+)?import\s+([\w.]+)", line)
            if mm and mm.group(1).split(".")[0] in ("FcpptModel", "FcpptProofs"):
                todo.append(mm.group(1))
    return seen


def theorems_of(mod):
    """Full names of the theorems declared in a Props module (namespaces tracked; private ones skipped)."""
    src = strip_comments(open(module_path(mod)).read())
    ns, names = [], []
    for lineno, line in enumerate(src.split("\n"), 1):
        m = re.match(r"\s*namespace\s+([\w.]+)", line)
        if m:
            ns.append(m.group(1))
            continue
        m = re.match(r"\s*end\s+([\w.]+)", line)
        if m and ns and ns[-1] == m.group(1):
            ns.pop()
            continue
        m = re.match(r"\s*(?:@\[[^\]]*\]\s*)*(private\s+|protected\s+)?theorem\s+([\w.']+)", line)
        if m:
            full = ".".join(ns + [m.group(2)])
            names.append({"name": full, "line": lineno, "private": bool(m.group(1) and "private" in m.group(1))})
    return names


def build(targets, timeout=3000):
    """lake build; returns (ok, log, [(file, line, message)])"""
    lock = _lock()
    try:
        t0 = time.time()
        p = subprocess.run(["lake", "build"] + list(targets), cwd=paths.LEAN, capture_output=True, text=True, timeout=timeout)
        log = p.stdout + p.stderr
        errs = [(m.group(1), int(m.group(2)), m.group(3)) for m in re.finditer(r"^error: ([^\s:]+\.lean):(\d+):\d+: (.*)$", log, re.M)]
        return p.returncode == 0, log, errs, time.time() - t0
    finally:
        lock.close()


def scan_sources(mods):
    hits = []
    for m in import_closure(mods):
        src = strip_comments(open(module_path(m)).read())
        for mm in BANNED.finditer(src):
            line = src.count("\n", 0, mm.start()) + 1
            hits.append(f"{m}:{line}: {mm.group(0).strip()}")
    return hits


def print_axioms(prop_mods, names):
    """{theorem: [axioms]} through `#print axioms` (needs the modules built)."""
    os.makedirs(paths.CACHE, exist_ok=True)
    f = os.path.join(paths.CACHE, f"audit_{os.getpid()}.lean")
    with open(f, "w") as h:
        for m in prop_mods:
            h.write(f"import {m}\n")
        for n in names:
            h.write(f"#print axioms {n}\n")
    try:
        p = subprocess.run(["lake", "env", "lean", f], cwd=paths.LEAN, capture_output=True, text=True, timeout=1200)
    finally:
        os.unlink(f)
    out = p.stdout + p.stderr
    res = {}
    flat = re.sub(r"\s+", " ", out)
    for n in names:
        m = re.search(r"'" + re.escape(n) + r"' depends on axioms: \[([^\]]*)\]", flat)
        if m:
            res[n] = [a.strip() for a in m.group(1).split(",") if a.strip()]
        elif re.search(r"'" + re.escape(n) + r"' does not depend on any axioms", flat):
            res[n] = []
        else:
            res[n] = None  # unknown constant / error
    return res, out


def leanchecker(mod):
    p = subprocess.run(["lake", "env", "leanchecker", mod], cwd=paths.LEAN, capture_output=True, text=True, timeout=3000)
    return p.returncode == 0, (p.stdout + p.stderr)[-2000:]


def check_property(prop_mods, targets, thorough=False):
    """Everything Lean-side for one property.  Returns a dict with obligations, discharged, problems."""
    res = {"obligations": 0, "discharged": 0, "unchecked": [], "problems": [], "axioms": {}, "build_s": 0.0}
    thms = []
    for m in prop_mods:
        thms += [dict(t, module=m) for t in theorems_of(m)]
    public = [t for t in thms if not t["private"]]
    res["obligations"] = len(public)
    ok, log, errs, secs = build(list(targets))
    res["build_s"] = round(secs, 1)
    res["build_ok"] = ok
    if not ok:
        # attribute every error to the closest preceding theorem of a Props module; anything else
        # (a lemma file, a model file, the generated translation) leaves all theorems unchecked
        bad = set()
        other = False
        for (file, line, msg) in errs:
            hit = None
            for t in thms:
                if module_path(t["module"]).endswith(file) and t["line"] <= line:
                    hit = t
            if hit is not None:
                bad.add(hit["name"])
            else:
                other = True
        if other or not errs:
            bad = {t["name"] for t in public}
        res["unchecked"] = sorted(bad)
        res["problems"].append("lake build failed: " + "; ".join(f"{f}:{l}: {m}" for f, l, m in errs[:5]))
        res["build_log_tail"] = log[-3000:]
        res["discharged"] = len(public) - len([t for t in public if t["name"] in bad])
        return res
    hits = scan_sources(prop_mods + [t for t in targets if "." in t or t.startswith("Fcppt")])
    if hits:
        res["problems"].append("banned construct: " + ", ".join(hits[:8]))
    ax, raw = print_axioms(prop_mods, [t["name"] for t in public])
    res["axioms"] = ax
    used = set()
    for n, a in ax.items():
        if a is None:
            res["unchecked"].append(n)
            res["problems"].append(f"#print axioms failed for {n}")
        else:
            used |= set(a)
            extra = set(a) - ALLOWED_AXIOMS
            if extra:
                res["unchecked"].append(n)
                res["problems"].append(f"{n} depends on {sorted(extra)}")
    res["axioms_used"] = sorted(used)
    res["discharged"] = len(public) - len(set(res["unchecked"]))
    if hits:
        res["discharged"] = 0
        res["unchecked"] = [t["name"] for t in public]
    if thorough and not res["problems"]:
        for m in prop_mods:
            okc, out = leanchecker(m)
            res.setdefault("leanchecker", {})[m] = "ok" if okc else out
            if not okc:
                res["problems"].append(f"leanchecker rejected {m}")
                res["discharged"] = 0
                res["unchecked"] = [t["name"] for t in public]
    return res
