"""Build the C++ correspondence harness of a property from /repo's current working tree.

Nothing from /repo/_build is used: the harness source, the fcppt headers and the listed
fcppt .cpp files are compiled with g++ (ASan + UBSan + libstdc++ assertions).  The binary is
cached under a key that is the hash of the *preprocessed* translation units and the flags,
so an edit anywhere in /repo that reaches the harness gives a new binary and an unrelated
edit does not cost a rebuild.
"""
import hashlib
import os
import shutil
import subprocess
import tempfile
import time
from concurrent.futures import ThreadPoolExecutor

from . import paths

CXX = os.environ.get("VERIF_CXX", "g++")
BASE_FLAGS = [
    "-std=c++20", "-O1", "-g", "-fno-omit-frame-pointer",
    "-D_GLIBCXX_ASSERTIONS", "-DFCPPT_STATIC_LINK", "-DFCPPT_VERIF",
    "-Wno-deprecated-declarations",
]
SAN_DEFAULT = ["-fsanitize=address,undefined", "-fno-sanitize-recover=all"]
SAN_THREAD = ["-fsanitize=thread"]


def include_flags():
    inc = ["-I" + paths.HARNESS, "-I" + os.path.join(paths.HARNESS, "include")]
    for lib in ("core", "options", "parse", "log", "filesystem", "boost"):
        d = os.path.join(paths.REPO, "libs", lib, "include")
        if os.path.isdir(d):
            inc.append("-I" + d)
        d = os.path.join(paths.REPO, "libs", lib, "impl", "include")
        if os.path.isdir(d):
            inc.append("-I" + d)
    return inc


def _run(cmd, **kw):
    return subprocess.run(cmd, capture_output=True, text=True, **kw)


def build(spec, jobs=8):
    """spec: {src: 'harness/c10.cpp', repo_srcs: [...relative to /repo], flags: [...], tsan: bool, libs: [...]}
    Returns (binary path | None, info dict)."""
    t0 = time.time()
    flags = BASE_FLAGS + (SAN_THREAD if spec.get("tsan") else SAN_DEFAULT) + spec.get("flags", []) + include_flags()
    units = [os.path.join(paths.ROOT, spec["src"])] + [os.path.join(paths.REPO, s) for s in spec.get("repo_srcs", [])]
    for u in units:
        if not os.path.exists(u):
            return None, {"error": f"missing source {u}", "kind": "missing-source", "seconds": 0}

    def pre(u):
        p = _run([CXX] + flags + ["-E", "-P", u])
        return u, p.returncode, p.stdout, p.stderr

    with ThreadPoolExecutor(max_workers=jobs) as ex:
        pres = list(ex.map(pre, units))
    h = hashlib.sha256()
    h.update(" ".join(flags + spec.get("libs", [])).encode())
    for u, rc, out, err in pres:
        if rc != 0:
            return None, {"error": err[-4000:], "kind": "compile-error", "unit": u, "seconds": round(time.time() - t0, 1)}
        h.update(out.encode())
    key = h.hexdigest()[:24]
    cdir = os.path.join(paths.CACHE, "harness", key)
    binp = os.path.join(cdir, "harness")
    if os.path.exists(binp):
        return binp, {"cached": True, "key": key, "seconds": round(time.time() - t0, 1)}
    tmp = tempfile.mkdtemp(prefix="vhb_", dir=os.environ.get("TMPDIR", "/tmp"))
    try:
        def comp(iu):
            i, u = iu
            o = os.path.join(tmp, f"u{i}.o")
            p = _run([CXX] + flags + ["-c", u, "-o", o])
            return o, p.returncode, p.stderr

        with ThreadPoolExecutor(max_workers=jobs) as ex:
            objs = list(ex.map(comp, enumerate(units)))
        for (o, rc, err), u in zip(objs, units):
            if rc != 0:
                return None, {"error": err[-4000:], "kind": "compile-error", "unit": u, "seconds": round(time.time() - t0, 1)}
        out = os.path.join(tmp, "harness")
        p = _run([CXX] + flags + [o for o, _, _ in objs] + ["-o", out] + spec.get("libs", []))
        if p.returncode != 0:
            return None, {"error": p.stderr[-4000:], "kind": "link-error", "seconds": round(time.time() - t0, 1)}
        os.makedirs(cdir, exist_ok=True)
        shutil.copy2(out, binp + f".{os.getpid()}")
        os.replace(binp + f".{os.getpid()}", binp)
        _prune()
        return binp, {"cached": False, "key": key, "seconds": round(time.time() - t0, 1)}
    finally:
        shutil.rmtree(tmp, ignore_errors=True)


def _prune(keep=60):
    d = os.path.join(paths.CACHE, "harness")
    try:
        ents = sorted((os.path.getmtime(os.path.join(d, e)), e) for e in os.listdir(d))
    except OSError:
        return
    for _, e in ents[:-keep]:
        shutil.rmtree(os.path.join(d, e), ignore_errors=True)
