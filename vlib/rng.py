"""splitmix64: every random choice of every generator derives from one state seeded by VERIF_SEED."""
M = (1 << 64) - 1


class Rng:
    def __init__(self, seed):
        self.s = (seed * 0x9E3779B97F4A7C15 + 0x1234567) & M

    def next(self):
        self.s = (self.s + 0x9E3779B97F4A7C15) & M
        z = self.s
        z = ((z ^ (z >> 30)) * 0xBF58476D1CE4E5B9) & M
        z = ((z ^ (z >> 27)) * 0x94D049BB133111EB) & M
        return z ^ (z >> 31)

    def below(self, n):
        return self.next() % n if n > 0 else 0

    def range(self, lo, hi):  # inclusive
        return lo + self.below(hi - lo + 1)

    def choice(self, xs):
        return xs[self.below(len(xs))]

    def chance(self, num, den):
        return self.below(den) < num

    def shuffle(self, xs):
        for i in range(len(xs) - 1, 0, -1):
            j = self.below(i + 1)
            xs[i], xs[j] = xs[j], xs[i]
        return xs

    def fork(self, tag):
        h = 0
        for c in str(tag).encode():
            h = (h * 131 + c) & M
        return Rng(self.next() ^ h)
