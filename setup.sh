#!/bin/sh
# Offline setup after a fresh restore: build the Lean project (models, proofs, driver) and warm the harness cache.
set -e
cd "$(dirname "$0")"
(cd lean && lake build)
python3 tools/warm_harnesses.py || true
