// C13 harness, coordinate type `unsigned`
#include "c13_inst.hpp"

static_assert(sizeof(int) == 4 && sizeof(long) == 8, "the model's Ty.int / Ty.long are 32 / 64 bit");

std::string c13::handle_u(std::vector<std::string> const &t) { return c13::by_dim<unsigned>(t); }
