// C03 harness: special-member routing of the value classes of fcppt::options (see common/route.hpp, notes/sweep.md).
// Included by c03_common.hpp inside namespace c03h, behind the canonical printers.
//
//  * every parser object that is copyable travels through a special member of its class before its own `parse` member
//    is called (the `R=` part of the result line); the target of an assignment / the partner of a swap is a parser of the
//    same TYPE built from different names, values and help texts (alt_parser)
//  * state, parse_context, option_name, missing_error, state_with_value, parse_result, result, help_result and the
//    strong typedefs long_name / short_name / help_text / flag_name are routed and compared component by component
//  * the route is a function of the argument vector (and of the names for the name classes), so a single vector replays it
#ifndef VERIF_HARNESS_C03_ROUTE_HPP
#define VERIF_HARNESS_C03_ROUTE_HPP

// ---------------------------------------------------------------- a different parser of the same type
struct alt_ctr
{
  unsigned n{0U};
  fcppt::string next() { return "zq" + std::to_string(n++); }
};

template <typename T>
struct alt_val;
template <>
struct alt_val<int>
{
  static int a() { return 71; }
  static int b() { return 72; }
};
template <>
struct alt_val<unsigned>
{
  static unsigned a() { return 71U; }
  static unsigned b() { return 72U; }
};
template <>
struct alt_val<fcppt::string>
{
  static fcppt::string a() { return "zv1"; }
  static fcppt::string b() { return "zv2"; }
};
template <>
struct alt_val<color>
{
  static color a() { return color::green; }
  static color b() { return color::blue; }
};

template <typename P>
struct alt_parser
{
  static constexpr bool ok = false;
};

template <typename L, typename T>
struct alt_parser<fcppt::options::argument<L, T>>
{
  static constexpr bool ok = true;
  static fcppt::options::argument<L, T> make(alt_ctr &_c)
  {
    return fcppt::options::argument<L, T>{
        fcppt::options::long_name{_c.next()},
        fcppt::options::optional_help_text{fcppt::options::help_text{_c.next()}}};
  }
};

template <typename L, typename T>
struct alt_parser<fcppt::options::flag<L, T>>
{
  static constexpr bool ok = true;
  static fcppt::options::flag<L, T> make(alt_ctr &_c)
  {
    return fcppt::options::flag<L, T>{
        fcppt::options::optional_short_name{fcppt::options::short_name{_c.next()}},
        fcppt::options::long_name{_c.next()},
        fcppt::options::make_active_value(alt_val<T>::a()),
        fcppt::options::make_inactive_value(alt_val<T>::b()),
        fcppt::options::optional_help_text{fcppt::options::help_text{_c.next()}}};
  }
};

template <typename L, typename T>
struct alt_parser<fcppt::options::option<L, T>>
{
  static constexpr bool ok = true;
  static fcppt::options::option<L, T> make(alt_ctr &_c)
  {
    return fcppt::options::option<L, T>{
        fcppt::options::optional_short_name{fcppt::options::short_name{_c.next()}},
        fcppt::options::long_name{_c.next()},
        typename fcppt::options::option<L, T>::optional_default_value{fcppt::optional::object<T>{alt_val<T>::a()}},
        fcppt::options::optional_help_text{fcppt::options::help_text{_c.next()}}};
  }
};

template <typename L>
struct alt_parser<fcppt::options::switch_<L>>
{
  static constexpr bool ok = true;
  static fcppt::options::switch_<L> make(alt_ctr &_c)
  {
    return fcppt::options::switch_<L>{
        fcppt::options::optional_short_name{fcppt::options::short_name{_c.next()}},
        fcppt::options::long_name{_c.next()},
        fcppt::options::optional_help_text{fcppt::options::help_text{_c.next()}}};
  }
};

template <typename L>
struct alt_parser<fcppt::options::unit_switch<L>>
{
  static constexpr bool ok = true;
  static fcppt::options::unit_switch<L> make(alt_ctr &_c)
  {
    return fcppt::options::unit_switch<L>{
        fcppt::options::optional_short_name{fcppt::options::short_name{_c.next()}},
        fcppt::options::long_name{_c.next()}};
  }
};

template <typename L>
struct alt_parser<fcppt::options::unit<L>>
{
  static constexpr bool ok = true; // no members: every unit<L> is the same value
  static fcppt::options::unit<L> make(alt_ctr &) { return fcppt::options::unit<L>{}; }
};

template <typename P>
struct alt_parser<fcppt::options::optional<P>>
{
  static constexpr bool ok = alt_parser<P>::ok;
  static fcppt::options::optional<P> make(alt_ctr &_c)
  {
    return fcppt::options::optional<P>{alt_parser<P>::make(_c)};
  }
};

template <typename P>
struct alt_parser<fcppt::options::many<P>>
{
  static constexpr bool ok = alt_parser<P>::ok;
  static fcppt::options::many<P> make(alt_ctr &_c) { return fcppt::options::many<P>{alt_parser<P>::make(_c)}; }
};

template <typename A, typename B>
struct alt_parser<fcppt::options::product<A, B>>
{
  static constexpr bool ok = alt_parser<A>::ok && alt_parser<B>::ok;
  static fcppt::options::product<A, B> make(alt_ctr &_c)
  {
    A a{alt_parser<A>::make(_c)};
    B b{alt_parser<B>::make(_c)};
    return fcppt::options::product<A, B>{std::move(a), std::move(b)};
  }
};

template <typename L, typename A, typename B>
struct alt_parser<fcppt::options::sum<L, A, B>>
{
  static constexpr bool ok = alt_parser<A>::ok && alt_parser<B>::ok;
  static fcppt::options::sum<L, A, B> make(alt_ctr &_c)
  {
    A a{alt_parser<A>::make(_c)};
    B b{alt_parser<B>::make(_c)};
    return fcppt::options::sum<L, A, B>{std::move(a), std::move(b)};
  }
};

template <typename Tag, typename P>
struct alt_parser<fcppt::options::sub_command<Tag, P>>
{
  static constexpr bool ok = alt_parser<P>::ok;
  static fcppt::options::sub_command<Tag, P> make(alt_ctr &_c)
  {
    return fcppt::options::sub_command<Tag, P>{
        _c.next(),
        alt_parser<P>::make(_c),
        fcppt::options::optional_help_text{fcppt::options::help_text{_c.next()}}};
  }
};

template <typename O, typename... S>
struct alt_parser<fcppt::options::commands<O, S...>>
{
  static constexpr bool ok = alt_parser<O>::ok && (alt_parser<S>::ok && ...);
  static fcppt::options::commands<O, S...> make(alt_ctr &_c)
  {
    return fcppt::options::commands<O, S...>{alt_parser<O>::make(_c), alt_parser<S>::make(_c)...};
  }
};

template <typename P>
constexpr bool routable_parser = std::is_copy_constructible_v<P> && std::is_copy_assignable_v<P> &&
                                 std::is_move_constructible_v<P> && std::is_move_assignable_v<P>;

// a copyable parser through the special member selected by `_r`.  Where no parser of the same type can be built from
// the type alone (parsers held by reference), the assignment target is a moved-from copy of the parser.
template <typename P>
P routed_parser(P const &_p, unsigned const _r)
{
  if constexpr (alt_parser<P>::ok)
  {
    return vh::sm::route(
        _r,
        _p,
        []
        {
          alt_ctr c{};
          return alt_parser<P>::make(c);
        });
  }
  else
  {
    return vh::sm::route(
        _r,
        _p,
        [&_p]
        {
          P other(_p);
          P gut(std::move(other));
          (void)gut;
          return other;
        });
  }
}

inline unsigned route_of(fcppt::args_vector const &_a)
{
  unsigned h{static_cast<unsigned>(_a.size())};
  for (auto const &t : _a)
  {
    h = vh::sm::mix(h, t);
  }
  return h;
}

// ---------------------------------------------------------------- a different result value of the same type
inline void perturb(int &_v) { _v = _v == 2147483647 ? 0 : _v + 1; }
inline void perturb(unsigned &_v) { _v += 1U; }
inline void perturb(bool &_v) { _v = !_v; }
inline void perturb(std::string &_v) { _v += "zq"; }
inline void perturb(color &_v) { _v = _v == color::red ? color::green : color::red; }
inline void perturb(fcppt::unit &) {}
template <typename... Es>
void perturb(fcppt::record::object<Es...> &);
template <typename... Ts>
void perturb(fcppt::variant::object<Ts...> &);
template <typename T, typename Tag>
void perturb(fcppt::strong_typedef<T, Tag> &_v)
{
  perturb(_v.get());
}
template <typename T>
void perturb(fcppt::optional::object<T> &_v)
{
  if (_v.has_value())
  {
    perturb(_v.get_unsafe());
  }
}
template <typename T>
void perturb(std::vector<T> &_v)
{
  if (!_v.empty())
  {
    T last(_v.back());
    perturb(last);
    _v.push_back(std::move(last));
  }
}
template <typename... Es>
void perturb(fcppt::record::object<Es...> &_r)
{
  (perturb(fcppt::record::get<fcppt::record::element_to_label<Es>>(_r)), ...);
}
template <typename... Ts>
void perturb(fcppt::variant::object<Ts...> &_v)
{
  fcppt::variant::apply([](auto &_x) { perturb(_x); }, _v);
}

inline fcppt::options::state far_state()
{
  return fcppt::options::state{fcppt::args_vector{fcppt::string{"zq"}, fcppt::string{"zr"}}};
}

inline fcppt::options::missing_error far_missing()
{
  return fcppt::options::missing_error{far_state(), fcppt::string{"zq"}};
}

inline fcppt::options::state other_state(fcppt::options::state const &_s)
{
  fcppt::args_vector o{_s.args().rbegin(), _s.args().rend()};
  o.push_back(fcppt::string{"zq"});
  return fcppt::options::state{std::move(o)};
}

inline std::string show_state(fcppt::options::state const &_s)
{
  return show_toks(_s.args()) + (_s.empty() ? "/e" : "/n");
}

inline std::string show_missing(fcppt::options::missing_error const &_m)
{
  return show_state(_m.state()) + "|" + esc(_m.error());
}

inline std::string show_parse_error(fcppt::options::parse_error const &_e)
{
  return fcppt::variant::match(
      _e,
      [](fcppt::options::missing_error const &_m) { return "m:" + show_missing(_m); },
      [](fcppt::options::other_error const &_o) { return "o:" + esc(_o.get()); });
}

template <typename T>
std::string show_swv(fcppt::options::state_with_value<T> const &_r)
{
  return pv(_r.value()) + "|" + show_state(_r.state());
}

template <typename T>
std::string show_parse_result(fcppt::options::parse_result<T> const &_r)
{
  return fcppt::either::match(
      _r,
      [](fcppt::options::parse_error const &_e) { return "F" + show_parse_error(_e); },
      [](fcppt::options::state_with_value<T> const &_s) { return "S" + show_swv(_s); });
}

template <typename T>
std::string show_result(fcppt::options::result<T> const &_r)
{
  return fcppt::either::match(
      _r,
      [](fcppt::options::error const &_e) { return "F" + esc(_e.get()); },
      [](T const &_s) { return "S" + pv(_s); });
}

// the routed objects' classes -------------------------------------------------------------------------------------
inline fcppt::options::missing_error routed_missing(std::string &_mm, unsigned const _r, fcppt::options::missing_error const &_m)
{
  return vh::sm::checked(
      _mm,
      "options::missing_error",
      _r,
      _m,
      [&_m] { return fcppt::options::missing_error{other_state(_m.state()), _m.error() + "zq"}; },
      [](fcppt::options::missing_error const &_x) { return show_missing(_x); });
}

template <typename T>
fcppt::options::state_with_value<T>
routed_swv(std::string &_mm, unsigned const _r, fcppt::options::state_with_value<T> const &_s)
{
  return vh::sm::checked(
      _mm,
      "options::state_with_value",
      _r,
      _s,
      [&_s]
      {
        T v(_s.value());
        perturb(v);
        return fcppt::options::state_with_value<T>{other_state(_s.state()), std::move(v)};
      },
      [](fcppt::options::state_with_value<T> const &_x) { return show_swv(_x); });
}

// parse_result<T> = either<variant<missing_error, other_error>, state_with_value<T>>: the former value of the target is
// (even route bits) the same alternative with every component different or (odd) another alternative
template <typename T>
fcppt::options::parse_result<T>
routed_parse_result(std::string &_mm, unsigned const _r, fcppt::options::parse_result<T> const &_res)
{
  return vh::sm::checked(
      _mm,
      "options::parse_result",
      _r,
      _res,
      [&_res, _r]
      {
        using res_t = fcppt::options::parse_result<T>;
        bool const is_missing{
            _res.has_failure() &&
            fcppt::variant::match(
                _res.get_failure_unsafe(),
                [](fcppt::options::missing_error const &) { return true; },
                [](fcppt::options::other_error const &) { return false; })};
        if ((_r / vh::sm::copy_routes) % 2U == 0U)
        {
          res_t o(_res);
          if (o.has_success())
          {
            o.get_success_unsafe().state() = other_state(_res.get_success_unsafe().state());
            perturb(o.get_success_unsafe().value());
          }
          else if (is_missing)
          {
            fcppt::options::missing_error &m{o.get_failure_unsafe().template get_unsafe<fcppt::options::missing_error>()};
            m.state() = other_state(m.state());
            m.error() += "zq";
          }
          else
          {
            o.get_failure_unsafe().template get_unsafe<fcppt::options::other_error>().get() += "zq";
          }
          return o;
        }
        if (is_missing)
        {
          return res_t{fcppt::options::parse_error{fcppt::options::other_error{fcppt::string{"zq"}}}};
        }
        return res_t{fcppt::options::parse_error{far_missing()}};
      },
      [](fcppt::options::parse_result<T> const &_x) { return show_parse_result(_x); });
}

template <typename T>
fcppt::options::result<T> routed_result(std::string &_mm, unsigned const _r, fcppt::options::result<T> const &_res)
{
  return vh::sm::checked(
      _mm,
      "options::result",
      _r,
      _res,
      [&_res, _r]
      {
        using res_t = fcppt::options::result<T>;
        if (_res.has_success() && (_r / vh::sm::copy_routes) % 2U == 1U)
        {
          return res_t{fcppt::options::error{fcppt::string{"zq"}}};
        }
        res_t o(_res);
        if (o.has_success())
        {
          perturb(o.get_success_unsafe());
        }
        else
        {
          o.get_failure_unsafe().get() += "zq";
        }
        return o;
      },
      [](fcppt::options::result<T> const &_x) { return show_result(_x); });
}

template <typename T>
std::string show_help_result(fcppt::options::help_result<T> const &_h)
{
  return fcppt::variant::match(
      _h,
      [](fcppt::options::result<T> const &_res) { return "R" + show_result(_res); },
      [](fcppt::options::help_text const &_t) { return "H" + esc(_t.get()); });
}

template <typename T>
fcppt::options::help_result<T>
routed_help_result(std::string &_mm, unsigned const _r, fcppt::options::help_result<T> const &_res)
{
  return vh::sm::checked(
      _mm,
      "options::help_result",
      _r,
      _res,
      [&_res, _r]
      {
        using res_t = fcppt::options::help_result<T>;
        bool const is_help{fcppt::variant::match(
            _res,
            [](fcppt::options::result<T> const &) { return false; },
            [](fcppt::options::help_text const &) { return true; })};
        if (!is_help && (_r / vh::sm::copy_routes) % 2U == 1U)
        {
          return res_t{fcppt::options::help_text{fcppt::string{"zq"}}};
        }
        res_t o(_res);
        if (is_help)
        {
          o.template get_unsafe<fcppt::options::help_text>().get() += "zq";
        }
        else
        {
          fcppt::options::result<T> &inner{o.template get_unsafe<fcppt::options::result<T>>()};
          if (inner.has_success())
          {
            perturb(inner.get_success_unsafe());
          }
          else
          {
            inner.get_failure_unsafe().get() += "zq";
          }
        }
        return o;
      },
      [](fcppt::options::help_result<T> const &_x) { return show_help_result(_x); });
}

inline std::string show_one_name(fcppt::options::option_name const &_n)
{
  return enc(_n.name()) + (_n.get_is_short().get() ? ":s" : ":l");
}

// option_name has operator== (option_name_comparison.hpp): asked as well.  The former value of the target differs in
// the name AND in the short/long bit.
inline fcppt::options::option_name routed_option_name(std::string &_mm, unsigned const _r, fcppt::options::option_name const &_n)
{
  return vh::sm::checked_eq(
      _mm,
      "options::option_name",
      _r,
      _n,
      [&_n]
      {
        return fcppt::options::option_name{
            _n.name() + "zq", fcppt::options::option_name::is_short{!_n.get_is_short().get()}};
      },
      [](fcppt::options::option_name const &_x) { return show_one_name(_x); });
}

// a strong typedef over fcppt::string (long_name, short_name, help_text, flag_name, error, other_error)
template <typename Tag>
fcppt::strong_typedef<fcppt::string, Tag>
routed_name(std::string &_mm, char const *const _class, unsigned const _r, fcppt::strong_typedef<fcppt::string, Tag> const &_n)
{
  using type = fcppt::strong_typedef<fcppt::string, Tag>;
  return vh::sm::checked(
      _mm, _class, _r, _n, [&_n] { return type{_n.get() + "zq"}; }, [](type const &_x) { return enc(_x.get()); });
}

#endif
