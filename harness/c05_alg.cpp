// C05 correspondence harness, family unit `alg` (see harness/c05_common.hpp and harness/c05.cpp)
#include "c05_common.hpp"

#include <fcppt/function_impl.hpp>
#include <fcppt/move_clear.hpp>
#include <fcppt/move_if.hpp>
#include <fcppt/move_if_rvalue.hpp>
#include <fcppt/algorithm/fold.hpp>
#include <fcppt/algorithm/fold_break.hpp>
#include <fcppt/algorithm/map.hpp>
#include <fcppt/algorithm/map_concat.hpp>
#include <fcppt/algorithm/map_optional.hpp>
#include <fcppt/algorithm/reverse.hpp>
#include <fcppt/container/get_or_insert.hpp>
#include <fcppt/container/get_or_insert_with_result.hpp>
#include <fcppt/container/join.hpp>
#include <fcppt/container/make.hpp>
#include <fcppt/container/make_move_range.hpp>
#include <fcppt/container/pop_back.hpp>
#include <fcppt/container/pop_front.hpp>

namespace c05
{
namespace
{
// ---------------------------------------------------------------- the operations

template <typename T>
std::string op_algmap(line_t const &L)
{
  need(L.args.size() == 1 && L.par.empty());
  auto v{mk_vec<T>(L.args[0])};
  mark(v);
  g_log.clear();
  std::vector<T> const r{with_cat<true>(L.cat(0), v, [](auto &&c) { return fcppt::algorithm::map<std::vector<T>>(FWD(c), thru{}); })};
  event_log const log{g_log};
  return finish("-", slots(r), {slots(v)}, log);
}

template <typename T>
std::string op_fold(line_t const &L, bool const _brk)
{
  need(L.args.size() == 2 && L.cat(1) == 'r' && L.n(1) == 1 && L.par.size() == (_brk ? 1U : 0U));
  auto v{mk_vec<T>(L.args[0])};
  mark(v);
  acc<T> st{T{L.args[1].ids[0]}, {}};
  mark(st.marker);
  g_log.clear();
  acc<T> const r{with_cat<true>(
      L.cat(0),
      v,
      [&](auto &&c)
      {
        if (_brk)
        {
          int count{0};
          int const stop{L.par[0]};
          return fcppt::algorithm::fold_break(
              FWD(c),
              std::move(st),
              [&count, stop](auto &&e, acc<T> &&s)
              {
                s.items.push_back(thru{}(FWD(e)));
                return std::make_pair(count++ == stop ? fcppt::loop::break_ : fcppt::loop::continue_, std::move(s));
              });
        }
        return fcppt::algorithm::fold(
            FWD(c),
            std::move(st),
            [](auto &&e, acc<T> &&s)
            {
              s.items.push_back(thru{}(FWD(e)));
              return std::move(s);
            });
      })};
  event_log const log{g_log};
  slots_t sm;
  sm.add(st.marker);
  return finish("-", acc_slots(r), {slots(v), sm.str()}, log);
}

template <typename T>
std::string op_mapcat(line_t const &L)
{
  need(L.args.size() == 1 && L.par.size() == L.n(0));
  auto v{mk_vec<T>(L.args[0])};
  mark(v);
  std::size_t idx{0};
  g_log.clear();
  std::vector<T> const r{with_cat<true>(
      L.cat(0),
      v,
      [&](auto &&c)
      {
        return fcppt::algorithm::map_concat<std::vector<T>>(
            FWD(c),
            [&idx, &L](auto &&e)
            {
              auto &&x{take(FWD(e))};
              std::vector<T> out;
              int const k{L.par.at(idx++)};
              x.read();
              for (int j = 1; j <= k; ++j)
                out.push_back(x.derive(j));
              return out;
            });
      })};
  event_log const log{g_log};
  return finish("-", slots(r), {slots(v)}, log);
}

template <typename T>
std::string op_mapopt(line_t const &L)
{
  need(L.args.size() == 1 && L.par.size() == L.n(0));
  auto v{mk_vec<T>(L.args[0])};
  mark(v);
  std::size_t idx{0};
  g_log.clear();
  std::vector<T> const r{with_cat<true>(
      L.cat(0),
      v,
      [&](auto &&c)
      {
        return fcppt::algorithm::map_optional<std::vector<T>>(
            FWD(c),
            [&idx, &L](auto &&e)
            {
              auto &&x{take(FWD(e))};
              int const k{L.par.at(idx++)};
              x.read();
              return k != 0 ? fcppt::optional::object<T>{x.derive(1)} : fcppt::optional::object<T>{};
            });
      })};
  event_log const log{g_log};
  return finish("-", slots(r), {slots(v)}, log);
}

template <typename T>
std::string op_reverse(line_t const &L)
{
  need(L.args.size() == 1 && L.par.empty());
  auto v{mk_vec<T>(L.args[0])};
  mark(v);
  g_log.clear();
  std::vector<T> const r{with_cat<T::copyable>(L.cat(0), v, [](auto &&c) { return fcppt::algorithm::reverse(FWD(c)); })};
  event_log const log{g_log};
  return finish("-", slots(r), {slots(v)}, log);
}

template <typename T>
std::string op_join(line_t const &L, std::size_t const _n)
{
  need(L.args.size() == _n && L.par.empty());
  auto a{mk_vec<T>(L.args[0])};
  mark(a);
  auto b{mk_vec<T>(L.args[1])};
  mark(b);
  arg_t const none{'r', {}};
  auto c{mk_vec<T>(_n == 3 ? L.args[2] : none)};
  mark(c);
  g_log.clear();
  std::vector<T> const r{with_cat<T::copyable>(
      L.cat(0),
      a,
      [&](auto &&x)
      {
        return with_cat<T::copyable>(
            L.cat(1),
            b,
            [&](auto &&y)
            {
              if (_n == 2)
                return fcppt::container::join(FWD(x), FWD(y));
              return with_cat<T::copyable>(
                  L.cat(2), c, [&](auto &&z) { return fcppt::container::join(FWD(x), FWD(y), FWD(z)); });
            });
      })};
  event_log const log{g_log};
  std::vector<std::string> args{slots(a), slots(b)};
  if (_n == 3)
    args.push_back(slots(c));
  return finish("-", slots(r), args, log);
}

template <typename T>
std::string op_pop(line_t const &L, bool const _back)
{
  need(L.args.size() == 1 && L.cat(0) == 'i' && L.par.empty());
  auto v{mk_vec<T>(L.args[0])};
  auto d{mk_deque<T>(L.args[0])};
  if (_back)
    mark(v);
  else
    mark(d);
  g_log.clear();
  fcppt::optional::object<T> const r{_back ? fcppt::container::pop_back(v) : fcppt::container::pop_front(d)};
  event_log const log{g_log};
  std::string const arg{_back ? slots(v) : slots(d)};
  slots_t s;
  if (r.has_value())
    s.add(r.get_unsafe());
  return finish(r.has_value() ? "J" : "N", s.str(), {arg}, log);
}

template <typename T>
std::string op_mrmap(line_t const &L)
{
  need(L.args.size() == 1 && L.cat(0) == 'r' && L.par.empty());
  auto v{mk_vec<T>(L.args[0])};
  mark(v);
  g_log.clear();
  std::vector<T> const r{fcppt::algorithm::map<std::vector<T>>(fcppt::container::make_move_range(std::move(v)), thru{})};
  event_log const log{g_log};
  return finish("-", slots(r), {slots(v)}, log);
}

template <typename T>
std::string op_moveclear(line_t const &L)
{
  need(L.args.size() == 1 && L.cat(0) == 'i' && L.par.empty());
  auto v{mk_vec<T>(L.args[0])};
  mark(v);
  g_log.clear();
  std::vector<T> const r{fcppt::move_clear(v)};
  event_log const log{g_log};
  return finish("-", slots(r), {slots(v)}, log);
}

template <typename T>
std::string op_goi(line_t const &L, bool const _with_result)
{
  need(L.args.size() == 1 && L.cat(0) == 'i' && L.par.size() == 1 && L.par[0] >= 0 && static_cast<std::size_t>(L.par[0]) <= L.n(0));
  auto m{mk_map<T>(L.args[0])};
  mark(m);
  auto const create{[](int) { return T{1000}; }};
  g_log.clear();
  std::string tag;
  if (_with_result)
  {
    auto const r{fcppt::container::get_or_insert_with_result(m, L.par[0], create)};
    tag = "R" + std::to_string(r.element().id) + "/" + (r.inserted() ? "1" : "0");
  }
  else
  {
    T &r{fcppt::container::get_or_insert(m, L.par[0], create)};
    tag = "R" + std::to_string(r.id);
  }
  event_log const log{g_log};
  return finish(tag, "-", {map_slots(m)}, log);
}
// ---------------------------------------------------------------- move_if / move_if_rvalue themselves

template <typename T>
std::string op_moveif(std::string const &_op, line_t const &L)
{
  need(L.args.size() == 1 && L.n(0) == 1 && L.par.size() == 1);
  T x{L.args[0].ids[0]};
  mark(x);
  char const cat{L.cat(0)};
  int const k{L.par[0]};
  g_log.clear();
  // 'l' and 'i' are both a non-const lvalue; 'i' says that the caller asked for the move
  auto const go{[&](auto _f) -> T
                {
                  switch (cat)
                  {
                  case 'r':
                    return T(_f(std::move(x)));
                  case 'l':
                  case 'i':
                    return T(_f(x));
                  case 'c':
                    if constexpr (T::copyable)
                      return T(_f(std::as_const(x)));
                    else
                      throw bad_op{};
                  default:
                    throw bad_op{};
                  }
                }};
#define MOVE_IF(C) go([](auto &&a) -> decltype(auto) { return fcppt::move_if<C>(FWD(a)); })
#define MOVE_IF_RV(Ty) go([](auto &&a) -> decltype(auto) { return fcppt::move_if_rvalue<Ty>(FWD(a)); })
  auto const run{[&]() -> T
                 {
                   if (_op == "moveif")
                   {
                     need((k == 0 || k == 1) && (cat != 'l' || k == 0) && (cat != 'i' || k == 1));
                     if (k == 1)
                       return MOVE_IF(true);
                     if constexpr (T::copyable)
                       return MOVE_IF(false);
                     else
                     {
                       need(cat == 'r');
                       return T(fcppt::move_if<false>(std::move(x)));
                     }
                   }
                   need(k >= 0 && k <= 3 && (cat != 'l' || k <= 1) && (cat != 'i' || k >= 2));
                   if (k >= 2)
                     return k == 2 ? MOVE_IF_RV(T) : MOVE_IF_RV(T &&);
                   if constexpr (T::copyable)
                     return k == 0 ? MOVE_IF_RV(T &) : MOVE_IF_RV(T const &);
                   else
                   {
                     need(cat == 'r');
                     return k == 0 ? T(fcppt::move_if_rvalue<T &>(std::move(x))) : T(fcppt::move_if_rvalue<T const &>(std::move(x)));
                   }
                 }};
  T const r{run()};
  event_log const log{g_log};
  slots_t sr, sa;
  sr.add(r);
  sa.add(x);
  return finish("-", sr.str(), {sa.str()}, log);
}

// ---------------------------------------------------------------- container::make (moves out of every argument, by contract)

template <typename T>
std::string op_contmake(line_t const &L)
{
  need(L.args.size() == 2 && L.n(0) == 1 && L.n(1) == 1 && L.par.empty());
  T a{L.args[0].ids[0]};
  T b{L.args[1].ids[0]};
  mark(a);
  mark(b);
  auto const ok{[](char c) { return c == 'i' || c == 'r'; }};
  need(ok(L.cat(0)) && ok(L.cat(1)));
  g_log.clear();
  // 'i': a non-const lvalue handed to make (which is documented to move out of it), 'r': an rvalue
  std::vector<T> const r{
      L.cat(0) == 'r' ? (L.cat(1) == 'r' ? fcppt::container::make<std::vector<T>>(std::move(a), std::move(b))
                                         : fcppt::container::make<std::vector<T>>(std::move(a), b))
                      : (L.cat(1) == 'r' ? fcppt::container::make<std::vector<T>>(a, std::move(b))
                                         : fcppt::container::make<std::vector<T>>(a, b))};
  event_log const log{g_log};
  slots_t sa, sb;
  sa.add(a);
  sb.add(b);
  return finish("-", slots(r), {sa.str(), sb.str()}, log);
}

// ---------------------------------------------------------------- the same container twice; map without reserve

template <typename T>
std::string op_alg_more(std::string const &_op, line_t const &L)
{
  if (_op == "joinself")
  {
    need(L.args.size() == 1 && L.par.empty());
    if constexpr (T::copyable)
    {
      auto v{mk_vec<T>(L.args[0])};
      mark(v);
      g_log.clear();
      std::vector<T> const r{
          L.cat(0) == 'l' ? fcppt::container::join(v, v)
                          : (need(L.cat(0) == 'c'), fcppt::container::join(std::as_const(v), std::as_const(v)))};
      event_log const log{g_log};
      return finish("-", slots(r), {slots(v)}, log);
    }
    else
      throw bad_op{};
  }
  if (_op == "algmaplist")
  {
    need(L.args.size() == 1 && L.par.empty());
    std::list<T> l;
    for (int const i : L.args[0].ids)
      l.emplace_back(i);
    for (auto &e : l)
      mark(e);
    g_log.clear();
    std::deque<T> const r{with_cat<true>(L.cat(0), l, [](auto &&c) { return fcppt::algorithm::map<std::deque<T>>(FWD(c), thru{}); })};
    event_log const log{g_log};
    return finish("-", slots(r), {slots(l)}, log);
  }
  throw bad_op{};
}

template <typename T>
bool dispatch(std::string const &_op, line_t const &L, std::string &_out)
{
  if (_op == "algmap")
    return (_out = op_algmap<T>(L), true);
  if (_op == "fold")
    return (_out = op_fold<T>(L, false), true);
  if (_op == "foldbrk")
    return (_out = op_fold<T>(L, true), true);
  if (_op == "mapcat")
    return (_out = op_mapcat<T>(L), true);
  if (_op == "mapopt")
    return (_out = op_mapopt<T>(L), true);
  if (_op == "reverse")
    return (_out = op_reverse<T>(L), true);
  if (_op == "join2")
    return (_out = op_join<T>(L, 2), true);
  if (_op == "join3")
    return (_out = op_join<T>(L, 3), true);
  if (_op == "popback")
    return (_out = op_pop<T>(L, true), true);
  if (_op == "popfront")
    return (_out = op_pop<T>(L, false), true);
  if (_op == "mrmap")
    return (_out = op_mrmap<T>(L), true);
  if (_op == "moveclear")
    return (_out = op_moveclear<T>(L), true);
  if (_op == "goi")
    return (_out = op_goi<T>(L, false), true);
  if (_op == "goiwr")
    return (_out = op_goi<T>(L, true), true);
  if (_op == "moveif")
    return (_out = op_moveif<T>(_op, L), true);
  if (_op == "moveifrv")
    return (_out = op_moveif<T>(_op, L), true);
  if (_op == "contmake")
    return (_out = op_contmake<T>(L), true);
  if (_op == "joinself" || _op == "algmaplist")
    return (_out = op_alg_more<T>(_op, L), true);
  return false;
}
}

C05_FAMILY(family_alg) { return C05_RUN(dispatch); }
}
