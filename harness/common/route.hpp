// Special-member routing for the value classes the harnesses hold (notes/sweep.md).
//
// In the Lean models every fcppt object is a value, so an object that has been copied, moved, assigned or swapped is the
// same value as before.  The harnesses let the objects they already handle travel through the special member functions of
// their class - chosen by a number that is derived from the OPERATION LINE (never from a global counter: a replay of a
// single line must take the same route) - and go on working with the object that comes out.  What went in and what came
// out are also compared directly (the caller's `show` function renders every observable component; the class's own
// operator== is used as well where it exists); a difference puts a token
//     SPECIAL-MEMBER-MISMATCH:<class>:<member>
// into the result line, which then differs from the model's line.
#ifndef VERIF_HARNESS_COMMON_ROUTE_HPP
#define VERIF_HARNESS_COMMON_ROUTE_HPP

#include <concepts>
#include <cstdint>
#include <string>
#include <type_traits>
#include <utility>

namespace vh::sm
{
// every distinct token once per result line
inline void note_mismatch(std::string &_mismatch, char const *const _class, char const *const _member)
{
  std::string const token{std::string{" SPECIAL-MEMBER-MISMATCH:"} + _class + ":" + _member};
  if (_mismatch.find(token) == std::string::npos)
  {
    _mismatch += token;
  }
}

// ------------------------------------------------------------------ copyable classes
constexpr unsigned copy_routes = 9U;

inline char const *route_name(unsigned const _r)
{
  switch (_r % copy_routes)
  {
  case 0U:
    return "copy-ctor";
  case 1U:
    return "copy-assign";
  case 2U:
    return "move-assign";
  case 3U:
    return "move-ctor";
  case 4U:
    return "self-copy-assign";
  case 5U:
    return "swap";
  case 6U:
    return "swap-reversed";
  case 7U:
    return "assign-chain";
  default:
    return "copy-assign-from-const";
  }
}

// a stable small hash of text, for deriving routes from operation tokens
inline unsigned mix(unsigned _h, std::string const &_s)
{
  std::uint32_t h{_h * 2654435761U + 97U};
  for (unsigned char const c : _s)
  {
    h = (h ^ c) * 16777619U;
  }
  return static_cast<unsigned>(h ^ (h >> 15U));
}

template <typename T>
void swap_any(T &_a, T &_b)
{
  if constexpr (requires { _a.swap(_b); })
  {
    _a.swap(_b); // the class's own member swap
  }
  else
  {
    using std::swap;
    swap(_a, _b); // a free swap found by ADL, else std::swap (move construction + two move assignments)
  }
}

// `_want` through the special member selected by `_r`; `_make_other()` yields an object of the same type holding a
// DIFFERENT value (the former value of an assignment target / the partner of a swap).
template <typename T, typename MakeOther>
T route(unsigned const _r, T const &_want, MakeOther const &_make_other)
{
  switch (_r % copy_routes)
  {
  case 0U:
  {
    T tmp(_want); // copy construction
    return tmp;
  }
  case 1U:
  {
    T tmp(_make_other());
    T src(_want);
    T &lv{src};
    tmp = lv; // copy assignment from a non-const lvalue over a different value
    return tmp;
  }
  case 2U:
  {
    T tmp(_make_other());
    T src(_want);
    tmp = std::move(src); // move assignment over a different value
    return tmp;
  }
  case 3U:
  {
    T src(_want);
    T tmp(std::move(src)); // move construction
    return tmp;
  }
  case 4U:
  {
    T tmp(_want);
    T &self{tmp};
    tmp = self; // self copy assignment
    return tmp;
  }
  case 5U:
  {
    T a(_want);
    T b(_make_other());
    swap_any(a, b);
    return b;
  }
  case 6U:
  {
    T a(_want);
    T b(_make_other());
    swap_any(b, a);
    return b;
  }
  case 7U:
  {
    // a = b = c over two different former values, then moved on
    T a(_make_other());
    T b(_make_other());
    a = b = _want;
    T c(_make_other());
    c = std::move(a);
    return c;
  }
  default:
  {
    T tmp(_make_other());
    tmp = _want; // copy assignment from a const lvalue
    return tmp;
  }
  }
}

// routes `_want`, compares what comes out with what went in (through `_show`, which renders every observable
// component) and records a mismatch; returns the routed object
template <typename T, typename MakeOther, typename Show>
T checked(
    std::string &_mismatch,
    char const *const _class,
    unsigned const _r,
    T const &_want,
    MakeOther const &_make_other,
    Show const &_show)
{
  T got(vh::sm::route(_r, _want, _make_other));
  if (_show(got) != _show(_want))
  {
    note_mismatch(_mismatch, _class, route_name(_r));
  }
  return got;
}

// the same for classes with operator== / operator!= : both are asked as well
template <typename T, typename MakeOther, typename Show>
T checked_eq(
    std::string &_mismatch,
    char const *const _class,
    unsigned const _r,
    T const &_want,
    MakeOther const &_make_other,
    Show const &_show)
{
  T got(vh::sm::route(_r, _want, _make_other));
  bool bad{_show(got) != _show(_want) || !(got == _want) || !(_want == got)};
  if constexpr (requires(T const &_a, T const &_b) { { _a != _b } -> std::convertible_to<bool>; })
  {
    bad = bad || (got != _want);
  }
  if (bad)
  {
    note_mismatch(_mismatch, _class, route_name(_r));
  }
  return got;
}

// ------------------------------------------------------------------ move-only classes
constexpr unsigned move_routes = 4U;

inline char const *move_route_name(unsigned const _r)
{
  switch (_r % move_routes)
  {
  case 0U:
    return "move-ctor";
  case 1U:
    return "move-assign";
  case 2U:
    return "swap";
  default:
    return "swap-reversed";
  }
}

template <typename T, typename MakeOther>
T route_move(unsigned const _r, T &&_want, MakeOther const &_make_other)
{
  static_assert(!std::is_reference_v<T>, "route_move takes an rvalue");
  switch (_r % move_routes)
  {
  case 0U:
  {
    T tmp(std::move(_want));
    return tmp;
  }
  case 1U:
  {
    T tmp(_make_other());
    tmp = std::move(_want);
    return tmp;
  }
  case 2U:
  {
    T a(std::move(_want));
    T b(_make_other());
    swap_any(a, b);
    return b;
  }
  default:
  {
    T a(std::move(_want));
    T b(_make_other());
    swap_any(b, a);
    return b;
  }
  }
}
}

#endif
