// Common support for the correspondence harnesses: line protocol, digest, watchdog.
// The Lean side of the same protocol is /verif/lean/FcpptModel/Prelude/Proto.lean.
#ifndef VERIF_HARNESS_COMMON_VH_HPP
#define VERIF_HARNESS_COMMON_VH_HPP

#include <csignal>
#include <sys/time.h>
#include <cstdint>
#include <cstdio>
#include <cstdlib>
#include <cstring>
#include <iostream>
#include <sstream>
#include <string>
#include <unistd.h>
#include <vector>

#if defined(__has_include)
#if __has_include(<sanitizer/common_interface_defs.h>)
#include <sanitizer/common_interface_defs.h>
#define VH_HAVE_SANITIZER_IFACE 1
#endif
#endif

namespace vh
{
inline std::vector<std::string> tokens(std::string const &line)
{
  std::vector<std::string> r;
  std::istringstream s{line};
  std::string t;
  while (s >> t)
    r.push_back(t);
  return r;
}

constexpr std::uint64_t fnv_init = 14695981039346656037ULL;

inline std::uint64_t fnv(std::uint64_t h, std::string const &s)
{
  for (unsigned char c : s)
  {
    h ^= c;
    h *= 1099511628211ULL;
  }
  return h;
}

inline std::string hex64(std::uint64_t x)
{
  char buf[17];
  std::snprintf(buf, sizeof buf, "%016llx", static_cast<unsigned long long>(x));
  return buf;
}

inline long long to_ll(std::string const &s) { return std::stoll(s); }
inline unsigned long long to_ull(std::string const &s) { return std::stoull(s); }

// "a,b,c" or "-" for empty
inline std::vector<long long> int_list(std::string const &s)
{
  std::vector<long long> r;
  if (s == "-")
    return r;
  std::size_t pos = 0;
  while (true)
  {
    std::size_t const next = s.find(',', pos);
    r.push_back(std::stoll(s.substr(pos, next == std::string::npos ? next : next - pos)));
    if (next == std::string::npos)
      break;
    pos = next + 1;
  }
  return r;
}

template <typename C>
inline std::string join(C const &c)
{
  std::string r;
  bool first = true;
  for (auto const &e : c)
  {
    if (!first)
      r += ',';
    first = false;
    r += std::to_string(e);
  }
  return r.empty() ? "-" : r;
}

inline void on_death() { std::fflush(stdout); }

inline void on_signal(int sig)
{
  // Not async-signal-safe in the strict sense, good enough for a test harness:
  // make the result lines produced so far visible, then report how we died.
  std::fflush(stdout);
  bool const timeout = sig == SIGALRM || sig == SIGPROF;
  char const *msg = timeout ? "TIMEOUT\n" : "CRASH signal\n";
  (void)!write(1, msg, std::strlen(msg));
  _exit(timeout ? 3 : 4);
}

// seconds of CPU time allowed per operation line (a loaded machine must not turn a slow line into a TIMEOUT);
// a wall-clock alarm of 20 times that catches an operation that blocks without burning CPU
inline unsigned &op_budget()
{
  static unsigned b = 10;
  return b;
}

inline void arm_watchdog(unsigned secs)
{
  itimerval t{};
  t.it_value.tv_sec = static_cast<time_t>(secs);
  (void)setitimer(ITIMER_PROF, &t, nullptr);
  alarm(secs * 20U);
}

template <typename Handler>
int run(Handler handle)
{
  std::ios::sync_with_stdio(false);
#ifdef VH_HAVE_SANITIZER_IFACE
  __sanitizer_set_death_callback(on_death);
#endif
  std::signal(SIGALRM, on_signal);
  std::signal(SIGPROF, on_signal);
  std::signal(SIGABRT, on_signal);
  static char outbuf[1 << 16];
  std::setvbuf(stdout, outbuf, _IOFBF, sizeof outbuf);
  std::string line;
  while (std::getline(std::cin, line))
  {
    arm_watchdog(op_budget());
    std::string const r = handle(tokens(line));
    arm_watchdog(0);
    std::fputs(r.c_str(), stdout);
    std::fputc('\n', stdout);
    // one write per result line: a sanitizer abort in the next operation must not lose finished results
    // (the death callback is not invoked on every abort path)
    std::fflush(stdout);
  }
  std::fflush(stdout);
  return 0;
}
}

#endif
