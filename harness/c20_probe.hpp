// Compile-time probes for the members of fcppt::random that cannot be instantiated on the pinned tree (notes/C20.md).
// props/c20.py compiles c20_probe_*.cpp with -fsyntax-only on every run: the four `ill` probes are expected to be
// rejected by the compiler inside the named fcppt header, the `ok` probe is expected to compile.  A probe that starts to
// compile means the member exists now and has to be tied (harness + model) - the check reports it.
#ifndef VERIF_HARNESS_C20_PROBE_HPP
#define VERIF_HARNESS_C20_PROBE_HPP
#include <fcppt/random/variate.hpp>
#include <fcppt/random/distribution/basic.hpp>
#include <fcppt/random/distribution/parameters/normal.hpp>
#include <fcppt/random/distribution/parameters/uniform_int.hpp>
#include <fcppt/random/distribution/parameters/uniform_real.hpp>
#include <fcppt/random/generator/minstd_rand.hpp>
#include <random>
#include <sstream>
using P = fcppt::random::distribution::parameters::uniform_int<int>;
using D = fcppt::random::distribution::basic<P>;
using G = fcppt::random::generator::minstd_rand;
#endif
