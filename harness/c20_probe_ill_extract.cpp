// expect: error (operator>> : the friend declaration of basic_decl.hpp takes and returns the stream by value, the
// defined operator is not a friend and cannot reach distribution_)
#include "c20_probe.hpp"
int main()
{
  D d{P::min{0}, P::max{1}};
  std::istringstream s{"0 5"};
  s >> d;
  return d.max();
}
