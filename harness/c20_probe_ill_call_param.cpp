// expect: error in distribution/basic_impl.hpp (operator()(Rng &, param_type const &): make_result with two arguments)
#include "c20_probe.hpp"
int main()
{
  D d{P::min{0}, P::max{1}};
  G g{G::seed{1U}};
  P const p{P::min{0}, P::max{3}};
  return d(g, p);
}
