// C05 correspondence harness, family unit `tup` (see harness/c05_common.hpp and harness/c05.cpp)
#include "c05_common.hpp"

#include <fcppt/array/from_range.hpp>
#include <fcppt/array/get.hpp>
#include <fcppt/array/init.hpp>
#include <fcppt/array/join.hpp>
#include <fcppt/array/map.hpp>
#include <fcppt/array/object.hpp>
#include <fcppt/array/push_back.hpp>
#include <fcppt/loop.hpp>
#include <fcppt/algorithm/loop_break.hpp>
#include <fcppt/algorithm/loop_break_tuple.hpp>
#include <fcppt/algorithm/map.hpp>
#include <fcppt/algorithm/map_array.hpp>
#include <fcppt/algorithm/map_tuple.hpp>
#include <fcppt/array/apply.hpp>
#include <fcppt/array/make.hpp>
#include <fcppt/tuple/apply.hpp>
#include <fcppt/tuple/concat.hpp>
#include <fcppt/tuple/from_array.hpp>
#include <fcppt/tuple/invoke.hpp>
#include <fcppt/tuple/make.hpp>
#include <fcppt/tuple/get.hpp>
#include <fcppt/tuple/init.hpp>
#include <fcppt/tuple/map.hpp>
#include <fcppt/tuple/object.hpp>
#include <fcppt/tuple/push_back.hpp>

namespace c05
{
namespace
{
// ---------------------------------------------------------------- tuple / array / record (sizes are template arguments: 0..3)

template <std::size_t Max, typename F>
std::string with_n(std::size_t const _n, F const &_f)
{
  need(_n <= Max);
  switch (_n)
  {
  case 0:
    return _f(std::integral_constant<std::size_t, 0>{});
  case 1:
    if constexpr (Max >= 1)
      return _f(std::integral_constant<std::size_t, 1>{});
    break;
  case 2:
    if constexpr (Max >= 2)
      return _f(std::integral_constant<std::size_t, 2>{});
    break;
  case 3:
    if constexpr (Max >= 3)
      return _f(std::integral_constant<std::size_t, 3>{});
    break;
  default:
    break;
  }
  throw bad_op{};
}

template <typename T, std::size_t>
using rep = T;
template <typename T, typename Seq>
struct tup_of;
template <typename T, std::size_t... I>
struct tup_of<T, std::index_sequence<I...>>
{
  using type = fcppt::tuple::object<rep<T, I>...>;
};
template <typename T, std::size_t N>
using tup_n = typename tup_of<T, std::make_index_sequence<N>>::type;
template <typename T, std::size_t N>
using arr_n = fcppt::array::object<T, N>;

template <typename T, std::size_t N>
tup_n<T, N> mk_tup(arg_t const &_a)
{
  need(_a.ids.size() == N);
  return fcppt::tuple::init<tup_n<T, N>>([&_a]<std::size_t I>(std::integral_constant<std::size_t, I>) { return T{_a.ids[I]}; });
}
template <typename T, std::size_t N>
arr_n<T, N> mk_arr(arg_t const &_a)
{
  need(_a.ids.size() == N);
  return fcppt::array::init<arr_n<T, N>>([&_a]<std::size_t I>(std::integral_constant<std::size_t, I>) { return T{_a.ids[I]}; });
}

template <typename Tup, typename F, std::size_t... I>
void tup_each(Tup &_t, F const &_f, std::index_sequence<I...>)
{
  (_f(fcppt::tuple::get<I>(_t)), ...);
}
template <typename... Ts>
void mark(fcppt::tuple::object<Ts...> &_t)
{
  tup_each(_t, [](auto &e) { mark(e); }, std::index_sequence_for<Ts...>{});
}
template <typename... Ts>
std::string tup_slots(fcppt::tuple::object<Ts...> const &_t)
{
  slots_t s;
  tup_each(_t, [&s](auto const &e) { s.add(e); }, std::index_sequence_for<Ts...>{});
  return s.str();
}
template <typename T, std::size_t N>
void mark(arr_n<T, N> &_a)
{
  for (auto &e : _a.impl())
    mark(e);
}
template <typename T, std::size_t N>
std::string arr_slots(arr_n<T, N> const &_a)
{
  return slots(_a.impl());
}

template <typename T>
std::string op_tuple(std::string const &_op, line_t const &L)
{
  if (_op == "tupmap")
  {
    need(L.args.size() == 1 && L.par.empty());
    return with_n<3>(
        L.n(0),
        [&](auto N) -> std::string
        {
          auto t{mk_tup<T, decltype(N)::value>(L.args[0])};
          mark(t);
          g_log.clear();
          auto const r{with_cat<true>(L.cat(0), t, [](auto &&x) { return fcppt::tuple::map(FWD(x), thru{}); })};
          event_log const log{g_log};
          return finish("-", tup_slots(r), {tup_slots(t)}, log);
        });
  }
  if (_op == "tuppush")
  {
    need(L.args.size() == 2 && L.n(1) == 1 && L.par.empty());
    return with_n<3>(
        L.n(0),
        [&](auto N) -> std::string
        {
          auto t{mk_tup<T, decltype(N)::value>(L.args[0])};
          mark(t);
          T e{L.args[1].ids[0]};
          mark(e);
          g_log.clear();
          auto const r{with_cat<T::copyable>(
              L.cat(0),
              t,
              [&](auto &&x)
              { return with_cat<T::copyable>(L.cat(1), e, [&](auto &&y) { return fcppt::tuple::push_back(FWD(x), FWD(y)); }); })};
          event_log const log{g_log};
          slots_t se;
          se.add(e);
          return finish("-", tup_slots(r), {tup_slots(t), se.str()}, log);
        });
  }
  if (_op == "tupconcat")
  {
    need(L.args.size() == 2 && L.par.empty());
    return with_n<2>(
        L.n(0),
        [&](auto N1) -> std::string
        {
          return with_n<2>(
              L.n(1),
              [&](auto N2) -> std::string
              {
                auto a{mk_tup<T, decltype(N1)::value>(L.args[0])};
                mark(a);
                auto b{mk_tup<T, decltype(N2)::value>(L.args[1])};
                mark(b);
                g_log.clear();
                // every category (lvalue tuples since /repo fix ee4df3d)
                auto const r{with_cats2<T::copyable>(L, a, b, [](auto &&x, auto &&y) { return fcppt::tuple::concat(FWD(x), FWD(y)); })};
                event_log const log{g_log};
                return finish("-", tup_slots(r), {tup_slots(a), tup_slots(b)}, log);
              });
        });
  }
  throw bad_op{};
}

template <typename T>
std::string op_array(std::string const &_op, line_t const &L)
{
  if (_op == "arrmap")
  {
    need(L.args.size() == 1 && L.par.empty());
    return with_n<3>(
        L.n(0),
        [&](auto N) -> std::string
        {
          auto t{mk_arr<T, decltype(N)::value>(L.args[0])};
          mark(t);
          g_log.clear();
          auto const r{with_cat<true>(L.cat(0), t, [](auto &&x) { return fcppt::array::map(FWD(x), thru{}); })};
          event_log const log{g_log};
          return finish("-", arr_slots(r), {arr_slots(t)}, log);
        });
  }
  if (_op == "arrpush")
  {
    need(L.args.size() == 2 && L.n(1) == 1 && L.par.empty());
    return with_n<3>(
        L.n(0),
        [&](auto N) -> std::string
        {
          auto t{mk_arr<T, decltype(N)::value>(L.args[0])};
          mark(t);
          T e{L.args[1].ids[0]};
          mark(e);
          g_log.clear();
          auto const r{with_cat<T::copyable>(
              L.cat(0),
              t,
              [&](auto &&x)
              { return with_cat<T::copyable>(L.cat(1), e, [&](auto &&y) { return fcppt::array::push_back(FWD(x), FWD(y)); }); })};
          event_log const log{g_log};
          slots_t se;
          se.add(e);
          return finish("-", arr_slots(r), {arr_slots(t), se.str()}, log);
        });
  }
  if (_op == "arrjoin2" || _op == "arrjoin3")
  {
    bool const three{_op == "arrjoin3"};
    need(L.args.size() == (three ? 3U : 2U) && L.par.empty());
    return with_n<2>(
        L.n(0),
        [&](auto N1) -> std::string
        {
          return with_n<2>(
              L.n(1),
              [&](auto N2) -> std::string
              {
                auto a{mk_arr<T, decltype(N1)::value>(L.args[0])};
                mark(a);
                auto b{mk_arr<T, decltype(N2)::value>(L.args[1])};
                mark(b);
                if (!three)
                {
                  g_log.clear();
                  auto const r{with_cat<T::copyable>(
                      L.cat(0),
                      a,
                      [&](auto &&x)
                      { return with_cat<T::copyable>(L.cat(1), b, [&](auto &&y) { return fcppt::array::join(FWD(x), FWD(y)); }); })};
                  event_log const log{g_log};
                  return finish("-", arr_slots(r), {arr_slots(a), arr_slots(b)}, log);
                }
                // the third array has one element
                need(L.n(2) == 1);
                auto c{mk_arr<T, 1>(L.args[2])};
                mark(c);
                g_log.clear();
                auto const r{with_cat<T::copyable>(
                    L.cat(0),
                    a,
                    [&](auto &&x)
                    {
                      return with_cat<T::copyable>(
                          L.cat(1),
                          b,
                          [&](auto &&y)
                          {
                            return with_cat<T::copyable>(
                                L.cat(2), c, [&](auto &&z) { return fcppt::array::join(FWD(x), FWD(y), FWD(z)); });
                          });
                    })};
                event_log const log{g_log};
                return finish("-", arr_slots(r), {arr_slots(a), arr_slots(b), arr_slots(c)}, log);
              });
        });
  }
  if (_op == "arrfromrange")
  {
    // par[0]: the static size asked for (0..3)
    need(L.args.size() == 1 && L.par.size() == 1 && L.par[0] >= 0);
    auto v{mk_vec<T>(L.args[0])};
    mark(v);
    return with_n<3>(
        static_cast<std::size_t>(L.par[0]),
        [&](auto N) -> std::string
        {
          g_log.clear();
          auto const r{with_cat<T::copyable>(L.cat(0), v, [](auto &&x) { return fcppt::array::from_range<decltype(N)::value>(FWD(x)); })};
          event_log const log{g_log};
          return finish(opt_tag(r), r.has_value() ? arr_slots(r.get_unsafe()) : "-", {slots(v)}, log);
        });
  }
  throw bad_op{};
}


// ---------------------------------------------------------------- tuple / array: invoke, apply, from_array, make, init

template <typename T, typename... Ps>
std::string pairs_slots(fcppt::tuple::object<Ps...> const &_t)
{
  slots_t s;
  tup_each(_t, [&s](auto const &p) { add_pair(s, p); }, std::index_sequence_for<Ps...>{});
  return s.str();
}

template <typename T>
std::string op_tuparr_more(std::string const &_op, line_t const &L)
{
  if (_op == "tupinvoke")
  {
    need(L.args.size() == 1 && L.par.empty());
    return with_n<3>(
        L.n(0),
        [&](auto N) -> std::string
        {
          auto t{mk_tup<T, decltype(N)::value>(L.args[0])};
          mark(t);
          g_log.clear();
          std::vector<T> const r{with_cat<true>(L.cat(0), t, [](auto &&x) { return fcppt::tuple::invoke(collect<T>{}, FWD(x)); })};
          event_log const log{g_log};
          return finish("-", slots(r), {tup_slots(t)}, log);
        });
  }
  if (_op == "tupapply2" || _op == "arrapply2")
  {
    need(L.args.size() == 2 && L.n(0) == L.n(1) && L.par.empty());
    return with_n<3>(
        L.n(0),
        [&](auto N) -> std::string
        {
          constexpr std::size_t n{decltype(N)::value};
          if (_op == "tupapply2")
          {
            auto a{mk_tup<T, n>(L.args[0])};
            mark(a);
            auto b{mk_tup<T, n>(L.args[1])};
            mark(b);
            g_log.clear();
            // the first tuple has to be an rvalue: apply_result applies tuple::size to `Tuples` with its reference (no such instantiation)
            need(L.cat(0) == 'r');
            auto const r{with_cat<true>(L.cat(1), b, [&a](auto &&y) { return fcppt::tuple::apply(both{}, std::move(a), FWD(y)); })};
            event_log const log{g_log};
            return finish("-", pairs_slots<T>(r), {tup_slots(a), tup_slots(b)}, log);
          }
          auto a{mk_arr<T, n>(L.args[0])};
          mark(a);
          auto b{mk_arr<T, n>(L.args[1])};
          mark(b);
          g_log.clear();
          auto const r{with_cats2<true>(L, a, b, [](auto &&x, auto &&y) { return fcppt::array::apply(both{}, FWD(x), FWD(y)); })};
          event_log const log{g_log};
          slots_t sr;
          for (auto const &p : r.impl())
            add_pair(sr, p);
          return finish("-", sr.str(), {arr_slots(a), arr_slots(b)}, log);
        });
  }
  if (_op == "tupfromarr")
  {
    need(L.args.size() == 1 && L.par.empty());
    return with_n<3>(
        L.n(0),
        [&](auto N) -> std::string
        {
          auto a{mk_arr<T, decltype(N)::value>(L.args[0])};
          mark(a);
          g_log.clear();
          auto const r{with_cat<T::copyable>(L.cat(0), a, [](auto &&x) { return fcppt::tuple::from_array(FWD(x)); })};
          event_log const log{g_log};
          return finish("-", tup_slots(r), {arr_slots(a)}, log);
        });
  }
  if (_op == "tupmake2" || _op == "arrmake2")
  {
    need(L.args.size() == 2 && L.n(0) == 1 && L.n(1) == 1 && L.par.empty());
    T x{L.args[0].ids[0]};
    T y{L.args[1].ids[0]};
    mark(x);
    mark(y);
    g_log.clear();
    std::string res;
    event_log log;
    if (_op == "tupmake2")
    {
      auto const r{with_cats2<T::copyable>(L, x, y, [](auto &&a, auto &&b) { return fcppt::tuple::make(FWD(a), FWD(b)); })};
      log = g_log;
      res = tup_slots(r);
    }
    else
    {
      auto const r{with_cats2<T::copyable>(L, x, y, [](auto &&a, auto &&b) { return fcppt::array::make(FWD(a), FWD(b)); })};
      log = g_log;
      res = arr_slots(r);
    }
    slots_t sx, sy;
    sx.add(x);
    sy.add(y);
    return finish("-", res, {sx.str(), sy.str()}, log);
  }
  if (_op == "tupinit" || _op == "arrinit")
  {
    need(L.args.empty() && L.par.size() == 1 && L.par[0] >= 0);
    return with_n<3>(
        static_cast<std::size_t>(L.par[0]),
        [&](auto N) -> std::string
        {
          constexpr std::size_t n{decltype(N)::value};
          auto const fn{[]<std::size_t I>(std::integral_constant<std::size_t, I>) { return T{1000 + static_cast<int>(I)}; }};
          g_log.clear();
          if (_op == "tupinit")
          {
            auto const r{fcppt::tuple::init<tup_n<T, n>>(fn)};
            event_log const log{g_log};
            return finish("-", tup_slots(r), {}, log);
          }
          auto const r{fcppt::array::init<arr_n<T, n>>(fn)};
          event_log const log{g_log};
          return finish("-", arr_slots(r), {}, log);
        });
  }
  throw bad_op{};
}

// ---------------------------------------------------------------- the same array / tuple twice; algorithm::map / loop_break on them

template <typename T>
std::string op_tuparr_self(std::string const &_op, line_t const &L)
{
  need(L.args.size() == 1);
  return with_n<3>(
      L.n(0),
      [&](auto N) -> std::string
      {
        constexpr std::size_t n{decltype(N)::value};
        if (_op == "arrjoinself" || _op == "tupconcatself")
        {
          need(L.par.empty() && (L.cat(0) == 'l' || L.cat(0) == 'c'));
          if constexpr (T::copyable && n <= 2)
          {
            if (_op == "arrjoinself")
            {
              auto a{mk_arr<T, n>(L.args[0])};
              mark(a);
              g_log.clear();
              auto const r{L.cat(0) == 'l' ? fcppt::array::join(a, a) : fcppt::array::join(std::as_const(a), std::as_const(a))};
              event_log const log{g_log};
              return finish("-", arr_slots(r), {arr_slots(a)}, log);
            }
            auto t{mk_tup<T, n>(L.args[0])};
            mark(t);
            g_log.clear();
            auto const r{L.cat(0) == 'l' ? fcppt::tuple::concat(t, t) : fcppt::tuple::concat(std::as_const(t), std::as_const(t))};
            event_log const log{g_log};
            return finish("-", tup_slots(r), {tup_slots(t)}, log);
          }
          else
            throw bad_op{};
        }
        if (_op == "algmaparr")
        {
          need(L.par.empty());
          auto a{mk_arr<T, n>(L.args[0])};
          mark(a);
          g_log.clear();
          auto const r{with_cat<true>(L.cat(0), a, [](auto &&x) { return fcppt::algorithm::map<arr_n<T, n>>(FWD(x), thru{}); })};
          event_log const log{g_log};
          return finish("-", arr_slots(r), {arr_slots(a)}, log);
        }
        auto t{mk_tup<T, n>(L.args[0])};
        mark(t);
        if (_op == "algmaptup")
        {
          need(L.par.empty());
          g_log.clear();
          auto const r{with_cat<true>(L.cat(0), t, [](auto &&x) { return fcppt::algorithm::map<tup_n<T, n>>(FWD(x), thru{}); })};
          event_log const log{g_log};
          return finish("-", tup_slots(r), {tup_slots(t)}, log);
        }
        if (_op == "algloopbrktup")
        {
          need(L.par.size() == 1 && L.par[0] >= 0 && static_cast<std::size_t>(L.par[0]) <= n);
          int idx{0};
          int const k{L.par[0]};
          g_log.clear();
          with_cat<true>(
              L.cat(0),
              t,
              [&idx, k](auto &&x)
              {
                fcppt::algorithm::loop_break(
                    FWD(x),
                    [&idx, k](auto &&e)
                    {
                      ask(FWD(e));
                      return idx++ == k ? fcppt::loop::break_ : fcppt::loop::continue_;
                    });
                return 0;
              });
          event_log const log{g_log};
          return finish("-", "-", {tup_slots(t)}, log);
        }
        throw bad_op{};
      });
}

template <typename T>
bool dispatch(std::string const &_op, line_t const &L, std::string &_out)
{
  if (_op == "tupmap")
    return (_out = op_tuple<T>(_op, L), true);
  if (_op == "tuppush")
    return (_out = op_tuple<T>(_op, L), true);
  if (_op == "tupconcat")
    return (_out = op_tuple<T>(_op, L), true);
  if (_op == "arrmap")
    return (_out = op_array<T>(_op, L), true);
  if (_op == "arrpush")
    return (_out = op_array<T>(_op, L), true);
  if (_op == "arrjoin2")
    return (_out = op_array<T>(_op, L), true);
  if (_op == "arrjoin3")
    return (_out = op_array<T>(_op, L), true);
  if (_op == "arrfromrange")
    return (_out = op_array<T>(_op, L), true);
  if (_op == "tupinvoke" || _op == "tupapply2" || _op == "arrapply2" || _op == "tupfromarr" || _op == "tupmake2" || _op == "arrmake2" ||
      _op == "tupinit" || _op == "arrinit")
    return (_out = op_tuparr_more<T>(_op, L), true);
  if (_op == "arrjoinself" || _op == "tupconcatself" || _op == "algmaparr" || _op == "algmaptup" || _op == "algloopbrktup")
    return (_out = op_tuparr_self<T>(_op, L), true);
  return false;
}
}

C05_FAMILY(family_tup) { return C05_RUN(dispatch); }
}
