// C05 correspondence harness, family unit `tup` (see harness/c05_common.hpp and harness/c05.cpp)
#include "c05_common.hpp"

#include <fcppt/array/from_range.hpp>
#include <fcppt/array/get.hpp>
#include <fcppt/array/init.hpp>
#include <fcppt/array/join.hpp>
#include <fcppt/array/map.hpp>
#include <fcppt/array/object.hpp>
#include <fcppt/array/push_back.hpp>
#include <fcppt/record/element.hpp>
#include <fcppt/record/get.hpp>
#include <fcppt/record/make_label.hpp>
#include <fcppt/record/map.hpp>
#include <fcppt/record/multiply_disjoint.hpp>
#include <fcppt/record/object.hpp>
#include <fcppt/record/permute.hpp>
#include <fcppt/tuple/concat.hpp>
#include <fcppt/tuple/get.hpp>
#include <fcppt/tuple/init.hpp>
#include <fcppt/tuple/map.hpp>
#include <fcppt/tuple/object.hpp>
#include <fcppt/tuple/push_back.hpp>

namespace c05
{
namespace
{
// ---------------------------------------------------------------- tuple / array / record (sizes are template arguments: 0..3)

template <std::size_t Max, typename F>
std::string with_n(std::size_t const _n, F const &_f)
{
  need(_n <= Max);
  switch (_n)
  {
  case 0:
    return _f(std::integral_constant<std::size_t, 0>{});
  case 1:
    if constexpr (Max >= 1)
      return _f(std::integral_constant<std::size_t, 1>{});
    break;
  case 2:
    if constexpr (Max >= 2)
      return _f(std::integral_constant<std::size_t, 2>{});
    break;
  case 3:
    if constexpr (Max >= 3)
      return _f(std::integral_constant<std::size_t, 3>{});
    break;
  default:
    break;
  }
  throw bad_op{};
}

template <typename T, std::size_t>
using rep = T;
template <typename T, typename Seq>
struct tup_of;
template <typename T, std::size_t... I>
struct tup_of<T, std::index_sequence<I...>>
{
  using type = fcppt::tuple::object<rep<T, I>...>;
};
template <typename T, std::size_t N>
using tup_n = typename tup_of<T, std::make_index_sequence<N>>::type;
template <typename T, std::size_t N>
using arr_n = fcppt::array::object<T, N>;

template <typename T, std::size_t N>
tup_n<T, N> mk_tup(arg_t const &_a)
{
  need(_a.ids.size() == N);
  return fcppt::tuple::init<tup_n<T, N>>([&_a]<std::size_t I>(std::integral_constant<std::size_t, I>) { return T{_a.ids[I]}; });
}
template <typename T, std::size_t N>
arr_n<T, N> mk_arr(arg_t const &_a)
{
  need(_a.ids.size() == N);
  return fcppt::array::init<arr_n<T, N>>([&_a]<std::size_t I>(std::integral_constant<std::size_t, I>) { return T{_a.ids[I]}; });
}

template <typename Tup, typename F, std::size_t... I>
void tup_each(Tup &_t, F const &_f, std::index_sequence<I...>)
{
  (_f(fcppt::tuple::get<I>(_t)), ...);
}
template <typename... Ts>
void mark(fcppt::tuple::object<Ts...> &_t)
{
  tup_each(_t, [](auto &e) { mark(e); }, std::index_sequence_for<Ts...>{});
}
template <typename... Ts>
std::string tup_slots(fcppt::tuple::object<Ts...> const &_t)
{
  slots_t s;
  tup_each(_t, [&s](auto const &e) { s.add(e); }, std::index_sequence_for<Ts...>{});
  return s.str();
}
template <typename T, std::size_t N>
void mark(arr_n<T, N> &_a)
{
  for (auto &e : _a.impl())
    mark(e);
}
template <typename T, std::size_t N>
std::string arr_slots(arr_n<T, N> const &_a)
{
  return slots(_a.impl());
}

template <typename T>
std::string op_tuple(std::string const &_op, line_t const &L)
{
  if (_op == "tupmap")
  {
    need(L.args.size() == 1 && L.par.empty());
    return with_n<3>(
        L.n(0),
        [&](auto N) -> std::string
        {
          auto t{mk_tup<T, decltype(N)::value>(L.args[0])};
          mark(t);
          g_log.clear();
          auto const r{with_cat<true>(L.cat(0), t, [](auto &&x) { return fcppt::tuple::map(FWD(x), thru{}); })};
          event_log const log{g_log};
          return finish("-", tup_slots(r), {tup_slots(t)}, log);
        });
  }
  if (_op == "tuppush")
  {
    need(L.args.size() == 2 && L.n(1) == 1 && L.par.empty());
    return with_n<3>(
        L.n(0),
        [&](auto N) -> std::string
        {
          auto t{mk_tup<T, decltype(N)::value>(L.args[0])};
          mark(t);
          T e{L.args[1].ids[0]};
          mark(e);
          g_log.clear();
          auto const r{with_cat<T::copyable>(
              L.cat(0),
              t,
              [&](auto &&x)
              { return with_cat<T::copyable>(L.cat(1), e, [&](auto &&y) { return fcppt::tuple::push_back(FWD(x), FWD(y)); }); })};
          event_log const log{g_log};
          slots_t se;
          se.add(e);
          return finish("-", tup_slots(r), {tup_slots(t), se.str()}, log);
        });
  }
  if (_op == "tupconcat")
  {
    need(L.args.size() == 2 && L.par.empty());
    return with_n<2>(
        L.n(0),
        [&](auto N1) -> std::string
        {
          return with_n<2>(
              L.n(1),
              [&](auto N2) -> std::string
              {
                auto a{mk_tup<T, decltype(N1)::value>(L.args[0])};
                mark(a);
                auto b{mk_tup<T, decltype(N2)::value>(L.args[1])};
                mark(b);
                g_log.clear();
                // only the all-rvalue instantiation exists: the enable_if of tuple::concat applies is_object to `Tuples` with their references
                need(L.cat(0) == 'r' && L.cat(1) == 'r');
                auto const r{fcppt::tuple::concat(std::move(a), std::move(b))};
                event_log const log{g_log};
                return finish("-", tup_slots(r), {tup_slots(a), tup_slots(b)}, log);
              });
        });
  }
  throw bad_op{};
}

template <typename T>
std::string op_array(std::string const &_op, line_t const &L)
{
  if (_op == "arrmap")
  {
    need(L.args.size() == 1 && L.par.empty());
    return with_n<3>(
        L.n(0),
        [&](auto N) -> std::string
        {
          auto t{mk_arr<T, decltype(N)::value>(L.args[0])};
          mark(t);
          g_log.clear();
          auto const r{with_cat<true>(L.cat(0), t, [](auto &&x) { return fcppt::array::map(FWD(x), thru{}); })};
          event_log const log{g_log};
          return finish("-", arr_slots(r), {arr_slots(t)}, log);
        });
  }
  if (_op == "arrpush")
  {
    need(L.args.size() == 2 && L.n(1) == 1 && L.par.empty());
    return with_n<3>(
        L.n(0),
        [&](auto N) -> std::string
        {
          auto t{mk_arr<T, decltype(N)::value>(L.args[0])};
          mark(t);
          T e{L.args[1].ids[0]};
          mark(e);
          g_log.clear();
          auto const r{with_cat<T::copyable>(
              L.cat(0),
              t,
              [&](auto &&x)
              { return with_cat<T::copyable>(L.cat(1), e, [&](auto &&y) { return fcppt::array::push_back(FWD(x), FWD(y)); }); })};
          event_log const log{g_log};
          slots_t se;
          se.add(e);
          return finish("-", arr_slots(r), {arr_slots(t), se.str()}, log);
        });
  }
  if (_op == "arrjoin2" || _op == "arrjoin3")
  {
    bool const three{_op == "arrjoin3"};
    need(L.args.size() == (three ? 3U : 2U) && L.par.empty());
    return with_n<2>(
        L.n(0),
        [&](auto N1) -> std::string
        {
          return with_n<2>(
              L.n(1),
              [&](auto N2) -> std::string
              {
                auto a{mk_arr<T, decltype(N1)::value>(L.args[0])};
                mark(a);
                auto b{mk_arr<T, decltype(N2)::value>(L.args[1])};
                mark(b);
                if (!three)
                {
                  g_log.clear();
                  auto const r{with_cat<T::copyable>(
                      L.cat(0),
                      a,
                      [&](auto &&x)
                      { return with_cat<T::copyable>(L.cat(1), b, [&](auto &&y) { return fcppt::array::join(FWD(x), FWD(y)); }); })};
                  event_log const log{g_log};
                  return finish("-", arr_slots(r), {arr_slots(a), arr_slots(b)}, log);
                }
                // the third array has one element
                need(L.n(2) == 1);
                auto c{mk_arr<T, 1>(L.args[2])};
                mark(c);
                g_log.clear();
                auto const r{with_cat<T::copyable>(
                    L.cat(0),
                    a,
                    [&](auto &&x)
                    {
                      return with_cat<T::copyable>(
                          L.cat(1),
                          b,
                          [&](auto &&y)
                          {
                            return with_cat<T::copyable>(
                                L.cat(2), c, [&](auto &&z) { return fcppt::array::join(FWD(x), FWD(y), FWD(z)); });
                          });
                    })};
                event_log const log{g_log};
                return finish("-", arr_slots(r), {arr_slots(a), arr_slots(b), arr_slots(c)}, log);
              });
        });
  }
  if (_op == "arrfromrange")
  {
    // par[0]: the static size asked for (0..3)
    need(L.args.size() == 1 && L.par.size() == 1 && L.par[0] >= 0);
    auto v{mk_vec<T>(L.args[0])};
    mark(v);
    return with_n<3>(
        static_cast<std::size_t>(L.par[0]),
        [&](auto N) -> std::string
        {
          g_log.clear();
          auto const r{with_cat<T::copyable>(L.cat(0), v, [](auto &&x) { return fcppt::array::from_range<decltype(N)::value>(FWD(x)); })};
          event_log const log{g_log};
          return finish(opt_tag(r), r.has_value() ? arr_slots(r.get_unsafe()) : "-", {slots(v)}, log);
        });
  }
  throw bad_op{};
}

FCPPT_RECORD_MAKE_LABEL(la0);
FCPPT_RECORD_MAKE_LABEL(la1);
FCPPT_RECORD_MAKE_LABEL(la2);
FCPPT_RECORD_MAKE_LABEL(lb0);
FCPPT_RECORD_MAKE_LABEL(lb1);

template <typename T, typename... Ls>
using rec_of = fcppt::record::object<fcppt::record::element<Ls, T>...>;

template <typename T, typename... Ls>
rec_of<T, Ls...> mk_rec(arg_t const &_a)
{
  need(_a.ids.size() == sizeof...(Ls));
  std::size_t i{0};
  // braced init: evaluated left to right
  return rec_of<T, Ls...>{(Ls{} = T{_a.ids[i++]})...};
}
template <typename T, typename... Ls>
void mark(rec_of<T, Ls...> &_r)
{
  (mark(fcppt::record::get<Ls>(_r)), ...);
}
template <typename T, typename... Ls>
std::string rec_slots(rec_of<T, Ls...> const &_r)
{
  slots_t s;
  (s.add(fcppt::record::get<Ls>(_r)), ...);
  return s.str();
}

template <typename T, typename... Ls>
std::string do_recmap(line_t const &L)
{
  auto r0{mk_rec<T, Ls...>(L.args[0])};
  mark<T, Ls...>(r0);
  g_log.clear();
  // only the rvalue instantiation exists: record::map_result applies element_vector to `Record` with its reference
  need(L.cat(0) == 'r');
  auto const r{fcppt::record::map(std::move(r0), thru{})};
  event_log const log{g_log};
  return finish("-", rec_slots<T, Ls...>(r), {rec_slots<T, Ls...>(r0)}, log);
}

// the result lists the labels in the order Rs...
template <typename T, typename In, typename... Rs>
std::string do_recperm(line_t const &L, In &_in, std::string (*_show)(In const &))
{
  g_log.clear();
  auto const r{with_cat<T::copyable>(L.cat(0), _in, [](auto &&x) { return fcppt::record::permute<rec_of<T, Rs...>>(FWD(x)); })};
  event_log const log{g_log};
  return finish("-", rec_slots<T, Rs...>(r), {_show(_in)}, log);
}

template <typename T, typename... As>
struct rec_left
{
  template <typename... Bs>
  static std::string mul(line_t const &L)
  {
    auto a{mk_rec<T, As...>(L.args[0])};
    mark<T, As...>(a);
    auto b{mk_rec<T, Bs...>(L.args[1])};
    mark<T, Bs...>(b);
    g_log.clear();
    auto const r{with_cat<T::copyable>(
        L.cat(0),
        a,
        [&](auto &&x)
        { return with_cat<T::copyable>(L.cat(1), b, [&](auto &&y) { return fcppt::record::multiply_disjoint(FWD(x), FWD(y)); }); })};
    event_log const log{g_log};
    return finish("-", rec_slots<T, As..., Bs...>(r), {rec_slots<T, As...>(a), rec_slots<T, Bs...>(b)}, log);
  }
  static std::string go(line_t const &L)
  {
    switch (L.n(1))
    {
    case 0:
      return mul<>(L);
    case 1:
      return mul<lb0>(L);
    case 2:
      return mul<lb0, lb1>(L);
    default:
      throw bad_op{};
    }
  }
};

template <typename T>
std::string op_record(std::string const &_op, line_t const &L)
{
  if (_op == "recmap")
  {
    need(L.args.size() == 1 && L.par.empty());
    switch (L.n(0))
    {
    case 0:
      return do_recmap<T>(L);
    case 1:
      return do_recmap<T, la0>(L);
    case 2:
      return do_recmap<T, la0, la1>(L);
    case 3:
      return do_recmap<T, la0, la1, la2>(L);
    default:
      throw bad_op{};
    }
  }
  if (_op == "recpermute")
  {
    // par = the permutation: result position j takes the element of label par[j]
    need(L.args.size() == 1 && L.par.size() == L.n(0));
    std::string key;
    for (int const p : L.par)
      key += std::to_string(p);
    switch (L.n(0))
    {
    case 0:
    {
      auto in{mk_rec<T>(L.args[0])};
      return do_recperm<T, rec_of<T>>(L, in, &rec_slots<T>);
    }
    case 1:
    {
      need(key == "0");
      auto in{mk_rec<T, la0>(L.args[0])};
      mark<T, la0>(in);
      return do_recperm<T, rec_of<T, la0>, la0>(L, in, &rec_slots<T, la0>);
    }
    case 2:
    {
      auto in{mk_rec<T, la0, la1>(L.args[0])};
      mark<T, la0, la1>(in);
      using in_t = rec_of<T, la0, la1>;
      if (key == "01")
        return do_recperm<T, in_t, la0, la1>(L, in, &rec_slots<T, la0, la1>);
      if (key == "10")
        return do_recperm<T, in_t, la1, la0>(L, in, &rec_slots<T, la0, la1>);
      throw bad_op{};
    }
    case 3:
    {
      auto in{mk_rec<T, la0, la1, la2>(L.args[0])};
      mark<T, la0, la1, la2>(in);
      using in_t = rec_of<T, la0, la1, la2>;
      auto const show{&rec_slots<T, la0, la1, la2>};
      if (key == "012")
        return do_recperm<T, in_t, la0, la1, la2>(L, in, show);
      if (key == "021")
        return do_recperm<T, in_t, la0, la2, la1>(L, in, show);
      if (key == "102")
        return do_recperm<T, in_t, la1, la0, la2>(L, in, show);
      if (key == "120")
        return do_recperm<T, in_t, la1, la2, la0>(L, in, show);
      if (key == "201")
        return do_recperm<T, in_t, la2, la0, la1>(L, in, show);
      if (key == "210")
        return do_recperm<T, in_t, la2, la1, la0>(L, in, show);
      throw bad_op{};
    }
    default:
      throw bad_op{};
    }
  }
  if (_op == "recmuldisj")
  {
    need(L.args.size() == 2 && L.par.empty());
    switch (L.n(0))
    {
    case 0:
      return rec_left<T>::go(L);
    case 1:
      return rec_left<T, la0>::go(L);
    case 2:
      return rec_left<T, la0, la1>::go(L);
    default:
      throw bad_op{};
    }
  }
  throw bad_op{};
}

template <typename T>
bool dispatch(std::string const &_op, line_t const &L, std::string &_out)
{
  if (_op == "tupmap")
    return (_out = op_tuple<T>(_op, L), true);
  if (_op == "tuppush")
    return (_out = op_tuple<T>(_op, L), true);
  if (_op == "tupconcat")
    return (_out = op_tuple<T>(_op, L), true);
  if (_op == "arrmap")
    return (_out = op_array<T>(_op, L), true);
  if (_op == "arrpush")
    return (_out = op_array<T>(_op, L), true);
  if (_op == "arrjoin2")
    return (_out = op_array<T>(_op, L), true);
  if (_op == "arrjoin3")
    return (_out = op_array<T>(_op, L), true);
  if (_op == "arrfromrange")
    return (_out = op_array<T>(_op, L), true);
  if (_op == "recmap")
    return (_out = op_record<T>(_op, L), true);
  if (_op == "recpermute")
    return (_out = op_record<T>(_op, L), true);
  if (_op == "recmuldisj")
    return (_out = op_record<T>(_op, L), true);
  return false;
}
}

C05_FAMILY(family_tup) { return C05_RUN(dispatch); }
}
