// C16 correspondence harness, part c of the per-function evaluation (see c16_common.hpp)
#include "c16_common.hpp"

c16::result c16::eval_c(std::string const &fn, char const k, params const &ps, std::vector<int> const &v)
{
  C16_PREAMBLE
  if (fn == "fold" && np == 0)
  {
    if (!(ro || k == 'a' || k == 't' || k == 'p')) return bad;
    auto const step = [](auto const &e, ulong const st) { return st * 4 + static_cast<ulong>(val(e)) + 1; };
    if (k == 't')
      return with_size<3>(v.size(), [&](auto n) { return std::to_string(alg::fold(mk_tuple<SZ(n)>(v, 0), 0UL, step)); });
    if (k == 'p')
      return with_mpl(v, [&](auto list) { return std::to_string(alg::fold(list, 0UL, step)); });
    if (k == 'a')
      return with_size<6>(v.size(), [&](auto n) {
        auto const src{mk_array<SZ(n)>(v, 0)};
        return std::to_string(alg::fold(src, 0UL, step));
      });
    return with_ro(k, v, [&](auto const &c) { return std::to_string(alg::fold(c, 0UL, step)); });
  }
  if (fn == "foldbrk" && np == 1)
  {
    ulong const B = ps[0];
    if (!ro || B >= 8) return bad;
    return with_ro(k, v, [&](auto const &c) {
      return std::to_string(alg::fold_break(c, 0UL, [B](auto const &e, ulong const st) {
        return std::make_pair(bit(B, val(e)) ? fcppt::loop::break_ : fcppt::loop::continue_, st * 4 + static_cast<ulong>(val(e)) + 1);
      }));
    });
  }
  if (fn == "loopbrk" && np == 1)
  {
    ulong const B = ps[0];
    if (!(ro || k == 'a' || k == 't' || k == 'p') || B >= 8) return bad;
    seq log;
    auto const body = [&log, B](auto const &e) {
      log.push_back(val(e));
      return bit(B, val(e)) ? fcppt::loop::break_ : fcppt::loop::continue_;
    };
    if (k == 'a')
      return with_size<6>(v.size(), [&](auto n) { alg::loop_break(mk_array<SZ(n)>(v, 0), body); return ds(log); });
    if (k == 't')
      return with_size<3>(v.size(), [&](auto n) { alg::loop_break(mk_tuple<SZ(n)>(v, 0), body); return ds(log); });
    if (k == 'p')
      return with_mpl(v, [&](auto list) { alg::loop_break(list, body); return ds(log); });
    return with_ro(k, v, [&](auto const &c) { alg::loop_break(c, body); return ds(log); });
  }
  if (fn == "loop" && np == 0)
  {
    if (!(ro || k == 'a' || k == 't' || k == 'p')) return bad;
    seq log;
    auto const body = [&log](auto const &e) { log.push_back(val(e)); };
    if (k == 'a')
      return with_size<6>(v.size(), [&](auto n) { alg::loop(mk_array<SZ(n)>(v, 0), body); return ds(log); });
    if (k == 't')
      return with_size<3>(v.size(), [&](auto n) { alg::loop(mk_tuple<SZ(n)>(v, 0), body); return ds(log); });
    if (k == 'p')
      return with_mpl(v, [&](auto list) { alg::loop(list, body); return ds(log); });
    return with_ro(k, v, [&](auto const &c) { alg::loop(c, body); return ds(log); });
  }
  if ((fn == "allof" || fn == "containsif") && np == 1)
  {
    ulong const P = ps[0];
    if (!ro || P >= 8) return bad;
    return with_ro(k, v, [&](auto const &c) {
      seq log;
      auto const pred = [&log, P](auto const &e) { log.push_back(val(e)); return bit(P, val(e)); };
      bool const r = fn == "allof" ? alg::all_of(c, pred) : alg::contains_if(c, pred);
      return std::string{b01(r)} + "|" + ds(log);
    });
  }
  if ((fn == "contains" || fn == "findopt") && np == 1)
  {
    ulong const V = ps[0];
    if (!ro || k == 'm' || V >= 3) return bad;
    return with_ro(k, v, [&](auto const &c) -> std::string {
      using elem = elem_t<decltype(c)>;
      if constexpr (std::is_same_v<elem, int> || std::is_same_v<elem, en3>)
      {
        elem const value{static_cast<elem>(V)};
        if (fn == "contains")
          return b01(alg::contains(c, value));
        // const range, non-const range, and (iterators into a temporary would dangle, so) an rvalue of a view type only where it is one
        std::string const a{opt_idx(c, alg::find_opt(c, value))};
        auto nc{c};
        std::string const b{opt_idx(nc, alg::find_opt(nc, value))};
        return a == b ? a : a + "!=" + b;
      }
      else
        return bad;
    });
  }
  if (fn == "findifopt" && np == 1)
  {
    ulong const P = ps[0];
    if (!ro || P >= 8) return bad;
    return with_ro(k, v, [&](auto const &c) {
      auto const pred = [P](auto const &e) { return bit(P, val(e)); };
      std::string const a{opt_idx(c, alg::find_if_opt(c, pred))};
      auto nc{c};
      std::string const b{opt_idx(nc, alg::find_if_opt(nc, pred))};
      return a == b ? a : a + "!=" + b;
    });
  }
  if (fn == "findbyopt" && np == 1)
  {
    ulong const G = ps[0];
    if (!ro || G >= 64) return bad;
    return with_ro(k, v, [&](auto const &c) {
      seq log;
      fcppt::optional::object<int> const r{alg::find_by_opt(c, [&log, G](auto const &e) { log.push_back(val(e)); return tbl_g(G, val(e)); })};
      return (r.has_value() ? std::to_string(r.get_unsafe()) : std::string{"none"}) + "|" + ds(log);
    });
  }
  // ------------------------------------------------------------ aliasing, references
  if (fn == "removeat" && np == 1)
  {
    ulong const I = ps[0];
    if (!sq || I > 8) return bad;
    if (I >= v.size()) return skip;
    return with_seq(k, v, [&](auto &c) {
      // the element to remove is a reference into the container itself
      bool const r = alg::remove(c, *std::next(c.begin(), static_cast<std::ptrdiff_t>(I)));
      return std::string{b01(r)} + "|" + ds(c);
    });
  }
  if (fn == "loopmut" && np == 1)
  {
    ulong const B = ps[0];
    if (!(sq || k == 'a') || B > 8) return bad;
    auto const run = [B](auto &c) {
      if (B == 8)
        alg::loop(c, [](auto &&e) { e = (e + 1) % 3; });
      else
        alg::loop_break(c, [B](auto &&e) {
          bool const brk = bit(B, e);
          e = (e + 1) % 3;
          return brk ? fcppt::loop::break_ : fcppt::loop::continue_;
        });
      return ds(c);
    };
    if (k == 'a')
      return with_size<6>(v.size(), [&](auto n) { auto a{mk_array<SZ(n)>(v, 0)}; return run(a); });
    return with_seq(k, v, run);
  }
  if (fn == "singular" && np == 2)
  {
    ulong const i = ps[0], j = ps[1];
    if (!(sq || k == 's')) return bad;
    if (i > j || j > v.size()) return skip;
    return with_seq_set(k, v, [&](auto &c) {
      if (i > c.size() || j > c.size()) return skip; // the set may be shorter than the sequence
      auto const b{std::next(c.begin(), static_cast<std::ptrdiff_t>(i))};
      auto const e{std::next(c.begin(), static_cast<std::ptrdiff_t>(j))};
      return std::string{b01(fcppt::range::singular(fcppt::iterator::make_range(b, e)))};
    });
  }
  if (fn == "singularc" && np == 0)
  {
    if (!(sq || k == 's' || k == 'f')) return bad;
    return with_ro(k, v, [&](auto const &c) { return std::string{b01(fcppt::range::singular(c))}; });
  }
  // ------------------------------------------------------------ arities
  if (fn == "ajoin1" && np == 0)
  {
    if (k != 'a') return bad;
    return with_size<6>(v.size(), [&](auto n) {
      auto const a{mk_array<SZ(n)>(v, 0)};
      std::string const l{ds(fcppt::array::join(a))}, r{ds(fcppt::array::join(mk_array<SZ(n)>(v, 0)))};
      return l == r ? l : l + "!=" + r;
    });
  }
  if (fn == "ajoin2" && np == 1)
  {
    ulong const c1 = ps[0];
    if (k != 'a') return bad;
    if (c1 > v.size() || c1 > 3 || v.size() - c1 > 3) return skip;
    return with_size<3>(c1, [&](auto n1) {
      return with_size<3>(v.size() - c1, [&](auto n2) {
        auto const a{mk_array<SZ(n1)>(v, 0)};
        auto const b{mk_array<SZ(n2)>(v, c1)};
        std::string const l{ds(fcppt::array::join(a, b))}, r{ds(fcppt::array::join(mk_array<SZ(n1)>(v, 0), mk_array<SZ(n2)>(v, c1)))};
        return l == r ? l : l + "!=" + r;
      });
    });
  }
  if (fn == "ajoin4" && np == 1)
  {
    ulong const mask = ps[0];
    if (k != 'a' || mask > 15) return bad;
    if (static_cast<std::size_t>(__builtin_popcountl(mask)) != v.size()) return skip;
    std::size_t const s1 = mask & 1U, s2 = (mask >> 1U) & 1U, s3 = (mask >> 2U) & 1U, s4 = (mask >> 3U) & 1U;
    return with_size<1>(s1, [&](auto n1) {
      return with_size<1>(s2, [&](auto n2) {
        return with_size<1>(s3, [&](auto n3) {
          return with_size<1>(s4, [&](auto n4) {
            auto const b{mk_array<SZ(n2)>(v, s1)};
            return ds(fcppt::array::join(mk_array<SZ(n1)>(v, 0), b, mk_array<SZ(n3)>(v, s1 + s2), mk_array<SZ(n4)>(v, s1 + s2 + s3)));
          });
        });
      });
    });
  }
  if (fn == "tconcatn" && np == 2)
  {
    // tuple::concat with 0, 1 or 2 arguments
    ulong const K = ps[0], c1 = ps[1];
    if (k != 't' || K > 2) return bad;
    if (c1 > v.size() || (K == 0 && !v.empty()) || (K <= 1 && c1 != 0)) return skip;
    if (K == 0) return ds_tuple(fcppt::tuple::concat());
    if (K == 1)
      return with_size<3>(v.size(), [&](auto n) {
        auto const a{mk_tuple<SZ(n)>(v, 0)};
        std::string const l{ds_tuple(fcppt::tuple::concat(concat_arg(a)))}, r{ds_tuple(fcppt::tuple::concat(mk_tuple<SZ(n)>(v, 0)))};
        return l == r ? l : l + "!=" + r;
      });
    return with_size<3>(c1, [&](auto n1) {
      return with_size<3>(v.size() - c1, [&](auto n2) -> std::string {
        if constexpr (SZ(n1) + SZ(n2) > 3) return bad;
        else
        {
          auto const a{mk_tuple<SZ(n1)>(v, 0)};
          return ds_tuple(fcppt::tuple::concat(concat_arg(a), mk_tuple<SZ(n2)>(v, c1)));
        }
      });
    });
  }
  return std::nullopt;
}
