// expect: error in parameters/uniform_real_impl.hpp and parameters/normal_impl.hpp (same defect)
#include "c20_probe.hpp"
int main()
{
  auto const p{fcppt::random::distribution::parameters::uniform_real<double>::convert_to(std::uniform_real_distribution<double>(0., 1.))};
  auto const q{fcppt::random::distribution::parameters::normal<double>::convert_to(std::normal_distribution<double>(0., 1.))};
  (void)p;
  (void)q;
}
