// C05 correspondence harness: drives the real fcppt templates with an instrumented element type and prints the
// event abstraction described in lean/FcpptModel/Drv/C05.lean:
//   t=<tag> r=<slots> a0=<slots> ... cp=<ids copied> mv=<ids moved out of argument objects> ram=<ids touched after move>
#include "common/vh.hpp"

#include <fcppt/function_impl.hpp>
#include <fcppt/move_clear.hpp>
#include <fcppt/move_if.hpp>
#include <fcppt/move_if_rvalue.hpp>
#include <fcppt/algorithm/fold.hpp>
#include <fcppt/algorithm/fold_break.hpp>
#include <fcppt/algorithm/map.hpp>
#include <fcppt/algorithm/map_concat.hpp>
#include <fcppt/algorithm/map_optional.hpp>
#include <fcppt/algorithm/reverse.hpp>
#include <fcppt/container/get_or_insert.hpp>
#include <fcppt/container/get_or_insert_with_result.hpp>
#include <fcppt/container/join.hpp>
#include <fcppt/container/make.hpp>
#include <fcppt/container/make_move_range.hpp>
#include <fcppt/container/pop_back.hpp>
#include <fcppt/container/pop_front.hpp>
#include <fcppt/either/apply.hpp>
#include <fcppt/either/bind.hpp>
#include <fcppt/either/failure_opt.hpp>
#include <fcppt/either/first_success.hpp>
#include <fcppt/either/from_optional.hpp>
#include <fcppt/either/join.hpp>
#include <fcppt/either/map.hpp>
#include <fcppt/either/map_failure.hpp>
#include <fcppt/either/match.hpp>
#include <fcppt/either/object.hpp>
#include <fcppt/either/sequence.hpp>
#include <fcppt/either/success_opt.hpp>
#include <fcppt/array/from_range.hpp>
#include <fcppt/array/get.hpp>
#include <fcppt/array/init.hpp>
#include <fcppt/array/join.hpp>
#include <fcppt/array/map.hpp>
#include <fcppt/array/object.hpp>
#include <fcppt/array/push_back.hpp>
#include <fcppt/record/element.hpp>
#include <fcppt/record/get.hpp>
#include <fcppt/record/make_label.hpp>
#include <fcppt/record/map.hpp>
#include <fcppt/record/multiply_disjoint.hpp>
#include <fcppt/record/object.hpp>
#include <fcppt/record/permute.hpp>
#include <fcppt/tuple/concat.hpp>
#include <fcppt/tuple/get.hpp>
#include <fcppt/tuple/init.hpp>
#include <fcppt/tuple/map.hpp>
#include <fcppt/tuple/object.hpp>
#include <fcppt/tuple/push_back.hpp>
#include <fcppt/variant/apply.hpp>
#include <fcppt/variant/match.hpp>
#include <fcppt/variant/object.hpp>
#include <fcppt/variant/to_optional.hpp>
#include <fcppt/container/grid/apply.hpp>
#include <fcppt/container/grid/dim.hpp>
#include <fcppt/container/grid/map.hpp>
#include <fcppt/container/grid/object.hpp>
#include <fcppt/container/grid/pos.hpp>
#include <fcppt/container/grid/resize.hpp>
#include <fcppt/container/tree/map.hpp>
#include <fcppt/container/tree/object.hpp>
#include <fcppt/no_init.hpp>
#include <fcppt/string.hpp>
#include <fcppt/args_vector.hpp>
#include <fcppt/options/active_value.hpp>
#include <fcppt/options/default_value.hpp>
#include <fcppt/options/flag.hpp>
#include <fcppt/options/inactive_value.hpp>
#include <fcppt/options/long_name.hpp>
#include <fcppt/options/option.hpp>
#include <fcppt/options/optional_help_text.hpp>
#include <fcppt/options/optional_short_name.hpp>
#include <fcppt/options/parse_context.hpp>
#include <fcppt/options/parse_error.hpp>
#include <fcppt/options/result_of.hpp>
#include <fcppt/options/state.hpp>
#include <fcppt/options/state_with_value.hpp>
#include <fcppt/parse/basic_char.hpp>
#include <fcppt/parse/make_convert.hpp>
#include <fcppt/parse/parse_string.hpp>
#include <fcppt/parse/operators/repetition.hpp>
#include <fcppt/parse/operators/sequence.hpp>
#include <fcppt/optional/alternative.hpp>
#include <fcppt/optional/apply.hpp>
#include <fcppt/optional/bind.hpp>
#include <fcppt/optional/cat.hpp>
#include <fcppt/optional/combine.hpp>
#include <fcppt/optional/filter.hpp>
#include <fcppt/optional/from.hpp>
#include <fcppt/optional/join.hpp>
#include <fcppt/optional/map.hpp>
#include <fcppt/optional/object.hpp>
#include <fcppt/optional/sequence.hpp>
#include <fcppt/optional/to_container.hpp>

#include <algorithm>
#include <deque>
#include <map>
#include <stdexcept>
#include <string>
#include <type_traits>
#include <utility>
#include <vector>

namespace
{
// ---------------------------------------------------------------- the instrumented element type

struct event_log
{
  std::vector<int> cp, mv, ram;
  void clear()
  {
    cp.clear();
    mv.clear();
    ram.clear();
  }
};
event_log g_log;

// identity + state; `orig` marks the objects the harness passed in as (part of) an argument and is not propagated.
template <bool Copyable>
struct tok_t
{
  static constexpr bool copyable = Copyable;
  int id;
  bool live;
  bool orig;

  explicit tok_t(int const _id) noexcept : id{_id}, live{true}, orig{false} {}
  // only for fcppt::extract_from_string (instantiated by options::option::parse, never executed here)
  explicit tok_t(fcppt::no_init const &) noexcept : id{0}, live{true}, orig{false} {}

  tok_t(tok_t const &_o) requires Copyable : id{_o.id}, live{_o.live}, orig{false}
  {
    g_log.cp.push_back(_o.id);
    if (!_o.live)
      g_log.ram.push_back(_o.id);
  }
  tok_t(tok_t &&_o) noexcept : id{_o.id}, live{_o.live}, orig{false} { _o.moved_out(); }
  tok_t &operator=(tok_t const &_o) requires Copyable
  {
    if (this != &_o)
    {
      g_log.cp.push_back(_o.id);
      if (!_o.live)
        g_log.ram.push_back(_o.id);
      id = _o.id;
      live = _o.live;
    }
    return *this;
  }
  tok_t &operator=(tok_t &&_o) noexcept
  {
    if (this != &_o)
    {
      id = _o.id;
      live = _o.live;
      _o.moved_out();
    }
    return *this;
  }
  ~tok_t() = default;

  // every use of the payload goes through here
  int read() const
  {
    if (!live)
      g_log.ram.push_back(id);
    return id;
  }
  // what the user's function does with an lvalue: read it and make a new value from it
  tok_t derive(int const _k) const { return tok_t{read() + 100 * _k}; }

  friend bool operator==(tok_t const &_a, tok_t const &_b) { return _a.read() == _b.read(); }
  friend bool operator!=(tok_t const &_a, tok_t const &_b) { return !(_a == _b); }
  friend bool operator<(tok_t const &_a, tok_t const &_b) { return _a.read() < _b.read(); }

private:
  void moved_out() noexcept
  {
    if (orig)
      g_log.mv.push_back(id);
    if (!live)
      g_log.ram.push_back(id);
    live = false;
  }
};

template <typename Ch, typename Tr, bool C>
std::basic_ostream<Ch, Tr> &operator<<(std::basic_ostream<Ch, Tr> &_s, tok_t<C> const &_t)
{
  return _s << _t.read();
}
template <typename Ch, typename Tr, bool C>
std::basic_istream<Ch, Tr> &operator>>(std::basic_istream<Ch, Tr> &_s, tok_t<C> &_t)
{
  return _s >> _t.id;
}

using Tok = tok_t<true>;
using MTok = tok_t<false>;
static_assert(std::is_copy_constructible_v<Tok> && std::is_nothrow_move_constructible_v<Tok>);
static_assert(!std::is_copy_constructible_v<MTok> && !std::is_copy_assignable_v<MTok> && std::is_nothrow_move_constructible_v<MTok>);

// ---------------------------------------------------------------- the user's functions

// identity on identities: an rvalue is moved through, an lvalue is read and a new value derived from it
struct thru
{
  template <typename U>
  std::remove_cvref_t<U> operator()(U &&_u) const
  {
    if constexpr (std::is_lvalue_reference_v<U>)
      return _u.derive(1);
    else
      return std::remove_cvref_t<U>(std::move(_u));
  }
};

struct bad_op
{
};

// ---------------------------------------------------------------- protocol

struct arg_t
{
  char cat;
  std::vector<int> ids;
};

struct line_t
{
  bool mo;
  std::vector<arg_t> args;
  std::vector<int> par;
  std::size_t n(std::size_t const a) const { return args.at(a).ids.size(); }
  char cat(std::size_t const a) const { return args.at(a).cat; }
};

void need(bool const _c)
{
  if (!_c)
    throw bad_op{};
}

template <typename T>
std::string slot(T const &_t)
{
  return (_t.live ? "" : "~") + std::to_string(_t.id);
}

struct slots_t
{
  std::string s;
  template <typename T>
  void add(T const &_t)
  {
    if (!s.empty())
      s += ',';
    s += slot(_t);
  }
  template <typename R>
  void add_range(R const &_r)
  {
    for (auto const &e : _r)
      add(e);
  }
  std::string str() const { return s.empty() ? "-" : s; }
};

template <typename R>
std::string slots(R const &_r)
{
  slots_t s;
  s.add_range(_r);
  return s.str();
}

template <typename T>
std::string map_slots(std::map<int, T> const &_m)
{
  slots_t s;
  for (auto const &e : _m)
    s.add(e.second);
  return s.str();
}

std::string ids(std::vector<int> v, bool const _dedup)
{
  std::sort(v.begin(), v.end());
  if (_dedup)
    v.erase(std::unique(v.begin(), v.end()), v.end());
  return vh::join(v);
}

std::string finish(std::string const &_tag, std::string const &_res, std::vector<std::string> const &_args, event_log const &_log)
{
  std::string r{"t=" + _tag + " r=" + _res};
  for (std::size_t i = 0; i < _args.size(); ++i)
    r += " a" + std::to_string(i) + "=" + _args[i];
  r += " cp=" + ids(_log.cp, true) + " mv=" + ids(_log.mv, false) + " ram=" + ids(_log.ram, true);
  return r;
}

// ---------------------------------------------------------------- arguments

template <typename T>
std::vector<T> mk_vec(arg_t const &_a)
{
  std::vector<T> v;
  v.reserve(32); // headroom: a join into an rvalue first argument must not reallocate the caller's objects
  for (int const i : _a.ids)
    v.emplace_back(i);
  return v;
}

template <typename T>
std::deque<T> mk_deque(arg_t const &_a)
{
  std::deque<T> v;
  for (int const i : _a.ids)
    v.emplace_back(i);
  return v;
}

template <typename T>
std::map<int, T> mk_map(arg_t const &_a)
{
  std::map<int, T> m;
  int k = 0;
  for (int const i : _a.ids)
    m.emplace(k++, i);
  return m;
}

// mark the element objects of a finished argument as the caller's (done in place, after the last move of the container)
template <bool C>
void mark(tok_t<C> &_t)
{
  _t.orig = true;
}
template <typename T>
void mark(fcppt::optional::object<T> &_o)
{
  if (_o.has_value())
    mark(_o.get_unsafe());
}
template <typename T>
void mark(std::vector<T> &_v)
{
  for (auto &e : _v)
    mark(e);
}
template <typename T>
void mark(std::deque<T> &_v)
{
  for (auto &e : _v)
    mark(e);
}
template <typename T>
void mark(std::map<int, T> &_m)
{
  for (auto &e : _m)
    mark(e.second);
}

// Calls f with the container in the value category named by cat. LvOk = false: the lvalue instantiation needs a copy
// constructor the element type does not have (the model's program contains a copy there).
template <bool LvOk, typename C, typename F>
auto with_cat(char const _cat, C &_c, F const &_f) -> decltype(_f(std::move(_c)))
{
  switch (_cat)
  {
  case 'r':
    return _f(std::move(_c));
  case 'l':
    if constexpr (LvOk)
      return _f(_c);
    else
      throw bad_op{};
  case 'c':
    if constexpr (LvOk)
      return _f(std::as_const(_c));
    else
      throw bad_op{};
  default:
    throw bad_op{};
  }
}

#define FWD(x) std::forward<decltype(x)>(x)

template <typename T>
struct acc
{
  T marker;
  std::vector<T> items;
};

template <typename T>
std::string acc_slots(acc<T> const &_a)
{
  slots_t s;
  s.add(_a.marker);
  s.add_range(_a.items);
  return s.str();
}

// ---------------------------------------------------------------- the operations

template <typename T>
std::string op_algmap(line_t const &L)
{
  need(L.args.size() == 1 && L.par.empty());
  auto v{mk_vec<T>(L.args[0])};
  mark(v);
  g_log.clear();
  std::vector<T> const r{with_cat<true>(L.cat(0), v, [](auto &&c) { return fcppt::algorithm::map<std::vector<T>>(FWD(c), thru{}); })};
  event_log const log{g_log};
  return finish("-", slots(r), {slots(v)}, log);
}

template <typename T>
std::string op_fold(line_t const &L, bool const _brk)
{
  need(L.args.size() == 2 && L.cat(1) == 'r' && L.n(1) == 1 && L.par.size() == (_brk ? 1U : 0U));
  auto v{mk_vec<T>(L.args[0])};
  mark(v);
  acc<T> st{T{L.args[1].ids[0]}, {}};
  mark(st.marker);
  g_log.clear();
  acc<T> const r{with_cat<true>(
      L.cat(0),
      v,
      [&](auto &&c)
      {
        if (_brk)
        {
          int count{0};
          int const stop{L.par[0]};
          return fcppt::algorithm::fold_break(
              FWD(c),
              std::move(st),
              [&count, stop](auto &&e, acc<T> &&s)
              {
                s.items.push_back(thru{}(FWD(e)));
                return std::make_pair(count++ == stop ? fcppt::loop::break_ : fcppt::loop::continue_, std::move(s));
              });
        }
        return fcppt::algorithm::fold(
            FWD(c),
            std::move(st),
            [](auto &&e, acc<T> &&s)
            {
              s.items.push_back(thru{}(FWD(e)));
              return std::move(s);
            });
      })};
  event_log const log{g_log};
  slots_t sm;
  sm.add(st.marker);
  return finish("-", acc_slots(r), {slots(v), sm.str()}, log);
}

template <typename T>
std::string op_mapcat(line_t const &L)
{
  need(L.args.size() == 1 && L.par.size() == L.n(0));
  auto v{mk_vec<T>(L.args[0])};
  mark(v);
  std::size_t idx{0};
  g_log.clear();
  std::vector<T> const r{with_cat<true>(
      L.cat(0),
      v,
      [&](auto &&c)
      {
        return fcppt::algorithm::map_concat<std::vector<T>>(
            FWD(c),
            [&idx, &L](auto &&e)
            {
              static_assert(std::is_lvalue_reference_v<decltype(e)>);
              std::vector<T> out;
              int const k{L.par.at(idx++)};
              e.read();
              for (int j = 1; j <= k; ++j)
                out.push_back(e.derive(j));
              return out;
            });
      })};
  event_log const log{g_log};
  return finish("-", slots(r), {slots(v)}, log);
}

template <typename T>
std::string op_mapopt(line_t const &L)
{
  need(L.args.size() == 1 && L.par.size() == L.n(0));
  auto v{mk_vec<T>(L.args[0])};
  mark(v);
  std::size_t idx{0};
  g_log.clear();
  std::vector<T> const r{with_cat<true>(
      L.cat(0),
      v,
      [&](auto &&c)
      {
        return fcppt::algorithm::map_optional<std::vector<T>>(
            FWD(c),
            [&idx, &L](auto &&e)
            {
              static_assert(std::is_lvalue_reference_v<decltype(e)>);
              int const k{L.par.at(idx++)};
              e.read();
              return k != 0 ? fcppt::optional::object<T>{e.derive(1)} : fcppt::optional::object<T>{};
            });
      })};
  event_log const log{g_log};
  return finish("-", slots(r), {slots(v)}, log);
}

template <typename T>
std::string op_reverse(line_t const &L)
{
  need(L.args.size() == 1 && L.par.empty());
  auto v{mk_vec<T>(L.args[0])};
  mark(v);
  g_log.clear();
  std::vector<T> const r{with_cat<T::copyable>(L.cat(0), v, [](auto &&c) { return fcppt::algorithm::reverse(FWD(c)); })};
  event_log const log{g_log};
  return finish("-", slots(r), {slots(v)}, log);
}

template <typename T>
std::string op_join(line_t const &L, std::size_t const _n)
{
  need(L.args.size() == _n && L.par.empty());
  auto a{mk_vec<T>(L.args[0])};
  mark(a);
  auto b{mk_vec<T>(L.args[1])};
  mark(b);
  arg_t const none{'r', {}};
  auto c{mk_vec<T>(_n == 3 ? L.args[2] : none)};
  mark(c);
  g_log.clear();
  std::vector<T> const r{with_cat<T::copyable>(
      L.cat(0),
      a,
      [&](auto &&x)
      {
        return with_cat<T::copyable>(
            L.cat(1),
            b,
            [&](auto &&y)
            {
              if (_n == 2)
                return fcppt::container::join(FWD(x), FWD(y));
              return with_cat<T::copyable>(
                  L.cat(2), c, [&](auto &&z) { return fcppt::container::join(FWD(x), FWD(y), FWD(z)); });
            });
      })};
  event_log const log{g_log};
  std::vector<std::string> args{slots(a), slots(b)};
  if (_n == 3)
    args.push_back(slots(c));
  return finish("-", slots(r), args, log);
}

template <typename T>
std::string op_pop(line_t const &L, bool const _back)
{
  need(L.args.size() == 1 && L.cat(0) == 'i' && L.par.empty());
  std::string arg;
  g_log.clear();
  fcppt::optional::object<T> const r{
      [&]
      {
        if (_back)
        {
          auto v{mk_vec<T>(L.args[0])};
          mark(v);
          g_log.clear();
          fcppt::optional::object<T> x{fcppt::container::pop_back(v)};
          arg = slots(v);
          return x;
        }
        auto v{mk_deque<T>(L.args[0])};
        mark(v);
        g_log.clear();
        fcppt::optional::object<T> x{fcppt::container::pop_front(v)};
        arg = slots(v);
        return x;
      }()};
  event_log const log{g_log};
  slots_t s;
  if (r.has_value())
    s.add(r.get_unsafe());
  return finish(r.has_value() ? "J" : "N", s.str(), {arg}, log);
}

template <typename T>
std::string op_mrmap(line_t const &L)
{
  need(L.args.size() == 1 && L.cat(0) == 'r' && L.par.empty());
  auto v{mk_vec<T>(L.args[0])};
  mark(v);
  g_log.clear();
  std::vector<T> const r{fcppt::algorithm::map<std::vector<T>>(fcppt::container::make_move_range(std::move(v)), thru{})};
  event_log const log{g_log};
  return finish("-", slots(r), {slots(v)}, log);
}

template <typename T>
std::string op_moveclear(line_t const &L)
{
  need(L.args.size() == 1 && L.cat(0) == 'i' && L.par.empty());
  auto v{mk_vec<T>(L.args[0])};
  mark(v);
  g_log.clear();
  std::vector<T> const r{fcppt::move_clear(v)};
  event_log const log{g_log};
  return finish("-", slots(r), {slots(v)}, log);
}

template <typename T>
std::string op_goi(line_t const &L, bool const _with_result)
{
  need(L.args.size() == 1 && L.cat(0) == 'i' && L.par.size() == 1 && L.par[0] >= 0 && static_cast<std::size_t>(L.par[0]) <= L.n(0));
  auto m{mk_map<T>(L.args[0])};
  mark(m);
  auto const create{[](int) { return T{1000}; }};
  g_log.clear();
  std::string tag;
  if (_with_result)
  {
    auto const r{fcppt::container::get_or_insert_with_result(m, L.par[0], create)};
    tag = "R" + std::to_string(r.element().id) + "/" + (r.inserted() ? "1" : "0");
  }
  else
  {
    T &r{fcppt::container::get_or_insert(m, L.par[0], create)};
    tag = "R" + std::to_string(r.id);
  }
  event_log const log{g_log};
  return finish(tag, "-", {map_slots(m)}, log);
}

// ---------------------------------------------------------------- optional

template <typename T>
using opt = fcppt::optional::object<T>;

template <typename T>
opt<T> mk_opt(arg_t const &_a)
{
  need(_a.ids.size() <= 1);
  if (_a.ids.empty())
    return opt<T>{};
  return opt<T>{T{_a.ids[0]}};
}

template <typename T>
std::string opt_slots(opt<T> const &_o)
{
  slots_t s;
  if (_o.has_value())
    s.add(_o.get_unsafe());
  return s.str();
}

template <typename T>
std::string opt_tag(opt<T> const &_o)
{
  return _o.has_value() ? "J" : "N";
}

// vector of optionals: the present entries (mask bit 1) carry the identities in order
template <typename T>
std::vector<opt<T>> mk_optvec(arg_t const &_a, std::vector<int> const &_mask)
{
  std::vector<opt<T>> v;
  v.reserve(32);
  std::size_t k{0};
  for (int const m : _mask)
  {
    need(m == 0 || m == 1);
    if (m == 1)
    {
      need(k < _a.ids.size());
      v.emplace_back(T{_a.ids[k++]});
    }
    else
      v.emplace_back();
  }
  need(k == _a.ids.size());
  return v;
}

template <typename T>
std::string optvec_slots(std::vector<opt<T>> const &_v)
{
  slots_t s;
  for (auto const &o : _v)
    if (o.has_value())
      s.add(o.get_unsafe());
  return s.str();
}

// reads its second argument, moves / derives the first
struct first_of_two
{
  template <typename A, typename B>
  std::remove_cvref_t<A> operator()(A &&_a, B &&_b) const
  {
    _b.read();
    return thru{}(std::forward<A>(_a));
  }
};

template <typename T>
std::string op_opt1(std::string const &_op, line_t const &L)
{
  need(L.args.size() == 1);
  auto o{mk_opt<T>(L.args[0])};
  mark(o);
  auto const par{[&](std::size_t i) { need(L.par.size() > i && (L.par[i] == 0 || L.par[i] == 1)); return L.par[i] == 1; }};
  g_log.clear();
  if (_op == "optmap")
  {
    need(L.par.empty());
    opt<T> const r{with_cat<true>(L.cat(0), o, [](auto &&x) { return fcppt::optional::map(FWD(x), thru{}); })};
    event_log const log{g_log};
    return finish(opt_tag(r), opt_slots(r), {opt_slots(o)}, log);
  }
  if (_op == "optbind")
  {
    need(L.par.size() == 1);
    bool const keep{par(0)};
    opt<T> const r{with_cat<true>(
        L.cat(0),
        o,
        [keep](auto &&x)
        {
          return fcppt::optional::bind(
              FWD(x),
              [keep](auto &&e)
              {
                e.read();
                return keep ? opt<T>{thru{}(FWD(e))} : opt<T>{};
              });
        })};
    event_log const log{g_log};
    return finish(opt_tag(r), opt_slots(r), {opt_slots(o)}, log);
  }
  if (_op == "optfrom")
  {
    need(L.par.empty());
    slots_t s;
    {
      T const r{with_cat<T::copyable>(L.cat(0), o, [](auto &&x) { return fcppt::optional::from(FWD(x), [] { return T{1000}; }); })};
      event_log const log{g_log};
      s.add(r);
      return finish("-", s.str(), {opt_slots(o)}, log);
    }
  }
  if (_op == "optalt")
  {
    need(L.par.size() == 1);
    bool const has{par(0)};
    opt<T> const r{with_cat<T::copyable>(
        L.cat(0), o, [has](auto &&x) { return fcppt::optional::alternative(FWD(x), [has] { return has ? opt<T>{T{1000}} : opt<T>{}; }); })};
    event_log const log{g_log};
    return finish(opt_tag(r), opt_slots(r), {opt_slots(o)}, log);
  }
  if (_op == "optfilter")
  {
    need(L.par.size() == 1);
    bool const keep{par(0)};
    opt<T> const r{with_cat<T::copyable>(
        L.cat(0),
        o,
        [keep](auto &&x)
        {
          return fcppt::optional::filter(
              FWD(x),
              [keep](T const &e)
              {
                e.read();
                return keep;
              });
        })};
    event_log const log{g_log};
    return finish(opt_tag(r), opt_slots(r), {opt_slots(o)}, log);
  }
  if (_op == "opttocont")
  {
    need(L.par.empty());
    std::vector<T> const r{
        with_cat<T::copyable>(L.cat(0), o, [](auto &&x) { return fcppt::optional::to_container<std::vector<T>>(FWD(x)); })};
    event_log const log{g_log};
    return finish("-", slots(r), {opt_slots(o)}, log);
  }
  throw bad_op{};
}

template <typename T>
std::string op_optjoin(line_t const &L)
{
  need(L.args.size() == 1 && L.par.size() == 1 && (L.par[0] == 0 || L.par[0] == 1) && L.n(0) <= 1 && (L.n(0) == 0 || L.par[0] == 1));
  opt<opt<T>> o{L.par[0] == 1 ? opt<opt<T>>{mk_opt<T>(L.args[0])} : opt<opt<T>>{}};
  mark(o);
  g_log.clear();
  opt<T> const r{with_cat<T::copyable>(L.cat(0), o, [](auto &&x) { return fcppt::optional::join(FWD(x)); })};
  event_log const log{g_log};
  slots_t s;
  if (o.has_value() && o.get_unsafe().has_value())
    s.add(o.get_unsafe().get_unsafe());
  return finish(opt_tag(r), opt_slots(r), {s.str()}, log);
}

template <typename T>
std::string op_opt2(std::string const &_op, line_t const &L)
{
  need(L.args.size() == 2 && L.par.empty());
  auto a{mk_opt<T>(L.args[0])};
  mark(a);
  auto b{mk_opt<T>(L.args[1])};
  mark(b);
  g_log.clear();
  bool const comb{_op == "optcombine"};
  opt<T> const r{with_cat<T::copyable>(
      L.cat(0),
      a,
      [&](auto &&x)
      {
        return with_cat<T::copyable>(
            L.cat(1),
            b,
            [&](auto &&y)
            {
              if (comb)
                return fcppt::optional::combine(FWD(x), FWD(y), first_of_two{});
              return fcppt::optional::apply(first_of_two{}, FWD(x), FWD(y));
            });
      })};
  event_log const log{g_log};
  return finish(opt_tag(r), opt_slots(r), {opt_slots(a), opt_slots(b)}, log);
}

template <typename T>
std::string op_optvec(std::string const &_op, line_t const &L)
{
  need(L.args.size() == 1);
  auto v{mk_optvec<T>(L.args[0], L.par)};
  mark(v);
  g_log.clear();
  if (_op == "optseq")
  {
    opt<std::vector<T>> const r{
        with_cat<T::copyable>(L.cat(0), v, [](auto &&x) { return fcppt::optional::sequence<std::vector<T>>(FWD(x)); })};
    event_log const log{g_log};
    return finish(opt_tag(r), r.has_value() ? slots(r.get_unsafe()) : "-", {optvec_slots(v)}, log);
  }
  std::vector<T> const r{with_cat<T::copyable>(L.cat(0), v, [](auto &&x) { return fcppt::optional::cat<std::vector<T>>(FWD(x)); })};
  event_log const log{g_log};
  return finish("-", slots(r), {optvec_slots(v)}, log);
}

// ---------------------------------------------------------------- move_if / move_if_rvalue themselves

template <typename T>
std::string op_moveif(std::string const &_op, line_t const &L)
{
  need(L.args.size() == 1 && L.n(0) == 1 && L.par.size() == 1);
  T x{L.args[0].ids[0]};
  mark(x);
  char const cat{L.cat(0)};
  int const k{L.par[0]};
  g_log.clear();
  // 'l' and 'i' are both a non-const lvalue; 'i' says that the caller asked for the move
  auto const go{[&](auto _f) -> T
                {
                  switch (cat)
                  {
                  case 'r':
                    return T(_f(std::move(x)));
                  case 'l':
                  case 'i':
                    return T(_f(x));
                  case 'c':
                    if constexpr (T::copyable)
                      return T(_f(std::as_const(x)));
                    else
                      throw bad_op{};
                  default:
                    throw bad_op{};
                  }
                }};
#define MOVE_IF(C) go([](auto &&a) -> decltype(auto) { return fcppt::move_if<C>(FWD(a)); })
#define MOVE_IF_RV(Ty) go([](auto &&a) -> decltype(auto) { return fcppt::move_if_rvalue<Ty>(FWD(a)); })
  auto const run{[&]() -> T
                 {
                   if (_op == "moveif")
                   {
                     need((k == 0 || k == 1) && (cat != 'l' || k == 0) && (cat != 'i' || k == 1));
                     if (k == 1)
                       return MOVE_IF(true);
                     if constexpr (T::copyable)
                       return MOVE_IF(false);
                     else
                     {
                       need(cat == 'r');
                       return T(fcppt::move_if<false>(std::move(x)));
                     }
                   }
                   need(k >= 0 && k <= 3 && (cat != 'l' || k <= 1) && (cat != 'i' || k >= 2));
                   if (k >= 2)
                     return k == 2 ? MOVE_IF_RV(T) : MOVE_IF_RV(T &&);
                   if constexpr (T::copyable)
                     return k == 0 ? MOVE_IF_RV(T &) : MOVE_IF_RV(T const &);
                   else
                   {
                     need(cat == 'r');
                     return k == 0 ? T(fcppt::move_if_rvalue<T &>(std::move(x))) : T(fcppt::move_if_rvalue<T const &>(std::move(x)));
                   }
                 }};
  T const r{run()};
  event_log const log{g_log};
  slots_t sr, sa;
  sr.add(r);
  sa.add(x);
  return finish("-", sr.str(), {sa.str()}, log);
}

// ---------------------------------------------------------------- container::make (moves out of every argument, by contract)

template <typename T>
std::string op_contmake(line_t const &L)
{
  need(L.args.size() == 2 && L.n(0) == 1 && L.n(1) == 1 && L.par.empty());
  T a{L.args[0].ids[0]};
  T b{L.args[1].ids[0]};
  mark(a);
  mark(b);
  auto const ok{[](char c) { return c == 'i' || c == 'r'; }};
  need(ok(L.cat(0)) && ok(L.cat(1)));
  g_log.clear();
  // 'i': a non-const lvalue handed to make (which is documented to move out of it), 'r': an rvalue
  std::vector<T> const r{
      L.cat(0) == 'r' ? (L.cat(1) == 'r' ? fcppt::container::make<std::vector<T>>(std::move(a), std::move(b))
                                         : fcppt::container::make<std::vector<T>>(std::move(a), b))
                      : (L.cat(1) == 'r' ? fcppt::container::make<std::vector<T>>(a, std::move(b))
                                         : fcppt::container::make<std::vector<T>>(a, b))};
  event_log const log{g_log};
  slots_t sa, sb;
  sa.add(a);
  sb.add(b);
  return finish("-", slots(r), {sa.str(), sb.str()}, log);
}

// ---------------------------------------------------------------- either

template <typename T>
struct fail
{
  T t;
  int read() const { return t.read(); }
  fail derive(int const _k) const { return fail{t.derive(_k)}; }
};

template <typename T>
using eith = fcppt::either::object<fail<T>, T>;

template <typename T>
eith<T> mk_eith(int const _id, int const _side)
{
  need(_side == 0 || _side == 1);
  return _side == 1 ? eith<T>{T{_id}} : eith<T>{fail<T>{T{_id}}};
}

template <typename T>
void mark(eith<T> &_e)
{
  if (_e.has_success())
    mark(_e.get_success_unsafe());
  else
    mark(_e.get_failure_unsafe().t);
}

template <typename T>
T const &eith_tok(eith<T> const &_e)
{
  return _e.has_success() ? _e.get_success_unsafe() : _e.get_failure_unsafe().t;
}

template <typename T>
std::string eith_slots(eith<T> const &_e)
{
  slots_t s;
  s.add(eith_tok(_e));
  return s.str();
}

template <typename T>
std::string eith_tag(eith<T> const &_e)
{
  return _e.has_success() ? "S" : "F";
}

// fail<T> -> T and T -> T, moving an rvalue through and deriving from an lvalue
struct to_tok
{
  template <typename U>
  auto operator()(U &&_u) const
  {
    if constexpr (requires { _u.t; })
      return thru{}(fcppt::move_if_rvalue<U>(_u.t));
    else
      return thru{}(std::forward<U>(_u));
  }
};

template <typename T>
std::string op_eith1(std::string const &_op, line_t const &L)
{
  need(L.args.size() == 1 && L.n(0) == 1 && !L.par.empty());
  int const side{L.par[0]};
  auto e{mk_eith<T>(L.args[0].ids[0], side)};
  mark(e);
  g_log.clear();
  if (_op == "eithmap" || _op == "eithmapfail" || _op == "eithbind" || _op == "eithjoinflat")
  {
    int const fside{_op == "eithbind" ? (need(L.par.size() == 2), L.par[1]) : (need(L.par.size() == 1), 0)};
    need(fside == 0 || fside == 1);
    eith<T> const r{with_cat<T::copyable>(
        L.cat(0),
        e,
        [&](auto &&x)
        {
          if (_op == "eithmap")
            return fcppt::either::map(FWD(x), thru{});
          if (_op == "eithmapfail")
            return fcppt::either::map_failure(FWD(x), thru{});
          return fcppt::either::bind(
              FWD(x),
              [fside](auto &&v)
              {
                v.read();
                return fside == 1 ? eith<T>{thru{}(FWD(v))} : eith<T>{fail<T>{thru{}(FWD(v))}};
              });
        })};
    event_log const log{g_log};
    return finish(eith_tag(r), eith_slots(r), {eith_slots(e)}, log);
  }
  if (_op == "eithmatch")
  {
    need(L.par.size() == 1);
    slots_t sr;
    T const r{with_cat<true>(L.cat(0), e, [](auto &&x) { return fcppt::either::match(FWD(x), to_tok{}, to_tok{}); })};
    event_log const log{g_log};
    sr.add(r);
    return finish("-", sr.str(), {eith_slots(e)}, log);
  }
  if (_op == "eithsuccopt")
  {
    need(L.par.size() == 1);
    opt<T> const r{with_cat<T::copyable>(L.cat(0), e, [](auto &&x) { return fcppt::either::success_opt(FWD(x)); })};
    event_log const log{g_log};
    return finish(opt_tag(r), opt_slots(r), {eith_slots(e)}, log);
  }
  if (_op == "eithfailopt")
  {
    need(L.par.size() == 1);
    opt<fail<T>> const r{with_cat<T::copyable>(L.cat(0), e, [](auto &&x) { return fcppt::either::failure_opt(FWD(x)); })};
    event_log const log{g_log};
    slots_t sr;
    if (r.has_value())
      sr.add(r.get_unsafe().t);
    return finish(opt_tag(r), sr.str(), {eith_slots(e)}, log);
  }
  throw bad_op{};
}

template <typename T>
std::string op_eithfromopt(line_t const &L)
{
  need(L.args.size() == 1 && L.par.empty());
  auto o{mk_opt<T>(L.args[0])};
  mark(o);
  g_log.clear();
  eith<T> const r{with_cat<T::copyable>(
      L.cat(0), o, [](auto &&x) { return fcppt::either::from_optional(FWD(x), [] { return fail<T>{T{1000}}; }); })};
  event_log const log{g_log};
  return finish(eith_tag(r), eith_slots(r), {opt_slots(o)}, log);
}

template <typename T>
std::string op_eithjoin(line_t const &L)
{
  // par[0]: 0 = F x, 1 = S (F x), 2 = S (S x)
  need(L.args.size() == 1 && L.n(0) == 1 && L.par.size() == 1 && L.par[0] >= 0 && L.par[0] <= 2);
  using outer = fcppt::either::object<fail<T>, eith<T>>;
  int const id{L.args[0].ids[0]};
  outer e{L.par[0] == 0 ? outer{fail<T>{T{id}}} : outer{mk_eith<T>(id, L.par[0] - 1)}};
  auto const tok{[](outer &_o) -> T & { return _o.has_failure() ? _o.get_failure_unsafe().t : const_cast<T &>(eith_tok(_o.get_success_unsafe())); }};
  mark(tok(e));
  g_log.clear();
  eith<T> const r{with_cat<T::copyable>(L.cat(0), e, [](auto &&x) { return fcppt::either::join(FWD(x)); })};
  event_log const log{g_log};
  slots_t sa;
  sa.add(tok(e));
  return finish(eith_tag(r), eith_slots(r), {sa.str()}, log);
}

template <typename T>
std::string op_eithapply2(line_t const &L)
{
  need(L.args.size() == 2 && L.n(0) == 1 && L.n(1) == 1 && L.par.size() == 2);
  auto a{mk_eith<T>(L.args[0].ids[0], L.par[0])};
  auto b{mk_eith<T>(L.args[1].ids[0], L.par[1])};
  mark(a);
  mark(b);
  g_log.clear();
  eith<T> const r{with_cat<T::copyable>(
      L.cat(0),
      a,
      [&](auto &&x)
      { return with_cat<T::copyable>(L.cat(1), b, [&](auto &&y) { return fcppt::either::apply(first_of_two{}, FWD(x), FWD(y)); }); })};
  event_log const log{g_log};
  return finish(eith_tag(r), eith_slots(r), {eith_slots(a), eith_slots(b)}, log);
}

template <typename T>
std::string op_eithseq(line_t const &L)
{
  need(L.args.size() == 1 && L.par.size() == L.n(0));
  std::vector<eith<T>> v;
  v.reserve(32);
  for (std::size_t i = 0; i < L.n(0); ++i)
    v.push_back(mk_eith<T>(L.args[0].ids[i], L.par[i]));
  for (auto &e : v)
    mark(e);
  g_log.clear();
  using res_t = fcppt::either::object<fail<T>, std::vector<T>>;
  // only the rvalue instantiation exists: the requires-clause of either::sequence applies value_type to `Source` with its reference
  need(L.cat(0) == 'r');
  res_t const r{fcppt::either::sequence<std::vector<T>>(std::move(v))};
  event_log const log{g_log};
  slots_t sa, sr;
  for (auto const &e : v)
    sa.add(eith_tok(e));
  if (r.has_success())
    sr.add_range(r.get_success_unsafe());
  else
    sr.add(r.get_failure_unsafe().t);
  return finish(r.has_success() ? "S" : "F", sr.str(), {sa.str()}, log);
}

template <typename T>
std::string op_eithfirst(line_t const &L)
{
  need(L.args.empty());
  std::vector<fcppt::function<eith<T>()>> fs;
  int k{0};
  for (int const m : L.par)
  {
    need(m == 0 || m == 1);
    int const id{1000 + k++};
    fs.push_back(fcppt::function<eith<T>()>{[m, id] { return mk_eith<T>(id, m); }});
  }
  g_log.clear();
  auto const r{fcppt::either::first_success(fs)};
  event_log const log{g_log};
  slots_t sr;
  if (r.has_success())
    sr.add(r.get_success_unsafe());
  else
    for (auto const &f : r.get_failure_unsafe())
      sr.add(f.t);
  return finish(r.has_success() ? "S" : "F", sr.str(), {}, log);
}

// ---------------------------------------------------------------- variant

template <typename T>
struct w1
{
  T t;
  int read() const { return t.read(); }
};
template <typename T>
struct w2
{
  T t;
  int read() const { return t.read(); }
};

template <typename T>
using var3 = fcppt::variant::object<T, w1<T>, w2<T>>;

template <typename T>
var3<T> mk_var(int const _id, int const _alt)
{
  need(_alt >= 0 && _alt <= 2);
  return _alt == 0 ? var3<T>{T{_id}} : _alt == 1 ? var3<T>{w1<T>{T{_id}}} : var3<T>{w2<T>{T{_id}}};
}

template <typename T>
T &var_tok(var3<T> &_v)
{
  return fcppt::variant::match(
      _v, [](T &t) -> T & { return t; }, [](w1<T> &w) -> T & { return w.t; }, [](w2<T> &w) -> T & { return w.t; });
}

template <typename T>
std::string var_slots(var3<T> &_v)
{
  slots_t s;
  s.add(var_tok(_v));
  return s.str();
}

template <typename T>
std::string op_var(std::string const &_op, line_t const &L)
{
  need(L.args.size() >= 1 && L.n(0) == 1 && !L.par.empty());
  auto v{mk_var<T>(L.args[0].ids[0], L.par[0])};
  mark(var_tok(v));
  if (_op == "contmake")
    return op_contmake<T>(L);
  if (_op == "varmatch" || _op == "varapply")
  {
    need(L.args.size() == 1 && L.par.size() == 1);
    g_log.clear();
    T const r{with_cat<true>(
        L.cat(0),
        v,
        [&](auto &&x)
        {
          if (_op == "varmatch")
            return fcppt::variant::match(FWD(x), to_tok{}, to_tok{}, to_tok{});
          return fcppt::variant::apply(to_tok{}, FWD(x));
        })};
    event_log const log{g_log};
    slots_t sr;
    sr.add(r);
    return finish("-", sr.str(), {var_slots(v)}, log);
  }
  if (_op == "varapply2")
  {
    need(L.args.size() == 2 && L.n(1) == 1 && L.par.size() == 2);
    auto u{mk_var<T>(L.args[1].ids[0], L.par[1])};
    mark(var_tok(u));
    g_log.clear();
    T const r{with_cat<true>(
        L.cat(0),
        v,
        [&](auto &&x)
        {
          return with_cat<true>(
              L.cat(1),
              u,
              [&](auto &&y)
              {
                return fcppt::variant::apply(
                    [](auto &&a, auto &&b)
                    {
                      b.read();
                      return to_tok{}(FWD(a));
                    },
                    FWD(x),
                    FWD(y));
              });
        })};
    event_log const log{g_log};
    slots_t sr;
    sr.add(r);
    return finish("-", sr.str(), {var_slots(v), var_slots(u)}, log);
  }
  if (_op == "vartoopt")
  {
    // par[1]: the alternative asked for (0 = T, 1 = w1<T>)
    need(L.args.size() == 1 && L.par.size() == 2 && (L.par[1] == 0 || L.par[1] == 1));
    g_log.clear();
    slots_t sr;
    std::string tag;
    if (L.par[1] == 0)
    {
      opt<T> const r{with_cat<T::copyable>(L.cat(0), v, [](auto &&x) { return fcppt::variant::to_optional<T>(FWD(x)); })};
      if (r.has_value())
        sr.add(r.get_unsafe());
      tag = opt_tag(r);
    }
    else
    {
      opt<w1<T>> const r{with_cat<T::copyable>(L.cat(0), v, [](auto &&x) { return fcppt::variant::to_optional<w1<T>>(FWD(x)); })};
      if (r.has_value())
        sr.add(r.get_unsafe().t);
      tag = opt_tag(r);
    }
    event_log const log{g_log};
    return finish(tag, sr.str(), {var_slots(v)}, log);
  }
  throw bad_op{};
}

// ---------------------------------------------------------------- tuple / array / record (sizes are template arguments: 0..3)

template <std::size_t Max, typename F>
std::string with_n(std::size_t const _n, F const &_f)
{
  need(_n <= Max);
  switch (_n)
  {
  case 0:
    return _f(std::integral_constant<std::size_t, 0>{});
  case 1:
    if constexpr (Max >= 1)
      return _f(std::integral_constant<std::size_t, 1>{});
    break;
  case 2:
    if constexpr (Max >= 2)
      return _f(std::integral_constant<std::size_t, 2>{});
    break;
  case 3:
    if constexpr (Max >= 3)
      return _f(std::integral_constant<std::size_t, 3>{});
    break;
  default:
    break;
  }
  throw bad_op{};
}

template <typename T, std::size_t>
using rep = T;
template <typename T, typename Seq>
struct tup_of;
template <typename T, std::size_t... I>
struct tup_of<T, std::index_sequence<I...>>
{
  using type = fcppt::tuple::object<rep<T, I>...>;
};
template <typename T, std::size_t N>
using tup_n = typename tup_of<T, std::make_index_sequence<N>>::type;
template <typename T, std::size_t N>
using arr_n = fcppt::array::object<T, N>;

template <typename T, std::size_t N>
tup_n<T, N> mk_tup(arg_t const &_a)
{
  need(_a.ids.size() == N);
  return fcppt::tuple::init<tup_n<T, N>>([&_a]<std::size_t I>(std::integral_constant<std::size_t, I>) { return T{_a.ids[I]}; });
}
template <typename T, std::size_t N>
arr_n<T, N> mk_arr(arg_t const &_a)
{
  need(_a.ids.size() == N);
  return fcppt::array::init<arr_n<T, N>>([&_a]<std::size_t I>(std::integral_constant<std::size_t, I>) { return T{_a.ids[I]}; });
}

template <typename Tup, typename F, std::size_t... I>
void tup_each(Tup &_t, F const &_f, std::index_sequence<I...>)
{
  (_f(fcppt::tuple::get<I>(_t)), ...);
}
template <typename... Ts>
void mark(fcppt::tuple::object<Ts...> &_t)
{
  tup_each(_t, [](auto &e) { mark(e); }, std::index_sequence_for<Ts...>{});
}
template <typename... Ts>
std::string tup_slots(fcppt::tuple::object<Ts...> const &_t)
{
  slots_t s;
  tup_each(_t, [&s](auto const &e) { s.add(e); }, std::index_sequence_for<Ts...>{});
  return s.str();
}
template <typename T, std::size_t N>
void mark(arr_n<T, N> &_a)
{
  for (auto &e : _a.impl())
    mark(e);
}
template <typename T, std::size_t N>
std::string arr_slots(arr_n<T, N> const &_a)
{
  return slots(_a.impl());
}

template <typename T>
std::string op_tuple(std::string const &_op, line_t const &L)
{
  if (_op == "tupmap")
  {
    need(L.args.size() == 1 && L.par.empty());
    return with_n<3>(
        L.n(0),
        [&](auto N) -> std::string
        {
          auto t{mk_tup<T, decltype(N)::value>(L.args[0])};
          mark(t);
          g_log.clear();
          auto const r{with_cat<true>(L.cat(0), t, [](auto &&x) { return fcppt::tuple::map(FWD(x), thru{}); })};
          event_log const log{g_log};
          return finish("-", tup_slots(r), {tup_slots(t)}, log);
        });
  }
  if (_op == "tuppush")
  {
    need(L.args.size() == 2 && L.n(1) == 1 && L.par.empty());
    return with_n<3>(
        L.n(0),
        [&](auto N) -> std::string
        {
          auto t{mk_tup<T, decltype(N)::value>(L.args[0])};
          mark(t);
          T e{L.args[1].ids[0]};
          mark(e);
          g_log.clear();
          auto const r{with_cat<T::copyable>(
              L.cat(0),
              t,
              [&](auto &&x)
              { return with_cat<T::copyable>(L.cat(1), e, [&](auto &&y) { return fcppt::tuple::push_back(FWD(x), FWD(y)); }); })};
          event_log const log{g_log};
          slots_t se;
          se.add(e);
          return finish("-", tup_slots(r), {tup_slots(t), se.str()}, log);
        });
  }
  if (_op == "tupconcat")
  {
    need(L.args.size() == 2 && L.par.empty());
    return with_n<2>(
        L.n(0),
        [&](auto N1) -> std::string
        {
          return with_n<2>(
              L.n(1),
              [&](auto N2) -> std::string
              {
                auto a{mk_tup<T, decltype(N1)::value>(L.args[0])};
                mark(a);
                auto b{mk_tup<T, decltype(N2)::value>(L.args[1])};
                mark(b);
                g_log.clear();
                // only the all-rvalue instantiation exists: the enable_if of tuple::concat applies is_object to `Tuples` with their references
                need(L.cat(0) == 'r' && L.cat(1) == 'r');
                auto const r{fcppt::tuple::concat(std::move(a), std::move(b))};
                event_log const log{g_log};
                return finish("-", tup_slots(r), {tup_slots(a), tup_slots(b)}, log);
              });
        });
  }
  throw bad_op{};
}

template <typename T>
std::string op_array(std::string const &_op, line_t const &L)
{
  if (_op == "arrmap")
  {
    need(L.args.size() == 1 && L.par.empty());
    return with_n<3>(
        L.n(0),
        [&](auto N) -> std::string
        {
          auto t{mk_arr<T, decltype(N)::value>(L.args[0])};
          mark(t);
          g_log.clear();
          auto const r{with_cat<true>(L.cat(0), t, [](auto &&x) { return fcppt::array::map(FWD(x), thru{}); })};
          event_log const log{g_log};
          return finish("-", arr_slots(r), {arr_slots(t)}, log);
        });
  }
  if (_op == "arrpush")
  {
    need(L.args.size() == 2 && L.n(1) == 1 && L.par.empty());
    return with_n<3>(
        L.n(0),
        [&](auto N) -> std::string
        {
          auto t{mk_arr<T, decltype(N)::value>(L.args[0])};
          mark(t);
          T e{L.args[1].ids[0]};
          mark(e);
          g_log.clear();
          auto const r{with_cat<T::copyable>(
              L.cat(0),
              t,
              [&](auto &&x)
              { return with_cat<T::copyable>(L.cat(1), e, [&](auto &&y) { return fcppt::array::push_back(FWD(x), FWD(y)); }); })};
          event_log const log{g_log};
          slots_t se;
          se.add(e);
          return finish("-", arr_slots(r), {arr_slots(t), se.str()}, log);
        });
  }
  if (_op == "arrjoin2" || _op == "arrjoin3")
  {
    bool const three{_op == "arrjoin3"};
    need(L.args.size() == (three ? 3U : 2U) && L.par.empty());
    return with_n<2>(
        L.n(0),
        [&](auto N1) -> std::string
        {
          return with_n<2>(
              L.n(1),
              [&](auto N2) -> std::string
              {
                auto a{mk_arr<T, decltype(N1)::value>(L.args[0])};
                mark(a);
                auto b{mk_arr<T, decltype(N2)::value>(L.args[1])};
                mark(b);
                if (!three)
                {
                  g_log.clear();
                  auto const r{with_cat<T::copyable>(
                      L.cat(0),
                      a,
                      [&](auto &&x)
                      { return with_cat<T::copyable>(L.cat(1), b, [&](auto &&y) { return fcppt::array::join(FWD(x), FWD(y)); }); })};
                  event_log const log{g_log};
                  return finish("-", arr_slots(r), {arr_slots(a), arr_slots(b)}, log);
                }
                // the third array has one element
                need(L.n(2) == 1);
                auto c{mk_arr<T, 1>(L.args[2])};
                mark(c);
                g_log.clear();
                auto const r{with_cat<T::copyable>(
                    L.cat(0),
                    a,
                    [&](auto &&x)
                    {
                      return with_cat<T::copyable>(
                          L.cat(1),
                          b,
                          [&](auto &&y)
                          {
                            return with_cat<T::copyable>(
                                L.cat(2), c, [&](auto &&z) { return fcppt::array::join(FWD(x), FWD(y), FWD(z)); });
                          });
                    })};
                event_log const log{g_log};
                return finish("-", arr_slots(r), {arr_slots(a), arr_slots(b), arr_slots(c)}, log);
              });
        });
  }
  if (_op == "arrfromrange")
  {
    // par[0]: the static size asked for (0..3)
    need(L.args.size() == 1 && L.par.size() == 1 && L.par[0] >= 0);
    auto v{mk_vec<T>(L.args[0])};
    mark(v);
    return with_n<3>(
        static_cast<std::size_t>(L.par[0]),
        [&](auto N) -> std::string
        {
          g_log.clear();
          auto const r{with_cat<T::copyable>(L.cat(0), v, [](auto &&x) { return fcppt::array::from_range<decltype(N)::value>(FWD(x)); })};
          event_log const log{g_log};
          return finish(opt_tag(r), r.has_value() ? arr_slots(r.get_unsafe()) : "-", {slots(v)}, log);
        });
  }
  throw bad_op{};
}

FCPPT_RECORD_MAKE_LABEL(la0);
FCPPT_RECORD_MAKE_LABEL(la1);
FCPPT_RECORD_MAKE_LABEL(la2);
FCPPT_RECORD_MAKE_LABEL(lb0);
FCPPT_RECORD_MAKE_LABEL(lb1);

template <typename T, typename... Ls>
using rec_of = fcppt::record::object<fcppt::record::element<Ls, T>...>;

template <typename T, typename... Ls>
rec_of<T, Ls...> mk_rec(arg_t const &_a)
{
  need(_a.ids.size() == sizeof...(Ls));
  std::size_t i{0};
  // braced init: evaluated left to right
  return rec_of<T, Ls...>{(Ls{} = T{_a.ids[i++]})...};
}
template <typename T, typename... Ls>
void mark(rec_of<T, Ls...> &_r)
{
  (mark(fcppt::record::get<Ls>(_r)), ...);
}
template <typename T, typename... Ls>
std::string rec_slots(rec_of<T, Ls...> const &_r)
{
  slots_t s;
  (s.add(fcppt::record::get<Ls>(_r)), ...);
  return s.str();
}

template <typename T, typename... Ls>
std::string do_recmap(line_t const &L)
{
  auto r0{mk_rec<T, Ls...>(L.args[0])};
  mark<T, Ls...>(r0);
  g_log.clear();
  // only the rvalue instantiation exists: record::map_result applies element_vector to `Record` with its reference
  need(L.cat(0) == 'r');
  auto const r{fcppt::record::map(std::move(r0), thru{})};
  event_log const log{g_log};
  return finish("-", rec_slots<T, Ls...>(r), {rec_slots<T, Ls...>(r0)}, log);
}

// the result lists the labels in the order Rs...
template <typename T, typename In, typename... Rs>
std::string do_recperm(line_t const &L, In &_in, std::string (*_show)(In const &))
{
  g_log.clear();
  auto const r{with_cat<T::copyable>(L.cat(0), _in, [](auto &&x) { return fcppt::record::permute<rec_of<T, Rs...>>(FWD(x)); })};
  event_log const log{g_log};
  return finish("-", rec_slots<T, Rs...>(r), {_show(_in)}, log);
}

template <typename T, typename... As>
struct rec_left
{
  template <typename... Bs>
  static std::string mul(line_t const &L)
  {
    auto a{mk_rec<T, As...>(L.args[0])};
    mark<T, As...>(a);
    auto b{mk_rec<T, Bs...>(L.args[1])};
    mark<T, Bs...>(b);
    g_log.clear();
    auto const r{with_cat<T::copyable>(
        L.cat(0),
        a,
        [&](auto &&x)
        { return with_cat<T::copyable>(L.cat(1), b, [&](auto &&y) { return fcppt::record::multiply_disjoint(FWD(x), FWD(y)); }); })};
    event_log const log{g_log};
    return finish("-", rec_slots<T, As..., Bs...>(r), {rec_slots<T, As...>(a), rec_slots<T, Bs...>(b)}, log);
  }
  static std::string go(line_t const &L)
  {
    switch (L.n(1))
    {
    case 0:
      return mul<>(L);
    case 1:
      return mul<lb0>(L);
    case 2:
      return mul<lb0, lb1>(L);
    default:
      throw bad_op{};
    }
  }
};

template <typename T>
std::string op_record(std::string const &_op, line_t const &L)
{
  if (_op == "recmap")
  {
    need(L.args.size() == 1 && L.par.empty());
    switch (L.n(0))
    {
    case 0:
      return do_recmap<T>(L);
    case 1:
      return do_recmap<T, la0>(L);
    case 2:
      return do_recmap<T, la0, la1>(L);
    case 3:
      return do_recmap<T, la0, la1, la2>(L);
    default:
      throw bad_op{};
    }
  }
  if (_op == "recpermute")
  {
    // par = the permutation: result position j takes the element of label par[j]
    need(L.args.size() == 1 && L.par.size() == L.n(0));
    std::string key;
    for (int const p : L.par)
      key += std::to_string(p);
    switch (L.n(0))
    {
    case 0:
    {
      auto in{mk_rec<T>(L.args[0])};
      return do_recperm<T, rec_of<T>>(L, in, &rec_slots<T>);
    }
    case 1:
    {
      need(key == "0");
      auto in{mk_rec<T, la0>(L.args[0])};
      mark<T, la0>(in);
      return do_recperm<T, rec_of<T, la0>, la0>(L, in, &rec_slots<T, la0>);
    }
    case 2:
    {
      auto in{mk_rec<T, la0, la1>(L.args[0])};
      mark<T, la0, la1>(in);
      using in_t = rec_of<T, la0, la1>;
      if (key == "01")
        return do_recperm<T, in_t, la0, la1>(L, in, &rec_slots<T, la0, la1>);
      if (key == "10")
        return do_recperm<T, in_t, la1, la0>(L, in, &rec_slots<T, la0, la1>);
      throw bad_op{};
    }
    case 3:
    {
      auto in{mk_rec<T, la0, la1, la2>(L.args[0])};
      mark<T, la0, la1, la2>(in);
      using in_t = rec_of<T, la0, la1, la2>;
      auto const show{&rec_slots<T, la0, la1, la2>};
      if (key == "012")
        return do_recperm<T, in_t, la0, la1, la2>(L, in, show);
      if (key == "021")
        return do_recperm<T, in_t, la0, la2, la1>(L, in, show);
      if (key == "102")
        return do_recperm<T, in_t, la1, la0, la2>(L, in, show);
      if (key == "120")
        return do_recperm<T, in_t, la1, la2, la0>(L, in, show);
      if (key == "201")
        return do_recperm<T, in_t, la2, la0, la1>(L, in, show);
      if (key == "210")
        return do_recperm<T, in_t, la2, la1, la0>(L, in, show);
      throw bad_op{};
    }
    default:
      throw bad_op{};
    }
  }
  if (_op == "recmuldisj")
  {
    need(L.args.size() == 2 && L.par.empty());
    switch (L.n(0))
    {
    case 0:
      return rec_left<T>::go(L);
    case 1:
      return rec_left<T, la0>::go(L);
    case 2:
      return rec_left<T, la0, la1>::go(L);
    default:
      throw bad_op{};
    }
  }
  throw bad_op{};
}

// ---------------------------------------------------------------- grid (2 dimensions, storage order = x fastest)

template <typename T>
using grid2 = fcppt::container::grid::object<T, 2>;

template <typename T>
grid2<T> mk_grid(arg_t const &_a, int const _w, int const _h)
{
  need(_w >= 0 && _h >= 0 && static_cast<std::size_t>(_w * _h) == _a.ids.size());
  using dim = typename grid2<T>::dim;
  using pos = typename grid2<T>::pos;
  return grid2<T>{
      dim{static_cast<std::size_t>(_w), static_cast<std::size_t>(_h)},
      [&](pos const p) { return T{_a.ids.at(p.y() * static_cast<std::size_t>(_w) + p.x())}; }};
}
template <typename T>
void mark(grid2<T> &_g)
{
  for (auto &e : _g)
    mark(e);
}

template <typename T>
std::string op_grid(std::string const &_op, line_t const &L)
{
  using dim = typename grid2<T>::dim;
  using pos = typename grid2<T>::pos;
  if (_op == "gridmap")
  {
    need(L.args.size() == 1 && L.par.size() == 2);
    auto g{mk_grid<T>(L.args[0], L.par[0], L.par[1])};
    mark(g);
    g_log.clear();
    grid2<T> const r{with_cat<true>(L.cat(0), g, [](auto &&x) { return fcppt::container::grid::map(FWD(x), thru{}); })};
    event_log const log{g_log};
    return finish("-", slots(r), {slots(g)}, log);
  }
  if (_op == "gridapply2")
  {
    need(L.args.size() == 2 && L.par.size() == 4);
    auto g{mk_grid<T>(L.args[0], L.par[0], L.par[1])};
    mark(g);
    auto h{mk_grid<T>(L.args[1], L.par[2], L.par[3])};
    mark(h);
    g_log.clear();
    grid2<T> const r{with_cat<true>(
        L.cat(0),
        g,
        [&](auto &&x)
        { return with_cat<true>(L.cat(1), h, [&](auto &&y) { return fcppt::container::grid::apply(first_of_two{}, FWD(x), FWD(y)); }); })};
    event_log const log{g_log};
    return finish("-", slots(r), {slots(g), slots(h)}, log);
  }
  if (_op == "gridresize")
  {
    need(L.args.size() == 1 && L.par.size() == 4 && L.par[2] >= 0 && L.par[3] >= 0);
    auto g{mk_grid<T>(L.args[0], L.par[0], L.par[1])};
    mark(g);
    std::size_t const nw{static_cast<std::size_t>(L.par[2])};
    dim const nd{nw, static_cast<std::size_t>(L.par[3])};
    g_log.clear();
    grid2<T> const r{with_cat<T::copyable>(
        L.cat(0),
        g,
        [&](auto &&x)
        {
          return fcppt::container::grid::resize(
              FWD(x), nd, [nw](pos const p) { return T{1000 + static_cast<int>(p.y() * nw + p.x())}; });
        })};
    event_log const log{g_log};
    return finish("-", slots(r), {slots(g)}, log);
  }
  throw bad_op{};
}

// ---------------------------------------------------------------- tree (root value + leaf children)

template <typename T>
using tree = fcppt::container::tree::object<T>;

template <typename T>
tree<T> mk_tree(arg_t const &_a)
{
  need(!_a.ids.empty());
  tree<T> t{T{_a.ids[0]}};
  for (std::size_t i = 1; i < _a.ids.size(); ++i)
    t.push_back(T{_a.ids[i]});
  return t;
}
template <typename T>
void mark(tree<T> &_t)
{
  mark(_t.value());
  for (auto &c : _t)
    mark(c);
}
template <typename T>
void tree_add(slots_t &_s, tree<T> const &_t)
{
  _s.add(_t.value());
  for (auto const &c : _t)
    tree_add(_s, c);
}
template <typename T>
std::string tree_slots(tree<T> const &_t)
{
  slots_t s;
  tree_add(s, _t);
  return s.str();
}

template <typename T>
std::string op_tree(std::string const &_op, line_t const &L)
{
  if (_op == "treector")
  {
    need(L.args.size() == 1 && L.n(0) == 1 && L.par.empty());
    T x{L.args[0].ids[0]};
    mark(x);
    g_log.clear();
    tree<T> const r{with_cat<T::copyable>(L.cat(0), x, [](auto &&v) { return tree<T>{FWD(v)}; })};
    event_log const log{g_log};
    slots_t sx;
    sx.add(x);
    return finish("-", tree_slots(r), {sx.str()}, log);
  }
  if (_op == "treepushval" || _op == "treepushtree")
  {
    need(L.args.size() == 2 && L.cat(0) == 'i' && L.n(1) == 1 && L.par.empty());
    auto t{mk_tree<T>(L.args[0])};
    mark(t);
    if (_op == "treepushval")
    {
      T x{L.args[1].ids[0]};
      mark(x);
      g_log.clear();
      switch (L.cat(1))
      {
      case 'r':
        t.push_back(std::move(x));
        break;
      case 'l':
        if constexpr (T::copyable)
          t.push_back(x);
        else
          throw bad_op{};
        break;
      case 'c':
        if constexpr (T::copyable)
          t.push_back(std::as_const(x));
        else
          throw bad_op{};
        break;
      default:
        throw bad_op{};
      }
      event_log const log{g_log};
      slots_t sx;
      sx.add(x);
      return finish("-", "-", {tree_slots(t), sx.str()}, log);
    }
    need(L.cat(1) == 'r');
    tree<T> c{T{L.args[1].ids[0]}};
    mark(c);
    g_log.clear();
    t.push_back(std::move(c));
    event_log const log{g_log};
    return finish("-", "-", {tree_slots(t), tree_slots(c)}, log);
  }
  if (_op == "treerelease")
  {
    need(L.args.size() == 1 && L.cat(0) == 'i' && L.par.size() == 1 && L.par[0] >= 0 && static_cast<std::size_t>(L.par[0]) + 1 < L.n(0));
    auto t{mk_tree<T>(L.args[0])};
    mark(t);
    g_log.clear();
    tree<T> const r{t.release(std::next(t.begin(), L.par[0]))};
    event_log const log{g_log};
    return finish("-", tree_slots(r), {tree_slots(t)}, log);
  }
  if (_op == "treemap")
  {
    need(L.args.size() == 1 && L.par.empty());
    auto t{mk_tree<T>(L.args[0])};
    mark(t);
    g_log.clear();
    tree<T> const r{
        with_cat<true>(L.cat(0), t, [](auto &&x) { return fcppt::container::tree::map<tree<T>>(FWD(x), [](T const &v) { return v.derive(1); }); })};
    event_log const log{g_log};
    return finish("-", tree_slots(r), {tree_slots(t)}, log);
  }
  throw bad_op{};
}

// ---------------------------------------------------------------- options: the constructors that take element values

FCPPT_RECORD_MAKE_LABEL(lopt);

// what a parser built from the element type stores is shown by parsing (outside the logged window)
template <typename P>
std::string parse_value(P const &_p, fcppt::args_vector _args)
{
  using result_type = fcppt::options::result_of<P>;
  return fcppt::either::match(
      _p.parse(fcppt::options::state{std::move(_args)}, fcppt::options::parse_context{_p.option_names()}),
      [](fcppt::options::parse_error const &) { return std::string{"?"}; },
      [](fcppt::options::state_with_value<result_type> const &_r) { return slot(fcppt::record::get<lopt>(_r.value())); });
}

template <typename T>
std::string op_options(std::string const &_op, line_t const &L)
{
  namespace fo = fcppt::options;
  if (_op == "optsflag")
  {
    need(L.args.size() == 2 && L.n(0) == 1 && L.n(1) == 1 && L.cat(0) == 'r' && L.cat(1) == 'r' && L.par.empty());
    fo::active_value<T> a{T{L.args[0].ids[0]}};
    fo::inactive_value<T> b{T{L.args[1].ids[0]}};
    mark(a.get());
    mark(b.get());
    g_log.clear();
    std::string res;
    try
    {
      fo::flag<lopt, T> const f{
          fo::optional_short_name{}, fo::long_name{fcppt::string{"flag"}}, std::move(a), std::move(b), fo::optional_help_text{}};
      event_log const log{g_log};
      if constexpr (T::copyable)
        res = parse_value(f, fcppt::args_vector{fcppt::string{"--flag"}}) + "," + parse_value(f, fcppt::args_vector{});
      else
        res = "?";
      slots_t sa, sb;
      sa.add(a.get());
      sb.add(b.get());
      return finish("-", res, {sa.str(), sb.str()}, log);
    }
    catch (fcppt::options::exception const &)
    {
      event_log const log{g_log};
      slots_t sa, sb;
      sa.add(a.get());
      sb.add(b.get());
      return finish("exc:options", "-", {sa.str(), sb.str()}, log);
    }
  }
  if (_op == "optsoption")
  {
    need(L.args.size() == 1 && L.n(0) <= 1 && L.cat(0) == 'r' && L.par.empty());
    using dv = typename fo::option<lopt, T>::optional_default_value;
    dv d{mk_opt<T>(L.args[0])};
    mark(d.get());
    g_log.clear();
    fo::option<lopt, T> const o{fo::optional_short_name{}, fo::long_name{fcppt::string{"opt"}}, std::move(d), fo::optional_help_text{}};
    event_log const log{g_log};
    std::string res{"-"};
    if constexpr (T::copyable)
    {
      if (L.n(0) == 1)
        res = parse_value(o, fcppt::args_vector{});
    }
    else if (L.n(0) == 1)
      res = "?";
    return finish("-", res, {opt_slots(d.get())}, log);
  }
  throw bad_op{};
}

// ---------------------------------------------------------------- parse: results built from sub-results

template <typename T>
std::string op_parse(std::string const &_op, line_t const &L)
{
  namespace fp = fcppt::parse;
  need(L.args.empty() && L.par.size() == 1 && L.par[0] >= 0 && L.par[0] <= 8);
  std::string const input(static_cast<std::size_t>(L.par[0]), 'x');
  int next{1000};
  auto const one{[&next]
                 {
                   return fp::make_convert(
                       fp::basic_char<char>{},
                       [&next](char &&)
                       {
                         return T{next++};
                       });
                 }};
  g_log.clear();
  if (_op == "parseseq")
  {
    auto const p{one() >> one()};
    auto const r{fp::parse_string(p, std::string{input})};
    event_log const log{g_log};
    slots_t sr;
    if (r.has_success())
    {
      sr.add(fcppt::tuple::get<0>(r.get_success_unsafe()));
      sr.add(fcppt::tuple::get<1>(r.get_success_unsafe()));
    }
    return finish(r.has_success() ? "S" : "F", sr.str(), {}, log);
  }
  if (_op == "parserep")
  {
    auto const p{*one()};
    auto const r{fp::parse_string(p, std::string{input})};
    event_log const log{g_log};
    return finish(r.has_success() ? "S" : "F", r.has_success() ? slots(r.get_success_unsafe()) : "-", {}, log);
  }
  throw bad_op{};
}

// ---------------------------------------------------------------- dispatch

template <typename T>
std::string dispatch(std::string const &_op, line_t const &L)
{
  if (_op == "algmap")
    return op_algmap<T>(L);
  if (_op == "fold")
    return op_fold<T>(L, false);
  if (_op == "foldbrk")
    return op_fold<T>(L, true);
  if (_op == "mapcat")
    return op_mapcat<T>(L);
  if (_op == "mapopt")
    return op_mapopt<T>(L);
  if (_op == "reverse")
    return op_reverse<T>(L);
  if (_op == "join2")
    return op_join<T>(L, 2);
  if (_op == "join3")
    return op_join<T>(L, 3);
  if (_op == "popback")
    return op_pop<T>(L, true);
  if (_op == "popfront")
    return op_pop<T>(L, false);
  if (_op == "mrmap")
    return op_mrmap<T>(L);
  if (_op == "moveclear")
    return op_moveclear<T>(L);
  if (_op == "goi")
    return op_goi<T>(L, false);
  if (_op == "goiwr")
    return op_goi<T>(L, true);
  if (_op == "optmap" || _op == "optbind" || _op == "optfrom" || _op == "optalt" || _op == "optfilter" || _op == "opttocont")
    return op_opt1<T>(_op, L);
  if (_op == "optjoin")
    return op_optjoin<T>(L);
  if (_op == "optcombine" || _op == "optapply2")
    return op_opt2<T>(_op, L);
  if (_op == "optseq" || _op == "optcat")
    return op_optvec<T>(_op, L);
  if (_op == "moveif" || _op == "moveifrv")
    return op_moveif<T>(_op, L);
  if (_op == "eithmap" || _op == "eithmapfail" || _op == "eithbind" || _op == "eithmatch" || _op == "eithsuccopt" || _op == "eithfailopt")
    return op_eith1<T>(_op, L);
  if (_op == "eithfromopt")
    return op_eithfromopt<T>(L);
  if (_op == "eithjoin")
    return op_eithjoin<T>(L);
  if (_op == "eithapply2")
    return op_eithapply2<T>(L);
  if (_op == "eithseq")
    return op_eithseq<T>(L);
  if (_op == "eithfirst")
    return op_eithfirst<T>(L);
  if (_op == "contmake")
    return op_contmake<T>(L);
  if (_op == "varmatch" || _op == "varapply" || _op == "varapply2" || _op == "vartoopt")
    return op_var<T>(_op, L);
  if (_op == "tupmap" || _op == "tuppush" || _op == "tupconcat")
    return op_tuple<T>(_op, L);
  if (_op == "arrmap" || _op == "arrpush" || _op == "arrjoin2" || _op == "arrjoin3" || _op == "arrfromrange")
    return op_array<T>(_op, L);
  if (_op == "recmap" || _op == "recpermute" || _op == "recmuldisj")
    return op_record<T>(_op, L);
  if (_op == "gridmap" || _op == "gridapply2" || _op == "gridresize")
    return op_grid<T>(_op, L);
  if (_op == "treector" || _op == "treepushval" || _op == "treepushtree" || _op == "treerelease" || _op == "treemap")
    return op_tree<T>(_op, L);
  if (_op == "optsflag" || _op == "optsoption")
    return op_options<T>(_op, L);
  if (_op == "parseseq" || _op == "parserep")
    return op_parse<T>(_op, L);
  throw bad_op{};
}

std::string handle(std::vector<std::string> const &_t)
{
  try
  {
    if (_t.size() < 3 || (_t[1] != "T" && _t[1] != "M"))
      return "bad-op";
    line_t L;
    L.mo = _t[1] == "M";
    std::size_t const n{static_cast<std::size_t>(std::stoul(_t[2]))};
    if (_t.size() < 3 + n)
      return "bad-op";
    for (std::size_t i = 0; i < n; ++i)
    {
      std::string const &s{_t[3 + i]};
      if (s.size() < 3 || s[1] != ':')
        return "bad-op";
      arg_t a;
      a.cat = s[0];
      for (long long const x : vh::int_list(s.substr(2)))
        a.ids.push_back(static_cast<int>(x));
      L.args.push_back(a);
    }
    for (std::size_t i = 3 + n; i < _t.size(); ++i)
      L.par.push_back(std::stoi(_t[i]));
#ifdef C05_NO_MOVE_ONLY
    // diagnostic build (C05_NO_MOVE_ONLY=1 ./check.py C05): without the move-only twin, so that a change in /repo that stops the
    // move-only instantiations from compiling can still be localised to concrete inputs with the copyable type
    if (L.mo)
      return "bad-op";
    return dispatch<Tok>(_t[0], L);
#else
    return L.mo ? dispatch<MTok>(_t[0], L) : dispatch<Tok>(_t[0], L);
#endif
  }
  catch (bad_op const &)
  {
    return "bad-op";
  }
  catch (std::exception const &)
  {
    return "exc:std";
  }
}
}

int main() { return vh::run(handle); }
