// C05 correspondence harness: drives the real fcppt templates with an instrumented element type and prints the
// event abstraction described in lean/FcpptModel/Drv/C05.lean:
//   t=<tag> r=<slots> a0=<slots> ... cp=<ids copied> mv=<ids moved out of argument objects> ram=<ids touched after move>
// The operations live in the family units harness/c05_{alg,alg2,opt,eith,tup,rec,grid,tree,opts,parse}.cpp (compiled in parallel);
// harness/c05_common.hpp holds the instrumented element type, the user's functions and the protocol helpers.
#include "c05_common.hpp"

namespace
{
using namespace c05;

std::string dispatch(std::string const &_op, line_t const &L)
{
  std::string out;
  if (family_alg(_op, L, L.mo, out) || family_alg2(_op, L, L.mo, out) || family_opt(_op, L, L.mo, out) || family_eith(_op, L, L.mo, out) ||
      family_tup(_op, L, L.mo, out) || family_rec(_op, L, L.mo, out) || family_grid(_op, L, L.mo, out) || family_tree(_op, L, L.mo, out) || family_opts(_op, L, L.mo, out) ||
      family_parse(_op, L, L.mo, out))
    return out;
  throw bad_op{};
}

std::string handle(std::vector<std::string> const &_t)
{
  try
  {
    if (_t.size() < 3 || (_t[1] != "T" && _t[1] != "M"))
      return "bad-op";
    line_t L;
    L.mo = _t[1] == "M";
    std::size_t const n{static_cast<std::size_t>(std::stoul(_t[2]))};
    if (_t.size() < 3 + n)
      return "bad-op";
    for (std::size_t i = 0; i < n; ++i)
    {
      std::string const &s{_t[3 + i]};
      if (s.size() < 3 || s[1] != ':')
        return "bad-op";
      arg_t a;
      a.cat = s[0];
      for (long long const x : vh::int_list(s.substr(2)))
        a.ids.push_back(static_cast<int>(x));
      L.args.push_back(a);
    }
    for (std::size_t i = 3 + n; i < _t.size(); ++i)
      L.par.push_back(std::stoi(_t[i]));
    // C05_NO_MOVE_ONLY (diagnostic build, C05_NO_MOVE_ONLY=1 ./check.py C05): the family units are built without the move-only
    // twin, so that a change in /repo that stops the move-only instantiations from compiling can still be localised
    return dispatch(_t[0], L);
  }
  catch (bad_op const &)
  {
    return "bad-op";
  }
  catch (std::exception const &)
  {
    return "exc:std";
  }
}
}

int main() { return vh::run(handle); }
