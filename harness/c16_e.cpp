// C16 correspondence harness, part e of the per-function evaluation (see c16_common.hpp)
#include "c16_common.hpp"

c16::result c16::eval_e(std::string const &fn, char const k, params const &ps, std::vector<int> const &v)
{
  C16_PREAMBLE
  if (fn == "make" && np == 1)
  {
    ulong const t = ps[0];
    if (k != 'v' || t > 3) return bad;
    if (v.size() > 4) return skip;
    return with_size<4>(v.size(), [&](auto n) {
      std::vector<pe> args(v.begin(), v.end());
      auto const go = [&]<typename T>(fcppt::tag<T>) {
        return [&]<std::size_t... I>(std::index_sequence<I...>) {
          auto const r{con::make<T>(args[I]...)};
          return ds(r) + "|" + ds(args);
        }(std::make_index_sequence<SZ(n)>{});
      };
      switch (t)
      {
      case 0: return go(fcppt::tag<std::vector<pe>>{});
      case 1: return go(fcppt::tag<std::list<pe>>{});
      case 2: return go(fcppt::tag<std::deque<pe>>{});
      default: return go(fcppt::tag<std::set<pe>>{});
      }
    });
  }
  if (fn == "mvrange" && np == 0)
  {
    if (!sq) return bad;
    return with_pseq(k, v, [&](auto &c) {
      auto range{con::make_move_range(std::move(c))};
      auto const &crange{range};
      std::string const before{ds(crange)};
      std::vector<pe> read;
      for (auto &&e : range) // move iterators: e is an rvalue
        read.push_back(pe{FWD(e)});
      return before + "|" + ds(read) + "|" + ds(crange);
    });
  }
  if (fn == "mmiter" && np == 1)
  {
    // map_iteration over a std::multimap: key of the i-th entry = i / 2 (so keys repeat)
    ulong const R = ps[0];
    if (k != 'v' || R >= 8) return bad;
    std::multimap<int, int> m;
    for (std::size_t i = 0; i < v.size(); ++i) m.emplace(static_cast<int>(i / 2), v[i]);
    seq log;
    alg::map_iteration(m, [&log, R](std::pair<int const, int> const &e) {
      log.push_back(e.second);
      return bit(R, e.second) ? alg::update_action::remove : alg::update_action::keep;
    });
    std::string r;
    for (auto const &e : m) r += (r.empty() ? "" : ",") + std::to_string(e.first) + ">" + std::to_string(e.second);
    return (r.empty() ? "-" : r) + "|" + ds(log);
  }
  if (fn == "setiter" && np == 1)
  {
    ulong const R = ps[0];
    if (k != 's' || R >= 8) return bad;
    std::set<int> c(v.begin(), v.end());
    seq log;
    alg::map_iteration(c, [&log, R](int const e) {
      log.push_back(e);
      return bit(R, e) ? alg::update_action::remove : alg::update_action::keep;
    });
    return ds(c) + "|" + ds(log);
  }
  // ------------------------------------------------------------ equal, size, front/back, pop, data, output
  if (fn == "equal" && np == 2)
  {
    ulong const k2 = ps[0], c1 = ps[1];
    if (!(sq || k == 'f') || k2 > 3) return bad;
    if (c1 > v.size()) return skip;
    using diff = seq::difference_type;
    seq const xs(v.begin(), v.begin() + static_cast<diff>(c1)), ys(v.begin() + static_cast<diff>(c1), v.end());
    return with_vldf(k, xs, [&](auto const &a) {
      return with_vldf("vldf"[k2], ys, [&](auto const &b) { return std::string{b01(alg::equal(a, b))}; });
    });
  }
  if (fn == "equalself" && np == 0)
  {
    if (!(sq || k == 'f')) return bad;
    return with_vldf(k, v, [&](auto const &a) { return std::string{b01(alg::equal(a, a))}; });
  }
  if (fn == "csize" && np == 0)
  {
    if (!ro) return bad;
    return with_ro(k, v, [&](auto const &c) { return std::to_string(con::size(c)); });
  }
  if ((fn == "mfront" || fn == "mback") && np == 0)
  {
    bool const front = fn == "mfront";
    if (!(sq || (front && k == 'f'))) return bad;
    auto const go = [front](auto &c) -> std::string {
      auto const &cc{c};
      auto const show = [front](auto &x, auto const &o) {
        if (!o.has_value()) return std::string{"none"};
        bool same;
        if constexpr (requires { x.back(); }) same = &o.get_unsafe().get() == (front ? &x.front() : &x.back());
        else same = &o.get_unsafe().get() == &x.front();
        return std::to_string(o.get_unsafe().get()) + (same ? "" : "!ref");
      };
      std::string a, b;
      if constexpr (requires { c.back(); })
      {
        a = front ? show(c, con::maybe_front(c)) : show(c, con::maybe_back(c));
        b = front ? show(cc, con::maybe_front(cc)) : show(cc, con::maybe_back(cc));
      }
      else
      {
        a = show(c, con::maybe_front(c));
        b = show(cc, con::maybe_front(cc));
      }
      return a == b ? a : a + "!=" + b;
    };
    if (k == 'f') { std::forward_list<int> c(v.begin(), v.end()); return go(c); }
    return with_seq(k, v, go);
  }
  if (fn == "popback" && np == 0)
  {
    if (!sq) return bad;
    return with_seq(k, v, [&](auto &c) {
      auto const o{con::pop_back(c)};
      return (o.has_value() ? std::to_string(o.get_unsafe()) : std::string{"none"}) + "|" + ds(c);
    });
  }
  if (fn == "popfront" && np == 0)
  {
    if (!(k == 'l' || k == 'd' || k == 'f')) return bad;
    auto const go = [](auto &c) {
      auto const o{con::pop_front(c)};
      return (o.has_value() ? std::to_string(o.get_unsafe()) : std::string{"none"}) + "|" + ds(c);
    };
    if (k == 'l') { std::list<int> c(v.begin(), v.end()); return go(c); }
    if (k == 'd') { std::deque<int> c(v.begin(), v.end()); return go(c); }
    std::forward_list<int> c(v.begin(), v.end());
    return go(c);
  }
  if (fn == "data" && np == 0)
  {
    if (!(k == 'v' || k == 'a')) return bad;
    auto const go = [](auto &c) -> std::string {
      auto const &cc{c};
      auto const one = [](auto &x) -> std::string {
        auto *const d{con::data(x)};
        auto *const e{con::data_end(x)};
        if (d == nullptr || e == nullptr)
          return std::string{d == nullptr ? "null" : "ptr"} + "|" + (e == nullptr ? "null" : "ptr");
        return std::string{d == &*x.begin() ? "0" : "elsewhere"} + "|" + std::to_string(e - d);
      };
      std::string const a{one(c)}, b{one(cc)};
      return a == b ? a : a + "!=" + b;
    };
    if (k == 'a') // here: std::array (fcppt::array::object has no empty())
      return with_size<6>(v.size(), [&](auto n) {
        std::array<int, SZ(n)> a{};
        for (std::size_t i = 0; i < SZ(n); ++i) a[i] = v[i];
        return go(a);
      });
    std::vector<int> c(v.begin(), v.end());
    return go(c);
  }
  if (fn == "output" && np == 0)
  {
    if (!(sq || k == 'f' || k == 's')) return bad;
    // elements are printed as x*50-3 so that renderings have different lengths and a sign
    seq w;
    for (int const x : v) w.push_back(x * 50 - 3);
    auto const go = [](auto const &c) {
      std::ostringstream os;
      os << con::output(c);
      std::wostringstream wos;
      wos << con::output(c);
      std::string a{os.str()}, b;
      for (wchar_t const ch : wos.str()) b += static_cast<char>(ch);
      return a == b ? a : a + "!=" + b;
    };
    switch (k)
    {
    case 'v': { std::vector<int> const c(w.begin(), w.end()); return go(c); }
    case 'l': { std::list<int> const c(w.begin(), w.end()); return go(c); }
    case 'd': { std::deque<int> const c(w.begin(), w.end()); return go(c); }
    case 'f': { std::forward_list<int> const c(w.begin(), w.end()); return go(c); }
    default: { std::set<int> const c(w.begin(), w.end()); return go(c); }
    }
  }
  // ------------------------------------------------------------ aliasing: the value argument is a reference to element I of the same container
  if ((fn == "containsat" || fn == "findoptat") && np == 1)
  {
    ulong const I = ps[0];
    if (!(sq || k == 'f' || k == 's') || I > 8) return bad;
    return with_ro(k, v, [&](auto const &c) -> std::string {
      using elem = elem_t<decltype(c)>;
      if constexpr (std::is_same_v<elem, int>)
      {
        if (I >= static_cast<ulong>(std::distance(c.begin(), c.end()))) return skip;
        int const &value{*std::next(c.begin(), static_cast<std::ptrdiff_t>(I))};
        if (fn == "containsat") return b01(alg::contains(c, value));
        return opt_idx(c, alg::find_opt(c, value));
      }
      else
        return bad;
    });
  }
  if (fn == "indexofat" && np == 1)
  {
    ulong const I = ps[0];
    if (!(k == 'v' || k == 'd' || k == 'a') || I > 8) return bad;
    if (I >= v.size()) return skip;
    auto const show = [](auto const &o) { return o.has_value() ? std::to_string(o.get_unsafe()) : std::string{"none"}; };
    if (k == 'a')
      return with_size<6>(v.size(), [&](auto n) -> std::string {
        if constexpr (SZ(n) == 0) return skip;
        else
        {
          auto const a{mk_array<SZ(n)>(v, 0)};
          return show(alg::index_of(a, *(a.begin() + static_cast<std::ptrdiff_t>(I))));
        }
      });
    return with_seq(k, v, [&](auto &c) -> std::string {
      if constexpr (std::is_same_v<std::remove_cvref_t<decltype(c)>, std::list<int>>) return bad;
      else return show(alg::index_of(c, c[I]));
    });
  }
  if ((fn == "eqrangeat" || fn == "bsearchat") && np == 1)
  {
    ulong const I = ps[0];
    if (!(sq || k == 's') || I > 8) return bad;
    return with_seq_set(k, v, [&](auto &c) {
      if (I >= c.size()) return skip;
      int const &value{*std::next(c.begin(), static_cast<std::ptrdiff_t>(I))};
      if (fn == "eqrangeat")
      {
        auto const r{alg::equal_range(c, value)};
        return std::to_string(std::distance(c.begin(), r.begin())) + "," + std::to_string(std::distance(c.begin(), r.end()));
      }
      return opt_idx(c, alg::binary_search(c, value));
    });
  }
  if (fn == "apushat" && np == 1)
  {
    ulong const I = ps[0];
    if (k != 'a' || I > 8) return bad;
    if (I >= v.size() || v.size() > 5) return skip;
    return with_size<5>(v.size(), [&](auto n) -> std::string {
      if constexpr (SZ(n) == 0) return skip;
      else
      {
        auto a{mk_array<SZ(n)>(v, 0)};
        auto const before{a};
        std::string const r{ds(fcppt::array::push_back(a, *(a.begin() + static_cast<std::ptrdiff_t>(I))))};
        return a == before ? r : r + "!source-modified";
      }
    });
  }
  if ((fn == "aappendself" || fn == "ajoinself") && np == 0)
  {
    if (k != 'a') return bad;
    if (v.size() > (fn == "aappendself" ? 3U : 2U)) return skip;
    return with_size<3>(v.size(), [&](auto n) -> std::string {
      auto a{mk_array<SZ(n)>(v, 0)};
      auto const before{a};
      std::string r;
      if (fn == "aappendself") r = ds(fcppt::array::append(a, a));
      else if constexpr (SZ(n) <= 2) r = ds(fcppt::array::join(a, a, a));
      else return skip;
      return a == before ? r : r + "!source-modified";
    });
  }
  if (fn == "tpushat" && np == 1)
  {
    ulong const I = ps[0];
    if (k != 't' || I > 2) return bad;
    if (I >= v.size() || v.size() > 2) return skip;
    return with_size<2>(v.size(), [&](auto n) {
      return with_size<1>(I, [&](auto i) -> std::string {
        if constexpr (SZ(i) >= SZ(n)) return skip;
        else
        {
          auto t{mk_tuple<SZ(n)>(v, 0)};
          std::string const r{ds_tuple(fcppt::tuple::push_back(t, fcppt::tuple::get<SZ(i)>(t)))};
          return ds_tuple(t) == ds(v) ? r : r + "!source-modified";
        }
      });
    });
  }
  if (fn == "tconcatself" && np == 0)
  {
    if (k != 't') return bad;
    return with_size<3>(v.size(), [&](auto n) {
      auto t{mk_tuple<SZ(n)>(v, 0)};
      std::string const r{ds_tuple(fcppt::tuple::concat(concat_arg(t), concat_arg(t)))};
      return ds_tuple(t) == ds(v) ? r : r + "!source-modified";
    });
  }
  return std::nullopt;
}
