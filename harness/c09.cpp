// C09 correspondence harness: runs the real fcppt::container::tree::object<int> on the operation lines
// described in lean/FcpptModel/Drv/C09.lean and prints the same canonical result lines.
// A forest of at most 4 heap-allocated roots; operands are selectors (n-th node in pre-order, or an explicit path).
#include "common/vh.hpp"

#include <fcppt/container/tree/child_position.hpp>
#include <fcppt/container/tree/comparison.hpp>
#include <fcppt/container/tree/depth.hpp>
#include <fcppt/container/tree/is_object.hpp>
#include <fcppt/container/tree/level.hpp>
#include <fcppt/container/tree/make_pre_order.hpp>
#include <fcppt/container/tree/make_to_root.hpp>
#include <fcppt/container/tree/map.hpp>
#include <fcppt/container/tree/object.hpp>
#include <fcppt/container/tree/output.hpp>
#include <fcppt/container/tree/pre_order.hpp>
#include <fcppt/container/tree/to_root.hpp>
#include <fcppt/optional/object_impl.hpp>
#include <fcppt/optional/reference.hpp>

#include <cstddef>
#include <functional>
#include <initializer_list>
#include <iterator>
#include <memory>
#include <sstream>
#include <string>
#include <utility>
#include <vector>

namespace
{
using path = std::vector<std::size_t>;

constexpr std::size_t max_roots = 4;
constexpr std::size_t grow_cap = 40;
constexpr std::size_t copy_cap = 64;
constexpr std::size_t walk_cap = 100000;
constexpr std::size_t pair_cap = 14;
std::string path_str(path const &p)
{
  std::string r;
  for (std::size_t k = 0; k < p.size(); ++k)
  {
    if (k)
      r += '.';
    r += std::to_string(p[k]);
  }
  return r;
}
bool is_nat(std::string const &s)
{
  if (s.empty())
    return false;
  for (char c : s)
    if (c < '0' || c > '9')
      return false;
  return true;
}
bool is_int(std::string const &s)
{
  if (!s.empty() && s[0] == '-')
    return is_nat(s.substr(1));
  return is_nat(s);
}
bool is_prefix(path const &p, path const &q)
{
  if (p.size() > q.size())
    return false;
  for (std::size_t k = 0; k < p.size(); ++k)
    if (p[k] != q[k])
      return false;
  return true;
}
std::string int_list(std::vector<int> const &v)
{
  std::string r;
  for (std::size_t i = 0; i < v.size(); ++i)
  {
    if (i)
      r += ',';
    r += std::to_string(v[i]);
  }
  return r;
}
int key_of(int k, int v)
{
  switch (k)
  {
  case 2:
    return ((v % 3) + 3) % 3;
  default:
    return v < 0 ? -v : v;
  }
}

bool sel_well_formed(std::string const &tok)
{
  if (!tok.empty() && tok[0] == 'p')
  {
    std::size_t pos = 1;
    while (true)
    {
      std::size_t const next = tok.find('.', pos);
      if (!is_nat(tok.substr(pos, next == std::string::npos ? next : next - pos)))
        return false;
      if (next == std::string::npos)
        return true;
      pos = next + 1;
    }
  }
  return is_nat(tok);
}

bool one_of(std::string const &c, std::initializer_list<char const *> l)
{
  for (char const *x : l)
    if (c == x)
      return true;
  return false;
}

// the tokens of a line that select nodes; false: not a known node command of that arity
bool node_operands(std::vector<std::string> const &t, std::vector<std::string> &out)
{
  if (t.size() == 2 && one_of(t[0], {"clear", "sort", "cpc", "mvc", "pre", "toroot", "depth", "level", "map", "front", "back",
                                     "kids", "out"}))
  {
    out = {t[1]};
    return true;
  }
  if (t.size() == 3 && one_of(t[0], {"set", "pushb", "pushf", "popb", "popf", "erase", "cposk", "sortp", "mkl"}))
  {
    out = {t[1]};
    return true;
  }
  if (t.size() == 3 && one_of(t[0], {"pushbt", "pushft", "swap", "cpa", "mva", "cpos", "eq", "pushbv", "pushfv", "setv",
                                     "pushbmv", "pushfmv", "setmv"}))
  {
    out = {t[1], t[2]};
    return true;
  }
  if (t.size() == 4 && one_of(t[0], {"ins", "rel", "eraser"}))
  {
    out = {t[1]};
    return true;
  }
  if (t.size() == 4 && one_of(t[0], {"inst", "insv"}))
  {
    out = {t[1], t[3]};
    return true;
  }
  return false;
}

// A value type that can be moved but not copied (fcppt itself instantiates the tree with such a type:
// fcppt::log::detail::context_tree_node).  A moved-from mo_int keeps its number, like an int, so the same model applies;
// any copy of a value inside a member function that is used here is a compile error.
struct mo_int
{
  explicit mo_int(int const _v) : v{_v} {}
  mo_int(mo_int const &) = delete;
  mo_int &operator=(mo_int const &) = delete;
  mo_int(mo_int &&) noexcept = default;
  mo_int &operator=(mo_int &&) noexcept = default;
  ~mo_int() = default;
  int v;
};

bool operator==(mo_int const &a, mo_int const &b) { return a.v == b.v; }
bool operator<(mo_int const &a, mo_int const &b) { return a.v < b.v; }
template <typename Ch, typename Traits>
std::basic_ostream<Ch, Traits> &operator<<(std::basic_ostream<Ch, Traits> &s, mo_int const &a)
{
  return s << a.v;
}

std::string to_s(int const v) { return std::to_string(v); }
std::string to_s(long const v) { return std::to_string(v); }
std::string to_s(mo_int const &v) { return std::to_string(v.v); }
int iv(int const v) { return v; }
int iv(mo_int const &v) { return v.v; }

namespace plain
{
using value_t = int;
int mk(int const v) { return v; }
#define C09_COPYABLE 1
#include "c09_body.cpp"
#undef C09_COPYABLE
}

namespace moveonly
{
using value_t = mo_int;
mo_int mk(int const v) { return mo_int{v}; }
#define C09_COPYABLE 0
#include "c09_body.cpp"
#undef C09_COPYABLE
}

// lines starting with "M" go to the move-only instantiation (a forest of its own); "reset" clears both
std::string handle(std::vector<std::string> const &t)
{
  try
  {
    if (t.size() == 1 && t[0] == "reset")
    {
      moveonly::forest.clear();
      return plain::handle_impl(t);
    }
    if (!t.empty() && t[0] == "M")
    {
      std::vector<std::string> const rest(t.begin() + 1, t.end());
      if (rest.size() == 1 && rest[0] == "reset")
        return "bad-op";
      return moveonly::handle_impl(rest);
    }
    return plain::handle_impl(t);
  }
  catch (std::exception const &)
  {
    return "exc:std";
  }
}
}

int main() { return vh::run(handle); }
