// C13 correspondence harness: dispatch on the coordinate type.  The work is in c13_inst.hpp; one translation unit per
// coordinate type (c13_i.cpp int, c13_u.cpp unsigned, c13_l.cpp long, c13_m.cpp unsigned long) so that they compile in parallel.
#include "c13_inst.hpp"

namespace
{
std::string handle(std::vector<std::string> const &t)
{
  if (t.size() < 3)
    return "bad-op";
  if (t[1] == "i")
    return c13::handle_i(t);
  if (t[1] == "u")
    return c13::handle_u(t);
  if (t[1] == "l")
    return c13::handle_l(t);
  if (t[1] == "m")
    return c13::handle_m(t);
  return "bad-op";
}
}

int main() { return vh::run(handle); }
