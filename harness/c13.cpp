// C13 correspondence harness: runs the real fcppt::math::box functions on the operation lines described in
// /verif/lean/FcpptModel/Drv/C13.lean and prints the same canonical result lines.
#include "common/vh.hpp"

#include <fcppt/math/interval_distance.hpp>
#include <fcppt/math/size_constant.hpp>
#include <fcppt/math/size_type.hpp>
#include <fcppt/math/box/center.hpp>
#include <fcppt/math/box/comparison.hpp>
#include <fcppt/math/box/contains.hpp>
#include <fcppt/math/box/contains_point.hpp>
#include <fcppt/math/box/corner_points.hpp>
#include <fcppt/math/box/distance.hpp>
#include <fcppt/math/box/extend_bounding_box.hpp>
#include <fcppt/math/box/init_dim.hpp>
#include <fcppt/math/box/init_max.hpp>
#include <fcppt/math/box/intersection.hpp>
#include <fcppt/math/box/intersects.hpp>
#include <fcppt/math/box/interval.hpp>
#include <fcppt/math/box/null.hpp>
#include <fcppt/math/box/object_impl.hpp>
#include <fcppt/math/box/shrink.hpp>
#include <fcppt/math/box/stretch_absolute.hpp>
#include <fcppt/math/dim/at.hpp>
#include <fcppt/math/dim/init.hpp>
#include <fcppt/math/dim/object_impl.hpp>
#include <fcppt/math/vector/at.hpp>
#include <fcppt/math/vector/init.hpp>
#include <fcppt/math/vector/object_impl.hpp>
#include <fcppt/tuple/make.hpp>
#include <fcppt/tuple/object_impl.hpp>

#include <array>
#include <cstdint>
#include <limits>
#include <optional>
#include <string>
#include <vector>

namespace
{
constexpr std::uint64_t prime = 1099511628211ULL;

inline std::uint64_t mix(std::uint64_t h, std::uint64_t x) { return (h ^ x) * prime; }

template <typename T>
std::uint64_t u64(T x)
{
  if constexpr (std::is_signed_v<T>)
    return static_cast<std::uint64_t>(static_cast<std::int64_t>(x));
  else
    return static_cast<std::uint64_t>(x);
}

template <typename T>
std::optional<T> scalar(std::string const &s)
{
  // accept exactly the values of T
  try
  {
    std::size_t used = 0;
    long long const v = std::stoll(s, &used);
    if (used != s.size())
      return std::nullopt;
    if (v < static_cast<long long>(std::numeric_limits<T>::min()) ||
        v > static_cast<long long>(std::numeric_limits<T>::max()))
      return std::nullopt;
    return static_cast<T>(v);
  }
  catch (...)
  {
    return std::nullopt;
  }
}

template <typename T, fcppt::math::size_type N>
struct inst
{
  using box = fcppt::math::box::object<T, N>;
  using vec = typename box::vector;
  using dim = typename box::dim;
  using arr = std::array<T, N>;

  static vec to_vec(arr const &a)
  {
    return fcppt::math::vector::init<vec>(
        [&a]<fcppt::math::size_type I>(fcppt::math::size_constant<I>) { return a[I]; });
  }

  template <typename V>
  static arr from(V const &v)
  {
    arr r{};
    // the storage is read through the public at<I>
    [&]<std::size_t... I>(std::index_sequence<I...>)
    { ((r[I] = fcppt::math::vector::at<I>(v)), ...); }(std::make_index_sequence<N>{});
    return r;
  }

  static arr from_dim(dim const &v)
  {
    arr r{};
    [&]<std::size_t... I>(std::index_sequence<I...>)
    { ((r[I] = fcppt::math::dim::at<I>(v)), ...); }(std::make_index_sequence<N>{});
    return r;
  }

  static std::optional<vec> parse_vec(std::string const &s)
  {
    arr a{};
    std::size_t pos = 0;
    for (std::size_t k = 0; k < N; ++k)
    {
      std::size_t const next = s.find(',', pos);
      if ((next == std::string::npos) != (k + 1 == N))
        return std::nullopt;
      auto const v = scalar<T>(s.substr(pos, next == std::string::npos ? next : next - pos));
      if (!v)
        return std::nullopt;
      a[k] = *v;
      pos = next + 1;
    }
    return to_vec(a);
  }

  static std::string show(arr const &a)
  {
    std::string r;
    for (std::size_t k = 0; k < N; ++k)
    {
      if (k)
        r += ',';
      r += std::to_string(a[k]);
    }
    return r;
  }
  static std::string show_vec(vec const &v) { return show(from(v)); }
  static std::string show_box(box const &b) { return show_vec(b.pos()) + "/" + show_vec(b.max()); }
  static char const *b01(bool b) { return b ? "1" : "0"; }

  static std::uint64_t mix_vec(std::uint64_t h, vec const &v)
  {
    for (T x : from(v))
      h = mix(h, u64(x));
    return h;
  }
  static std::uint64_t mix_box(std::uint64_t h, box const &b) { return mix_vec(mix_vec(h, b.pos()), b.max()); }

  // all points of [lo,hi]^N, coordinate 0 outermost
  static std::vector<vec> cube(T lo, T hi)
  {
    std::vector<vec> r;
    if (hi < lo)
      return r;
    arr cur{};
    cur.fill(lo);
    while (true)
    {
      r.push_back(to_vec(cur));
      std::size_t k = N;
      while (k > 0)
      {
        --k;
        if (cur[k] < hi)
        {
          ++cur[k];
          break;
        }
        cur[k] = lo;
        if (k == 0)
          return r;
      }
    }
  }

  static std::string pair_line(box const &a, box const &b, std::vector<vec> const &lat)
  {
    namespace fb = fcppt::math::box;
    box const i{fb::intersection(a, b)};
    box const e{fb::extend_bounding_box(a, b)};
    std::uint64_t h = vh::fnv_init;
    for (vec const &p : lat)
      h = mix(
          h,
          (fb::contains_point(a, p) ? 1U : 0U) | (fb::contains_point(b, p) ? 2U : 0U) |
              (fb::contains_point(i, p) ? 4U : 0U) | (fb::contains_point(e, p) ? 8U : 0U));
    std::string r;
    r += "int=";
    r += b01(fb::intersects(a, b));
    r += b01(fb::intersects(b, a));
    r += " cont=";
    r += b01(fb::contains(a, b));
    r += b01(fb::contains(b, a));
    r += " isect=" + show_box(i) + " ext=" + show_box(e);
    r += " eq=";
    r += b01(a == b);
    r += " ne=";
    r += b01(a != b);
    r += " lt=";
    r += b01(a < b);
    r += " gt=";
    r += b01(b < a);
    r += " dist=" + show_vec(fb::distance(a, b)) + " rdist=" + show_vec(fb::distance(b, a));
    r += " pts=" + vh::hex64(h);
    return r;
  }

  static std::string pt_line(box const &a, box const &b, vec const &p)
  {
    namespace fb = fcppt::math::box;
    box const i{fb::intersection(a, b)};
    box const e{fb::extend_bounding_box(a, b)};
    std::string r;
    r += "a=";
    r += b01(fb::contains_point(a, p));
    r += " b=";
    r += b01(fb::contains_point(b, p));
    r += " i=";
    r += b01(fb::contains_point(i, p));
    r += " e=";
    r += b01(fb::contains_point(e, p));
    return r;
  }

  static std::string pairs_digest(box const &a, T lo, T hi, T clo, T chi)
  {
    auto const lat = cube(lo, hi);
    auto const cs = cube(clo, chi);
    std::uint64_t h = vh::fnv_init;
    for (vec const &bmin : cs)
      for (vec const &bmax : cs)
        h = vh::fnv(h, pair_line(a, box{bmin, bmax}, lat));
    return "D " + vh::hex64(h);
  }

  static std::string shr_line(box const &b, vec const &v)
  {
    namespace fb = fcppt::math::box;
    box const s{fb::shrink(b, v)};
    return "shrink=" + show_box(s) + " stretch=" + show_box(fb::stretch_absolute(b, v)) +
           " back=" + show_box(fb::stretch_absolute(s, v));
  }

  static std::string extp_line(box const &b, vec const &p)
  {
    namespace fb = fcppt::math::box;
    return "ext=" + show_box(fb::extend_bounding_box(b, p)) + " in=" + b01(fb::contains_point(b, p));
  }

  static std::string sides(box const &b)
  {
    std::string r;
    r += " l=" + std::to_string(b.left()) + " r=" + std::to_string(b.right());
    if constexpr (N >= 2)
      r += " t=" + std::to_string(b.top()) + " b=" + std::to_string(b.bottom());
    if constexpr (N >= 3)
      r += " f=" + std::to_string(b.front()) + " k=" + std::to_string(b.back());
    return r;
  }

  static std::string unary_line(box const &b, T lo, T hi)
  {
    namespace fb = fcppt::math::box;
    auto const lat = cube(lo, hi);
    dim const sz{b.size()};
    arr const sza{from_dim(sz)};
    box const rt1{b.pos(), sz};
    box const rt2{fb::init_max<box>(
        [&b]<fcppt::math::size_type I>(fcppt::math::size_constant<I>)
        { return fcppt::tuple::make(fcppt::math::vector::at<I>(b.pos()), fcppt::math::vector::at<I>(b.max())); })};
    box const rt3{fb::init_dim<box>(
        [&b, &sza]<fcppt::math::size_type I>(fcppt::math::size_constant<I>)
        { return fcppt::tuple::make(fcppt::math::vector::at<I>(b.pos()), sza[I]); })};
    std::uint64_t hs = vh::fnv_init;
    for (vec const &v : lat)
      hs = mix_box(mix_box(hs, fb::shrink(b, v)), fb::stretch_absolute(b, v));
    std::uint64_t hp = vh::fnv_init;
    for (vec const &p : lat)
      hp = mix(mix_box(hp, fb::extend_bounding_box(b, p)), fb::contains_point(b, p) ? 1U : 0U);
    std::string corners;
    {
      auto const cp = fb::corner_points(b);
      std::size_t count = 0;
      for (auto const &c : cp)
      {
        if (count++)
          corners += ';';
        corners += show_vec(c);
        if (count > 64)
          break;
      }
    }
    std::string r;
    r += "size=" + show(sza) + " pos=" + show_vec(b.pos()) + " max=" + show_vec(b.max()) + sides(b);
    r += " corners=" + corners;
    r += " center=" + show_vec(fb::center(b)) + " null=" + show_box(fb::null<box>());
    r += " rt=" + show_box(rt1) + "|" + show_box(rt2) + "|" + show_box(rt3);
    r += " self=";
    r += b01(b == b);
    r += b01(b != b);
    r += b01(b < b);
    r += b01(fb::contains(b, b));
    r += b01(fb::intersects(b, b));
    r += " sh=" + vh::hex64(hs) + " xp=" + vh::hex64(hp);
    return r;
  }

  static std::string handle(std::vector<std::string> const &t)
  {
    auto vecs = [&t](std::size_t from, std::size_t count) -> std::optional<std::vector<vec>>
    {
      std::vector<vec> r;
      for (std::size_t k = from; k < from + count; ++k)
      {
        auto v = parse_vec(t[k]);
        if (!v)
          return std::nullopt;
        r.push_back(*v);
      }
      return r;
    };
    auto scalars = [&t](std::size_t from, std::size_t count) -> std::optional<std::vector<T>>
    {
      std::vector<T> r;
      for (std::size_t k = from; k < from + count; ++k)
      {
        auto v = scalar<T>(t[k]);
        if (!v)
          return std::nullopt;
        r.push_back(*v);
      }
      return r;
    };
    if (t[0] == "pair" && t.size() == 9)
    {
      auto const v = vecs(3, 4);
      auto const s = scalars(7, 2);
      if (!v || !s)
        return "bad-op";
      return pair_line(box{(*v)[0], (*v)[1]}, box{(*v)[2], (*v)[3]}, cube((*s)[0], (*s)[1]));
    }
    if (t[0] == "pt" && t.size() == 8)
    {
      auto const v = vecs(3, 5);
      if (!v)
        return "bad-op";
      return pt_line(box{(*v)[0], (*v)[1]}, box{(*v)[2], (*v)[3]}, (*v)[4]);
    }
    if (t[0] == "pairs" && t.size() == 9)
    {
      auto const v = vecs(3, 2);
      auto const s = scalars(5, 4);
      if (!v || !s)
        return "bad-op";
      return pairs_digest(box{(*v)[0], (*v)[1]}, (*s)[0], (*s)[1], (*s)[2], (*s)[3]);
    }
    if (t[0] == "unary" && t.size() == 7)
    {
      auto const v = vecs(3, 2);
      auto const s = scalars(5, 2);
      if (!v || !s)
        return "bad-op";
      return unary_line(box{(*v)[0], (*v)[1]}, (*s)[0], (*s)[1]);
    }
    if (t[0] == "shr" && t.size() == 6)
    {
      auto const v = vecs(3, 3);
      if (!v)
        return "bad-op";
      return shr_line(box{(*v)[0], (*v)[1]}, (*v)[2]);
    }
    if (t[0] == "extp" && t.size() == 6)
    {
      auto const v = vecs(3, 3);
      if (!v)
        return "bad-op";
      return extp_line(box{(*v)[0], (*v)[1]}, (*v)[2]);
    }
    return "bad-op";
  }
};

template <typename T>
std::string idist(std::vector<std::string> const &t)
{
  auto const a1 = scalar<T>(t[2]), a2 = scalar<T>(t[3]), b1 = scalar<T>(t[4]), b2 = scalar<T>(t[5]);
  if (!a1 || !a2 || !b1 || !b2)
    return "bad-op";
  return std::to_string(
      fcppt::math::interval_distance(fcppt::tuple::make(*a1, *a2), fcppt::tuple::make(*b1, *b2)));
}

template <typename T>
std::string by_dim(std::vector<std::string> const &t)
{
  if (t[2] == "1")
    return inst<T, 1>::handle(t);
  if (t[2] == "2")
    return inst<T, 2>::handle(t);
  if (t[2] == "3")
    return inst<T, 3>::handle(t);
  return "bad-op";
}

std::string handle(std::vector<std::string> const &t)
{
  if (t.size() < 3)
    return "bad-op";
  bool const is_i = t[1] == "i";
  if (!is_i && t[1] != "u")
    return "bad-op";
  if (t[0] == "idist")
  {
    if (t.size() != 6)
      return "bad-op";
    return is_i ? idist<int>(t) : idist<unsigned>(t);
  }
  return is_i ? by_dim<int>(t) : by_dim<unsigned>(t);
}
}

int main() { return vh::run(handle); }
