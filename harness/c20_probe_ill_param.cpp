// expect: error in distribution/basic_impl.hpp (param() const hands a param_type to convert_to(distribution const &))
#include "c20_probe.hpp"
int main()
{
  D const d{P::min{0}, P::max{1}};
  auto const p{d.param()};
  (void)p;
}
