// Correspondence harness for C07: raw_vector / buffer histories against std::vector (in here) and the Lean
// model (driver C07).  Protocol: see lean/FcpptModel/Drv/C07.lean.
#include "common/vh.hpp"

#include <fcppt/container/buffer/append_from.hpp>
#include <fcppt/container/buffer/append_from_opt.hpp>
#include <fcppt/container/buffer/object_impl.hpp>
#include <fcppt/container/buffer/read_from.hpp>
#include <fcppt/container/buffer/read_from_opt.hpp>
#include <fcppt/container/dynamic_array_impl.hpp>
#include <fcppt/container/buffer/to_raw_vector.hpp>
#include <fcppt/container/raw_vector/comparison.hpp>
#include <fcppt/container/raw_vector/object_impl.hpp>
#include <fcppt/io/buffer.hpp>
#include <fcppt/io/optional_buffer.hpp>
#include <fcppt/io/read_chars.hpp>
#include <fcppt/optional/object_impl.hpp>

#include <cstddef>
#include <exception>
#include <forward_list>
#include <iterator>
#include <list>
#include <map>
#include <memory>
#include <optional>
#include <sstream>
#include <string>
#include <vector>

namespace
{
// ---- allocation ledger: every allocate/deallocate of the containers under test goes through here
struct ledger_t
{
  std::map<void *, std::size_t> live;
  bool bad = false;
};

ledger_t &ledger()
{
  static ledger_t l;
  return l;
}

// ---- fault injection: the k-th allocation from now throws (`countdown`, 0 = off); every request above `maxsize` elements throws
struct inject_t
{
  long long countdown = 0;
  long long maxsize = -1;
  int suspended = 0;
};

inject_t &inject()
{
  static inject_t i;
  return i;
}

// allocations the harness makes for its own book-keeping are not part of the schedule
struct no_inject
{
  no_inject() { ++inject().suspended; }
  ~no_inject() { --inject().suspended; }
  no_inject(no_inject const &) = delete;
  no_inject &operator=(no_inject const &) = delete;
};

template <typename T>
struct talloc
{
  using value_type = T;
  talloc() = default;
  template <typename U>
  talloc(talloc<U> const &) noexcept
  {
  }
  T *allocate(std::size_t const n)
  {
    inject_t &in = inject();
    if (in.suspended == 0)
    {
      if (in.maxsize >= 0 && n > static_cast<std::size_t>(in.maxsize))
        throw std::bad_alloc{};
      if (in.countdown > 0 && --in.countdown == 0)
        throw std::bad_alloc{};
    }
    T *const p = std::allocator<T>{}.allocate(n);
    ledger().live[p] = n;
    return p;
  }
  void deallocate(T *const p, std::size_t const n) noexcept
  {
    auto const it = ledger().live.find(p);
    if (it == ledger().live.end())
    {
      ledger().bad = true; // double free / foreign pointer: do not pass it on
      return;
    }
    if (it->second != n)
      ledger().bad = true;
    std::size_t const real = it->second;
    ledger().live.erase(it);
    std::allocator<T>{}.deallocate(p, real);
  }
  template <typename U>
  bool operator==(talloc<U> const &) const noexcept
  {
    return true;
  }
  template <typename U>
  bool operator!=(talloc<U> const &) const noexcept
  {
    return false;
  }
};

using rv_t = fcppt::container::raw_vector::object<int, talloc<int>>;
using buf_t = fcppt::container::buffer::object<int, talloc<int>>;
using ref_t = std::vector<int>;

// ---- a strictly single-pass input iterator (category input_iterator_tag) over a list of ints: all copies share one
// cursor, like std::istream_iterator; a second pass over the "same" range finds it exhausted
struct in_it
{
  using iterator_category = std::input_iterator_tag;
  using value_type = int;
  using difference_type = std::ptrdiff_t;
  using pointer = int const *;
  using reference = int const &;
  std::vector<int> const *src;
  std::size_t *cur; // nullptr: the end iterator
  bool at_end() const { return cur == nullptr || *cur >= src->size(); }
  reference operator*() const { return (*src)[*cur]; }
  pointer operator->() const { return &(*src)[*cur]; }
  in_it &operator++()
  {
    ++*cur;
    return *this;
  }
  in_it operator++(int)
  {
    in_it r{*this};
    ++*cur;
    return r;
  }
  friend bool operator==(in_it const &a, in_it const &b) { return a.at_end() == b.at_end(); }
  friend bool operator!=(in_it const &a, in_it const &b) { return a.at_end() != b.at_end(); }
};

bool range_kind(std::string const &k) { return k == "fwd" || k == "ptr" || k == "fl" || k == "bidi" || k == "inp"; }

// calls f(first, last) with the range xs presented through iterators of the given kind
template <typename F>
void with_range(std::string const &kind, std::vector<int> const &xs, F const &f)
{
  if (kind == "fwd")
    f(xs.begin(), xs.end());
  else if (kind == "ptr")
    f(xs.data(), xs.data() + xs.size());
  else if (kind == "fl")
  {
    std::forward_list<int> const l(xs.begin(), xs.end());
    f(l.begin(), l.end());
  }
  else if (kind == "bidi")
  {
    std::list<int> const l(xs.begin(), xs.end());
    f(l.begin(), l.end());
  }
  else
  {
    std::size_t cur = 0;
    f(in_it{&xs, &cur}, in_it{&xs, nullptr});
  }
}

constexpr std::size_t NV = 3, NB = 2;

struct state_t
{
  std::optional<rv_t> vec[NV];
  ref_t ref[NV];
  std::optional<buf_t> buf[NB];
  ref_t brd[NB];
  std::size_t bws[NB] = {0, 0};
};

state_t &st()
{
  static state_t s;
  return s;
}

void fresh()
{
  for (std::size_t i = 0; i < NV; ++i)
  {
    st().vec[i].reset();
    st().ref[i].clear();
  }
  for (std::size_t i = 0; i < NB; ++i)
  {
    st().buf[i].reset();
    st().brd[i].clear();
    st().bws[i] = 0;
  }
}

void null_buffer(std::size_t const i)
{
  no_inject const guard;
  buf_t tmp{0U};
  {
    rv_t const drop{tmp.release()};
  }
  st().buf[i].reset();
  st().buf[i].emplace(std::move(tmp));
}

void construct_nulls()
{
  no_inject const guard;
  for (std::size_t i = 0; i < NV; ++i)
    st().vec[i].emplace();
  // the model's initial buffers have null pointers: a released buffer
  for (std::size_t i = 0; i < NB; ++i)
  {
    buf_t tmp{0U};
    {
      rv_t const drop{tmp.release()};
    }
    st().buf[i].emplace(std::move(tmp));
  }
}

std::string show_list(std::vector<int> const &v)
{
  std::string r = "[";
  for (std::size_t i = 0; i < v.size(); ++i)
  {
    if (i)
      r += ',';
    r += std::to_string(v[i]);
  }
  return r + "]";
}

std::vector<int> ints(std::string const &s)
{
  std::vector<int> r;
  for (long long x : vh::int_list(s))
    r.push_back(static_cast<int>(x));
  return r;
}

// contents by iteration begin()..end(), capped
std::vector<int> contents(rv_t const &v)
{
  std::vector<int> r;
  std::size_t n = 0;
  for (auto it = v.begin(); it != v.end() && n < 100000; ++it, ++n)
    r.push_back(*it);
  return r;
}

std::vector<int> contents(buf_t const &b)
{
  std::vector<int> r;
  std::size_t n = 0;
  for (auto it = b.begin(); it != b.end() && n < 100000; ++it, ++n)
    r.push_back(*it);
  return r;
}

// write into the spare capacity: it belongs to the vector, AddressSanitizer objects if it does not
void poke(rv_t &v)
{
  if (v.capacity() < v.size() || v.capacity() > 10000000)
    return;
  for (int *p = v.data_end(); p != v.data() + v.capacity(); ++p)
    *p = -77777;
}

void poke(buf_t &b)
{
  if (b.write_size() > 10000000)
    return;
  for (int *p = b.write_data(); p != b.write_data_end(); ++p)
    *p = -88888;
}

std::string show_vec(std::size_t const r)
{
  rv_t &v = *st().vec[r];
  std::vector<int> const c = contents(v);
  bool const capok = v.size() <= v.capacity() && v.size() == c.size();
  poke(v);
  return "v" + std::to_string(r) + "=" + std::to_string(v.size()) + ":" + show_list(c) + " capok=" + (capok ? "1" : "0");
}

std::string show_buf(std::size_t const k)
{
  buf_t &b = *st().buf[k];
  std::vector<int> const c = contents(b);
  bool const capok = b.read_size() == c.size() && b.read_data_end() == b.write_data() &&
                     b.write_data() + b.write_size() == b.write_data_end();
  poke(b);
  return "b" + std::to_string(k) + "=" + std::to_string(b.read_size()) + ":" + show_list(c) + " ws=" + std::to_string(b.write_size()) +
         " capok=" + (capok ? "1" : "0");
}

std::string tail(std::string const &stdcmp)
{
  return "live=" + std::to_string(ledger().live.size()) + " std=" + stdcmp + " alloc=" + (ledger().bad ? "BAD" : "ok");
}

std::string std_cmp(std::vector<std::size_t> const &vs, std::vector<std::size_t> const &bs, long long const ret, long long const rret)
{
  std::string diff;
  if (ret != rret)
    diff += ":ret=" + std::to_string(rret);
  for (std::size_t const r : vs)
    if (contents(*st().vec[r]) != st().ref[r])
      diff += ":v" + std::to_string(r) + "=" + show_list(st().ref[r]);
  for (std::size_t const k : bs)
    if (contents(*st().buf[k]) != st().brd[k] || st().buf[k]->write_size() != st().bws[k])
      diff += ":b" + std::to_string(k) + "=" + show_list(st().brd[k]) + "/" + std::to_string(st().bws[k]);
  return diff.empty() ? "ok" : "DIFF" + diff;
}

struct src_t
{
  bool slot;
  int val;
  std::size_t idx;
};

bool parse_src(std::string const &t, src_t &s)
{
  if (t.size() < 2)
    return false;
  if (t[0] == 'v')
  {
    s = src_t{false, static_cast<int>(vh::to_ll(t.substr(1))), 0};
    return true;
  }
  if (t[0] == 's')
  {
    s = src_t{true, 0, static_cast<std::size_t>(vh::to_ull(t.substr(1)))};
    return true;
  }
  return false;
}

bool reg(std::string const &t, std::size_t const n, std::size_t &r)
{
  for (char c : t)
    if (c < '0' || c > '9')
      return false;
  if (t.empty() || t.size() > 3)
    return false;
  r = static_cast<std::size_t>(vh::to_ull(t));
  return r < n;
}

std::string fmt_ret(long long const r) { return r < 0 ? "ret=-" : "ret=" + std::to_string(r); }

std::string handle_inner(std::vector<std::string> const &t)
{
  if (t.empty())
    return "bad-op";
  std::string const &op = t[0];
  if ((op == "reset" || op == "end") && t.size() == 1)
  {
    // `end`: all destructors run, the ledger is reported; `reset`: the same silently (start of the next history)
    fresh();
    std::string const r = "end live=" + std::to_string(ledger().live.size()) + " alloc=" + (ledger().bad ? "BAD" : "ok");
    // a leak has been reported through the count; the blocks are given back so that the next history starts afresh
    for (auto const &blk : ledger().live)
      std::allocator<int>{}.deallocate(static_cast<int *>(blk.first), blk.second);
    ledger().live.clear();
    ledger().bad = false;
    if (op == "reset")
      inject() = inject_t{};
    construct_nulls();
    return op == "end" ? r : "reset";
  }
  if (op == "dump" && t.size() == 1)
  {
    std::string r;
    for (std::size_t i = 0; i < NV; ++i)
      r += show_vec(i) + " ";
    for (std::size_t i = 0; i < NB; ++i)
      r += show_buf(i) + " ";
    return r + "live=" + std::to_string(ledger().live.size()) + " alloc=" + (ledger().bad ? "BAD" : "ok");
  }
  if (op == "readchars" && t.size() == 3)
  {
    std::size_t const count = static_cast<std::size_t>(vh::to_ull(t[1]));
    std::string s;
    for (int c : ints(t[2]))
      s.push_back(static_cast<char>(c));
    std::istringstream stream{s};
    fcppt::io::optional_buffer const res{fcppt::io::read_chars(stream, count)};
    if (!res.has_value())
      return "none";
    auto const &v = res.get_unsafe();
    std::vector<int> c;
    for (auto it = v.begin(); it != v.end() && c.size() < 100000; ++it)
      c.push_back(static_cast<unsigned char>(*it));
    return "some " + std::to_string(v.size()) + ":" + show_list(c) + " capok=" + (v.size() <= v.capacity() ? "1" : "0");
  }
  // ---------------------------------------------------------------- vector registers
  std::size_t r = 0, s2 = 0;
  if (op == "ctor" && t.size() >= 3)
  {
    if (!reg(t[1], NV, r))
      return "bad-op";
    // a leading `a` selects the overload that takes the allocator explicitly
    bool const with_alloc = t[2].size() > 1 && t[2][0] == 'a';
    std::string const k = with_alloc ? t[2].substr(1) : t[2];
    talloc<int> const al{};
    if (k == "default" && t.size() == 3)
    {
      st().vec[r].reset();
      if (with_alloc)
        st().vec[r].emplace(al);
      else
        st().vec[r].emplace();
      st().ref[r] = ref_t{};
    }
    else if (k == "count" && t.size() == 5)
    {
      std::size_t const n = static_cast<std::size_t>(vh::to_ull(t[3]));
      int const x = static_cast<int>(vh::to_ll(t[4]));
      st().vec[r].reset();
      if (with_alloc)
        st().vec[r].emplace(n, x, al);
      else
        st().vec[r].emplace(n, x);
      st().ref[r] = ref_t(n, x);
    }
    else if (k == "range" && t.size() == 5 && range_kind(t[3]))
    {
      std::vector<int> const xs = ints(t[4]);
      st().vec[r].reset();
      with_range(t[3], xs, [&](auto const b, auto const e) {
        if (with_alloc)
          st().vec[r].emplace(b, e, al);
        else
          st().vec[r].emplace(b, e);
      });
      with_range(t[3], xs, [&](auto const b, auto const e) { st().ref[r] = ref_t(b, e); });
    }
    else if (k == "il" && t.size() == 4 && with_alloc)
    {
      std::vector<int> const xs = ints(t[3]);
      st().vec[r].reset();
      switch (xs.size())
      {
      case 0: st().vec[r].emplace(std::initializer_list<int>{}, al); break;
      case 1: st().vec[r].emplace(std::initializer_list<int>{xs[0]}, al); break;
      case 2: st().vec[r].emplace(std::initializer_list<int>{xs[0], xs[1]}, al); break;
      case 3: st().vec[r].emplace(std::initializer_list<int>{xs[0], xs[1], xs[2]}, al); break;
      default: st().vec[r].emplace(xs.data(), xs.data() + xs.size(), al); break;
      }
      st().ref[r] = ref_t(xs.begin(), xs.end());
    }
    else if (k == "il" && t.size() == 4)
    {
      // an initializer_list cannot be built at run time; its constructor does insert(end(), il.begin(), il.end())
      // with int const* iterators, reached here for the usual sizes through real initializer lists
      std::vector<int> const xs = ints(t[3]);
      st().vec[r].reset();
      switch (xs.size())
      {
      case 0: st().vec[r].emplace(std::initializer_list<int>{}); break;
      case 1: st().vec[r].emplace(std::initializer_list<int>{xs[0]}); break;
      case 2: st().vec[r].emplace(std::initializer_list<int>{xs[0], xs[1]}); break;
      case 3: st().vec[r].emplace(std::initializer_list<int>{xs[0], xs[1], xs[2]}); break;
      case 4: st().vec[r].emplace(std::initializer_list<int>{xs[0], xs[1], xs[2], xs[3]}); break;
      case 5: st().vec[r].emplace(std::initializer_list<int>{xs[0], xs[1], xs[2], xs[3], xs[4]}); break;
      default: st().vec[r].emplace(xs.data(), xs.data() + xs.size()); break;
      }
      st().ref[r] = ref_t(xs.begin(), xs.end());
    }
    else if (k == "move" && t.size() == 4 && !with_alloc)
    {
      if (!reg(t[3], NV, s2))
        return "bad-op";
      if (r == s2)
        return "invalid";
      st().vec[r].reset();
      st().vec[r].emplace(std::move(*st().vec[s2]));
      st().ref[r] = ref_t(std::move(st().ref[s2]));
      st().ref[s2].clear();
      return fmt_ret(-1) + " " + show_vec(r) + " " + show_vec(s2) + " " + tail(std_cmp({r, s2}, {}, -1, -1));
    }
    else if (k == "buf" && t.size() == 4 && !with_alloc)
    {
      std::size_t b = 0;
      if (!reg(t[3], NB, b))
        return "bad-op";
      st().vec[r].reset();
      st().vec[r].emplace(fcppt::container::buffer::to_raw_vector(std::move(*st().buf[b])));
      st().ref[r] = st().brd[b];
      st().brd[b].clear();
      st().bws[b] = 0;
      return fmt_ret(-1) + " " + show_vec(r) + " " + show_buf(b) + " " + tail(std_cmp({r}, {b}, -1, -1));
    }
    else
      return "bad-op";
    return fmt_ret(-1) + " " + show_vec(r) + " " + tail(std_cmp({r}, {}, -1, -1));
  }
  bool const vop = op == "push" || op == "pop" || op == "ins1" || op == "insn" || op == "insr" || op == "era1" || op == "erar" ||
                   op == "resize" || op == "reserve" || op == "shrink" || op == "clear" || op == "set";
  if (vop)
  {
    if (t.size() < 2 || !reg(t[1], NV, r))
      return "bad-op";
    rv_t &v = *st().vec[r];
    ref_t &ref = st().ref[r];
    std::size_t const sz = ref.size();
    if (v.size() != sz)
      return "invalid-size-mismatch";
    int const *const old_data = v.data();
    std::size_t const old_cap = v.capacity();
    long long ret = -1, rret = -1;
    bool reserve_op = false, shrink_op = false, no_spec = false;
    std::size_t reserve_n = 0;
    src_t src{};
    auto const src_ok = [&](std::string const &tok) { return parse_src(tok, src); };
    auto const src_valid = [&] { return !src.slot || src.idx < sz; };
    // the argument as the caller would pass it: a reference to an own element, or to a local
    int local = 0;
    auto const arg = [&]() -> int const & {
      if (src.slot)
        return v[src.idx];
      local = src.val;
      return local;
    };
    auto const rarg = [&]() -> int const & {
      if (src.slot)
        return ref[src.idx];
      local = src.val;
      return local;
    };
    if (op == "push" && t.size() == 3)
    {
      if (!src_ok(t[2]))
        return "bad-op";
      if (!src_valid())
        return "invalid";
      // a value is passed as a prvalue, an aliased argument as the (lvalue) element itself
      if (src.slot)
        v.push_back(arg());
      else
        v.push_back(int{src.val});
      ref.push_back(rarg());
    }
    else if (op == "pop" && t.size() == 2)
    {
      if (sz == 0)
        return "invalid";
      v.pop_back();
      ref.pop_back();
    }
    else if (op == "ins1" && t.size() == 4)
    {
      std::size_t const pos = static_cast<std::size_t>(vh::to_ull(t[2]));
      if (!src_ok(t[3]))
        return "bad-op";
      if (!src_valid() || pos > sz)
        return "invalid";
      auto const it = src.slot ? v.insert(v.begin() + pos, arg()) : v.insert(v.begin() + pos, int{src.val});
      ret = it - v.begin();
      auto const rit = ref.insert(ref.begin() + static_cast<std::ptrdiff_t>(pos), rarg());
      rret = rit - ref.begin();
    }
    else if (op == "insn" && t.size() == 5)
    {
      std::size_t const pos = static_cast<std::size_t>(vh::to_ull(t[2]));
      std::size_t const n = static_cast<std::size_t>(vh::to_ull(t[3]));
      if (!src_ok(t[4]))
        return "bad-op";
      if (!src_valid() || pos > sz)
        return "invalid";
      if (src.slot)
        v.insert(v.begin() + pos, n, arg());
      else
        v.insert(v.begin() + pos, n, int{src.val});
      ref.insert(ref.begin() + static_cast<std::ptrdiff_t>(pos), n, rarg());
    }
    else if (op == "insr" && t.size() == 5 && range_kind(t[3]))
    {
      std::size_t const pos = static_cast<std::size_t>(vh::to_ull(t[2]));
      std::vector<int> const xs = ints(t[4]);
      if (pos > sz)
        return "invalid";
      with_range(t[3], xs, [&](auto const b, auto const e) { v.insert(v.begin() + pos, b, e); });
      with_range(
          t[3], xs, [&](auto const b, auto const e) { ref.insert(ref.begin() + static_cast<std::ptrdiff_t>(pos), b, e); });
    }
    else if (op == "insr" && t.size() == 6 && t[3] == "self")
    {
      // a range of the vector itself.  std::vector forbids it; raw_vector inserts a copy of the range whenever the range lies in
      // front of the insertion point (`spec`).  Otherwise the result depends on whether it reallocates (the in-place path reads
      // the range after the shift): still executed and compared with the model (`std=na`) unless source and destination of the
      // uninitialized_copy would overlap.
      std::size_t const pos = static_cast<std::size_t>(vh::to_ull(t[2]));
      std::size_t const a = static_cast<std::size_t>(vh::to_ull(t[4]));
      std::size_t const b = static_cast<std::size_t>(vh::to_ull(t[5]));
      if (!(a <= b && b <= sz && pos <= sz))
        return "invalid";
      bool const spec = b <= pos;
      bool const in_place = sz + (b - a) <= old_cap;
      if (!spec && a != b && in_place && !(pos + (b - a) <= a))
        return "invalid";
      std::vector<int> const copy(ref.begin() + static_cast<std::ptrdiff_t>(a), ref.begin() + static_cast<std::ptrdiff_t>(b));
      v.insert(v.begin() + pos, v.begin() + a, v.begin() + b);
      if (spec)
        ref.insert(ref.begin() + static_cast<std::ptrdiff_t>(pos), copy.begin(), copy.end());
      else
      {
        ref = contents(v);
        no_spec = true;
      }
    }
    else if (op == "set" && t.size() == 5)
    {
      // store through the reference the non-const accessor returns
      std::size_t const i = static_cast<std::size_t>(vh::to_ull(t[3]));
      int const x = static_cast<int>(vh::to_ll(t[4]));
      std::string const &how = t[2];
      if (how == "idx" || how == "it" || how == "data")
      {
        if (i >= sz)
          return "invalid";
        if (how == "idx")
          v[i] = x;
        else if (how == "it")
          *(v.begin() + i) = x;
        else
          v.data()[i] = x;
        ref[i] = x;
      }
      else if ((how == "front" || how == "back") && i == 0)
      {
        if (sz == 0)
          return "invalid";
        if (how == "front")
        {
          v.front() = x;
          ref.front() = x;
        }
        else
        {
          v.back() = x;
          ref.back() = x;
        }
      }
      else
        return "bad-op";
    }
    else if (op == "era1" && t.size() == 3)
    {
      std::size_t const pos = static_cast<std::size_t>(vh::to_ull(t[2]));
      if (pos >= sz)
        return "invalid";
      ret = v.erase(v.begin() + pos) - v.begin();
      rret = ref.erase(ref.begin() + static_cast<std::ptrdiff_t>(pos)) - ref.begin();
    }
    else if (op == "erar" && t.size() == 4)
    {
      std::size_t const a = static_cast<std::size_t>(vh::to_ull(t[2]));
      std::size_t const b = static_cast<std::size_t>(vh::to_ull(t[3]));
      if (!(a <= b && b <= sz))
        return "invalid";
      ret = v.erase(v.begin() + a, v.begin() + b) - v.begin();
      rret = ref.erase(ref.begin() + static_cast<std::ptrdiff_t>(a), ref.begin() + static_cast<std::ptrdiff_t>(b)) - ref.begin();
    }
    else if (op == "resize" && t.size() == 4)
    {
      std::size_t const n = static_cast<std::size_t>(vh::to_ull(t[2]));
      if (!src_ok(t[3]))
        return "bad-op";
      if (!src_valid())
        return "invalid";
      if (src.slot)
        v.resize(n, arg());
      else
        v.resize(n, int{src.val});
      ref.resize(n, rarg());
    }
    else if (op == "reserve" && t.size() == 3)
    {
      reserve_op = true;
      reserve_n = static_cast<std::size_t>(vh::to_ull(t[2]));
      v.reserve(reserve_n);
      ref.reserve(reserve_n);
    }
    else if (op == "shrink" && t.size() == 2)
    {
      shrink_op = true;
      v.shrink_to_fit();
      ref.shrink_to_fit();
    }
    else if (op == "clear" && t.size() == 2)
    {
      v.clear();
      ref.clear();
    }
    else
      return "bad-op";
    bool const moved = v.data() != old_data;
    std::string const reok = shrink_op ? "-" : (moved == (reserve_op ? reserve_n > old_cap : v.size() > old_cap)) ? "1" : "0";
    // policy-independent capacity facts: never shrinks except by shrink_to_fit (which makes it the size), reserve(n) gives >= n;
    // a capacity that changes at least doubles
    std::size_t const new_cap = v.capacity();
    bool const cpok = shrink_op ? new_cap == v.size() : (new_cap >= old_cap && (!reserve_op || new_cap >= reserve_n));
    std::string const geo = shrink_op ? "-" : (new_cap == old_cap || new_cap >= 2 * old_cap) ? "1" : "0";
    return fmt_ret(ret) + " " + show_vec(r) + " reok=" + reok + " cpok=" + (cpok ? "1" : "0") + " geo=" + geo + " " +
           tail(no_spec ? "na" : std_cmp({r}, {}, ret, rret));
  }
  if ((op == "swap" || op == "massign" || op == "cmp") && t.size() == 3)
  {
    if (!reg(t[1], NV, r) || !reg(t[2], NV, s2))
      return "bad-op";
    rv_t &a = *st().vec[r];
    rv_t &b = *st().vec[s2];
    if (op == "cmp")
    {
      auto const f = [](bool x) { return x ? "1" : "0"; };
      return std::string("eq=") + f(a == b) + " ne=" + f(a != b) + " lt=" + f(a < b) + " gt=" + f(a > b) + " le=" + f(a <= b) +
             " ge=" + f(a >= b);
    }
    if (op == "swap")
    {
      if (r < s2)
        fcppt::container::raw_vector::swap(a, b);
      else
        a.swap(b);
      st().ref[r].swap(st().ref[s2]);
    }
    else
    {
      a = std::move(b); // r == s2: self-move-assignment
      if (r != s2)
      {
        st().ref[r] = std::move(st().ref[s2]);
        // std::vector leaves the source valid but unspecified: whatever raw_vector left there is acceptable
        st().ref[s2] = contents(b);
      }
    }
    return fmt_ret(-1) + " " + show_vec(r) + " " + show_vec(s2) + " " + tail(std_cmp({r, s2}, {}, -1, -1));
  }
  if (op == "obs" && t.size() == 2)
  {
    if (!reg(t[1], NV, r))
      return "bad-op";
    rv_t &v = *st().vec[r];
    rv_t const &cv = v;
    // values through the const accessors; `it`: the non-const accessors return references to the same objects, and every
    // way of obtaining the two ends (const and non-const) agrees
    std::vector<int> idx;
    bool refs = true;
    for (std::size_t i = 0; i < v.size() && i < 100000; ++i)
    {
      idx.push_back(cv[i]);
      refs = refs && &v[i] == v.data() + i && &cv[i] == cv.data() + i;
    }
    std::string const fr = v.empty() ? "-" : std::to_string(cv.front());
    std::string const bk = v.empty() ? "-" : std::to_string(cv.back());
    if (!v.empty())
      refs = refs && &v.front() == v.data() && &cv.front() == cv.data() && &v.back() == v.data_end() - 1 &&
             &cv.back() == cv.data_end() - 1;
    bool const it = refs && v.begin() == v.data() && cv.begin() == cv.data() && v.end() == v.data_end() &&
                    cv.end() == cv.data_end() && v.data() == cv.data() && v.data_end() == cv.data_end() &&
                    static_cast<std::size_t>(v.end() - v.begin()) == v.size() &&
                    static_cast<std::size_t>(cv.end() - cv.begin()) == cv.size() && v.empty() == (v.size() == 0);
    bool const al = v.get_allocator() == talloc<int>{};
    return std::string("empty=") + (v.empty() ? "1" : "0") + " size=" + std::to_string(v.size()) + " dist=" +
           std::to_string(cv.data_end() - cv.data()) + " front=" + fr + " back=" + bk + " idx=" + show_list(idx) +
           " it=" + (it ? "1" : "0") + " al=" + (al ? "1" : "0");
  }
  // ---------------------------------------------------------------- buffer registers
  if (op == "dynarr" && t.size() == 3)
  {
    std::size_t const n = static_cast<std::size_t>(vh::to_ull(t[1]));
    std::vector<int> const xs = ints(t[2]);
    if (xs.size() > n)
      return "invalid";
    std::string line;
    std::size_t const live_before = ledger().live.size();
    {
      using dyn_t = fcppt::container::dynamic_array<int, talloc<int>>;
      // odd sizes through the overload that takes the allocator
      std::optional<dyn_t> holder;
      if (n % 2 == 1)
        holder.emplace(n, talloc<int>{});
      else
        holder.emplace(n);
      dyn_t &arr = *holder;
      dyn_t const &carr = arr;
      for (std::size_t i = 0; i < xs.size(); ++i)
        arr.data()[i] = xs[i];
      // the whole allocation belongs to the array
      for (int *p = arr.data() + xs.size(); p != arr.data_end(); ++p)
        *p = -66666;
      std::vector<int> back;
      for (int const *p = carr.data(); p != carr.data() + xs.size(); ++p)
        back.push_back(*p);
      bool const same = carr.data() == arr.data() && carr.data_end() == arr.data_end();
      line = "size=" + std::to_string(carr.size()) + " dist=" + (same ? std::to_string(carr.data_end() - carr.data()) : "DIFF") +
             " vals=" + show_list(back);
    }
    return line + " live=" + std::to_string(ledger().live.size() - live_before) + " alloc=" + (ledger().bad ? "BAD" : "ok");
  }
  std::size_t b = 0, c = 0;
  if (t.size() < 2 || !reg(t[1], NB, b))
    return "bad-op";
  if (op == "bobs" && t.size() == 2)
  {
    buf_t &bu = *st().buf[b];
    buf_t const &cb = bu;
    std::vector<int> idx;
    bool ptr = cb.begin() == cb.read_data() && cb.end() == cb.read_data_end() && bu.write_data() == cb.read_data_end() &&
               static_cast<std::size_t>(cb.read_data_end() - cb.read_data()) == cb.read_size() &&
               static_cast<std::size_t>(bu.write_data_end() - bu.write_data()) == cb.write_size() &&
               cb.get_allocator() == talloc<int>{};
    for (std::size_t i = 0; i < cb.read_size() && i < 100000; ++i)
    {
      idx.push_back(cb[i]);
      ptr = ptr && &cb[i] == cb.read_data() + i;
    }
    return "size=" + std::to_string(cb.read_size()) + " ws=" + std::to_string(cb.write_size()) + " dist=" +
           std::to_string(cb.read_data_end() - cb.read_data()) + " idx=" + show_list(idx) + " ptr=" + (ptr ? "1" : "0");
  }
  long long ret = -1;
  int const *const old_first = st().buf[b]->read_data();
  bool mv_op = false;
  auto const writer = [](std::vector<int> const &xs) {
    return [&xs](int *const p, std::size_t const n) -> std::size_t {
      for (std::size_t i = 0; i < xs.size() && i < n; ++i)
        p[i] = xs[i];
      return xs.size();
    };
  };
  if ((op == "bctor" || op == "bactor") && t.size() == 3)
  {
    std::size_t const n = static_cast<std::size_t>(vh::to_ull(t[2]));
    st().buf[b].reset();
    if (op == "bactor")
      st().buf[b].emplace(n, talloc<int>{});
    else
      st().buf[b].emplace(n);
    st().brd[b].clear();
    st().bws[b] = n;
  }
  else if (op == "bresize" && t.size() == 3)
  {
    mv_op = true;
    std::size_t const n = static_cast<std::size_t>(vh::to_ull(t[2]));
    st().buf[b]->resize_write_area(n);
    st().bws[b] = n;
  }
  else if (op == "bfill" && t.size() == 3)
  {
    std::vector<int> const xs = ints(t[2]);
    if (xs.size() > st().bws[b] || st().buf[b]->write_size() != st().bws[b])
      return "invalid";
    mv_op = true;
    for (std::size_t i = 0; i < xs.size(); ++i)
      st().buf[b]->write_data()[i] = xs[i];
    st().buf[b]->written(xs.size());
    st().brd[b].insert(st().brd[b].end(), xs.begin(), xs.end());
    st().bws[b] -= xs.size();
  }
  else if (op == "bappend" && t.size() == 4)
  {
    std::size_t const n = static_cast<std::size_t>(vh::to_ull(t[2]));
    std::vector<int> const xs = ints(t[3]);
    if (xs.size() > n)
      return "invalid";
    mv_op = true;
    *st().buf[b] = fcppt::container::buffer::append_from(std::move(*st().buf[b]), n, writer(xs));
    st().brd[b].insert(st().brd[b].end(), xs.begin(), xs.end());
    st().bws[b] = n - xs.size();
  }
  else if (op == "bappendopt" && t.size() == 4)
  {
    std::size_t const n = static_cast<std::size_t>(vh::to_ull(t[2]));
    if (t[3] != "none" && ints(t[3]).size() > n)
      return "invalid";
    mv_op = true;
    if (t[3] == "none")
    {
      auto res = fcppt::container::buffer::append_from_opt(
          std::move(*st().buf[b]), n, [](int *, std::size_t) { return fcppt::optional::object<std::size_t>{}; });
      ret = res.has_value() ? 1 : 0;
      st().bws[b] = n;
    }
    else
    {
      std::vector<int> const xs = ints(t[3]);
      if (xs.size() > n)
        return "invalid";
      auto res = fcppt::container::buffer::append_from_opt(
          std::move(*st().buf[b]), n, [&xs](int *const p, std::size_t const m) {
            for (std::size_t i = 0; i < xs.size() && i < m; ++i)
              p[i] = xs[i];
            return fcppt::optional::object<std::size_t>{xs.size()};
          });
      ret = res.has_value() ? 1 : 0;
      if (res.has_value())
        *st().buf[b] = std::move(res.get_unsafe());
      st().brd[b].insert(st().brd[b].end(), xs.begin(), xs.end());
      st().bws[b] = n - xs.size();
    }
  }
  else if (op == "bread" && t.size() == 4)
  {
    std::size_t const n = static_cast<std::size_t>(vh::to_ull(t[2]));
    std::vector<int> const xs = ints(t[3]);
    if (xs.size() > n)
      return "invalid";
    st().buf[b].reset();
    st().buf[b].emplace(fcppt::container::buffer::read_from<buf_t>(n, writer(xs)));
    st().brd[b] = xs;
    st().bws[b] = n - xs.size();
  }
  else if (op == "breadopt" && t.size() == 4)
  {
    std::size_t const n = static_cast<std::size_t>(vh::to_ull(t[2]));
    if (t[3] != "none" && ints(t[3]).size() > n)
      return "invalid";
    st().buf[b].reset(); // the register's old buffer is destroyed first, as for `bctor` / `bread`
    if (t[3] == "none")
    {
      auto res = fcppt::container::buffer::read_from_opt<buf_t>(
          n, [](int *, std::size_t) { return fcppt::optional::object<std::size_t>{}; });
      ret = res.has_value() ? 1 : 0;
      // nothing was read: the register holds a released buffer
      null_buffer(b);
      st().brd[b].clear();
      st().bws[b] = 0;
    }
    else
    {
      std::vector<int> const xs = ints(t[3]);
      if (xs.size() > n)
        return "invalid";
      auto res = fcppt::container::buffer::read_from_opt<buf_t>(n, [&xs](int *const p, std::size_t const m) {
        for (std::size_t i = 0; i < xs.size() && i < m; ++i)
          p[i] = xs[i];
        return fcppt::optional::object<std::size_t>{xs.size()};
      });
      ret = res.has_value() ? 1 : 0;
      st().buf[b].reset();
      if (res.has_value())
        st().buf[b].emplace(std::move(res.get_unsafe()));
      else
        null_buffer(b);
      st().brd[b] = xs;
      st().bws[b] = n - xs.size();
    }
  }
  else if ((op == "bmovector" || op == "bswap" || op == "bmassign") && t.size() == 3)
  {
    if (!reg(t[2], NB, c))
      return "bad-op";
    if (op == "bmovector" && b == c)
      return "invalid";
    if (op == "bmovector")
    {
      st().buf[b].reset();
      st().buf[b].emplace(std::move(*st().buf[c]));
      st().brd[b] = std::move(st().brd[c]);
      st().brd[c].clear();
      st().bws[b] = st().bws[c];
      st().bws[c] = 0;
    }
    else if (op == "bswap")
    {
      if (b < c)
        fcppt::container::buffer::swap(*st().buf[b], *st().buf[c]);
      else
        st().buf[b]->swap(*st().buf[c]);
      st().brd[b].swap(st().brd[c]);
      std::swap(st().bws[b], st().bws[c]);
    }
    else
    {
      *st().buf[b] = std::move(*st().buf[c]); // b == c: self-move-assignment
      // the moved-from buffer is valid but unspecified: the specification fixes it to the target's old state (swap)
      if (b != c)
      {
        st().brd[b].swap(st().brd[c]);
        std::swap(st().bws[b], st().bws[c]);
      }
    }
    return fmt_ret(-1) + " " + show_buf(b) + " " + show_buf(c) + " " + tail(std_cmp({}, {b, c}, -1, -1));
  }
  else
    return "bad-op";
  std::string const mv = mv_op ? std::string(" mv=") + (st().buf[b]->read_data() != old_first ? "1" : "0") : "";
  return fmt_ret(ret) + " " + show_buf(b) + mv + " " + tail(std_cmp({}, {b}, -1, -1));
}

struct snap_t
{
  int const *vdata[NV];
  std::size_t vsize[NV], vcap[NV];
  int const *bdata[NB];
  std::size_t brs[NB], bws[NB];
  std::size_t live;
};

snap_t snapshot()
{
  snap_t s{};
  for (std::size_t i = 0; i < NV; ++i)
  {
    rv_t const &v = *st().vec[i];
    s.vdata[i] = v.data();
    s.vsize[i] = v.size();
    s.vcap[i] = v.capacity();
  }
  for (std::size_t i = 0; i < NB; ++i)
  {
    buf_t &b = *st().buf[i];
    s.bdata[i] = b.read_data();
    s.brs[i] = b.read_size();
    s.bws[i] = b.write_size();
  }
  s.live = ledger().live.size();
  return s;
}

std::string dump_all()
{
  std::string r;
  for (std::size_t i = 0; i < NV; ++i)
    r += show_vec(i) + " ";
  for (std::size_t i = 0; i < NB; ++i)
    r += show_buf(i) + " ";
  return r + "live=" + std::to_string(ledger().live.size()) + " alloc=" + (ledger().bad ? "BAD" : "ok");
}

// std::bad_alloc came out of the operation: every register must still be a valid object.  Registers whose object was under
// construction hold nothing: they get a null object.  `sg`: every register the exception may not change (all but the object
// under construction and the target of a single-pass range insert) has the pointers it had before; `std`: and the contents
// std::vector has (for int every modifier of std::vector has no effects when the allocation fails).
std::string after_throw(std::vector<std::string> const &t, snap_t const &before)
{
  no_inject const guard;
  std::string const &op = t[0];
  if (op == "readchars" || op == "dynarr")
    return "exc:bad_alloc live=" + std::to_string(ledger().live.size() - before.live) + " alloc=" + (ledger().bad ? "BAD" : "ok");
  bool vex[NV] = {}, bex[NB] = {};
  for (std::size_t i = 0; i < NV; ++i)
    if (!st().vec[i].has_value())
    {
      st().vec[i].emplace();
      st().ref[i].clear();
      vex[i] = true;
    }
  for (std::size_t i = 0; i < NB; ++i)
    if (!st().buf[i].has_value())
    {
      null_buffer(i);
      st().brd[i].clear();
      st().bws[i] = 0;
      bex[i] = true;
    }
  std::size_t r = 0;
  if (op == "insr" && t.size() == 5 && t[3] == "inp" && reg(t[1], NV, r))
  {
    // basic guarantee only: the elements inserted so far stay
    st().ref[r] = contents(*st().vec[r]);
    vex[r] = true;
  }
  bool sg = true;
  std::string diff;
  for (std::size_t i = 0; i < NV; ++i)
  {
    rv_t const &v = *st().vec[i];
    if (!vex[i] && !(v.data() == before.vdata[i] && v.size() == before.vsize[i] && v.capacity() == before.vcap[i]))
      sg = false;
    if (contents(v) != st().ref[i])
      diff += ":v" + std::to_string(i) + "=" + show_list(st().ref[i]);
  }
  for (std::size_t i = 0; i < NB; ++i)
  {
    buf_t &b = *st().buf[i];
    if (!bex[i] && !(b.read_data() == before.bdata[i] && b.read_size() == before.brs[i] && b.write_size() == before.bws[i]))
      sg = false;
    if (contents(b) != st().brd[i] || b.write_size() != st().bws[i])
      diff += ":b" + std::to_string(i) + "=" + show_list(st().brd[i]) + "/" + std::to_string(st().bws[i]);
  }
  return "exc:bad_alloc " + dump_all() + " sg=" + (sg ? "1" : "0") + " std=" + (diff.empty() ? "ok" : "DIFF" + diff);
}

std::string handle(std::vector<std::string> const &t)
{
  // a UBSan death (unlike an ASan one) does not run vh's death callback: make the lines produced so far visible
  // before every operation so that the runner attributes a death to the operation that caused it
  std::fflush(stdout);
  if (t.size() == 2 && t[0] == "failat")
  {
    long long const k = vh::to_ll(t[1]);
    if (k <= 0)
      return "bad-op";
    inject().countdown = k;
    return "ok";
  }
  if (t.size() == 2 && t[0] == "failsize")
  {
    inject().countdown = 0;
    inject().maxsize = t[1] == "off" ? -1 : vh::to_ll(t[1]);
    return "ok";
  }
  snap_t const before = snapshot();
  try
  {
    std::string const r = handle_inner(t);
    inject().countdown = 0; // `failat` holds for one line
    return r;
  }
  catch (std::bad_alloc const &)
  {
    inject().countdown = 0;
    return after_throw(t, before);
  }
  catch (std::exception const &)
  {
    inject().countdown = 0;
    return "exc:std";
  }
  catch (...)
  {
    inject().countdown = 0;
    return "exc:other";
  }
}
}

int main()
{
  construct_nulls();
  int const r = vh::run(handle);
  fresh();
  return r;
}
